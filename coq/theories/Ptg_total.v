(* Ptg_total — C14 / C06: since the hardening of the two formula decoders no byte string makes
   them panic.  The operand stack is a non-increasing list of offsets into the output buffer
   (top first, every offset <= the buffer length); every String::insert / split_off /
   fargs[w0..w1] / `*s -= start` site is safe under that invariant, every operand read is covered
   by the `expected` pre-check. *)
From Coq Require Import String.
From Calamine Require Import Prelude Col26 Col26_proofs FtabRef FtabMatch Ptg Ptg_proofs.
From CalamineGen Require Tables.
Open Scope N_scope.

(* outcome is not a panic, and a result satisfies Q *)
Definition safe {A : Type} (o : outcome A) (Q : A -> Prop) : Prop :=
  match o with Ok a => Q a | Panic => False | _ => True end.

Lemma safe_bind : forall {A B : Type} (o : outcome A) (f : A -> outcome B) (P : A -> Prop) (Q : B -> Prop),
  safe o P -> (forall a, P a -> safe (f a) Q) -> safe (do x <- o; f x) Q.
Proof. intros A B o f P Q Ho Hf. destruct o; cbn [obind safe] in *; auto. Qed.

Lemma safe_weaken : forall {A : Type} (o : outcome A) (P Q : A -> Prop),
  safe o P -> (forall a, P a -> Q a) -> safe o Q.
Proof. intros A o P Q H HPQ. destruct o; cbn [safe] in *; auto. Qed.

Lemma safe_not_panic : forall {A : Type} (o : outcome A) (Q : A -> Prop), safe o Q -> o <> Panic.
Proof. intros A o Q H E. subst. exact H. Qed.

(* ------------------------------------------------------------------ the stack invariant *)
Fixpoint sorted_le (st : list nat) (bound : nat) : Prop :=
  match st with [] => True | t :: r => (t <= bound)%nat /\ sorted_le r t end.
Definition inv (s : pstate) : Prop := sorted_le (fst s) (length (snd s)).
Definition okst (rs : list N * pstate) : Prop := inv (snd rs).

Lemma sorted_le_weaken : forall st b b', sorted_le st b -> (b <= b')%nat -> sorted_le st b'.
Proof. destruct st as [|t r]; intros b b' H L; [exact I|]. destruct H as [H1 H2]. split; [lia|exact H2]. Qed.

Lemma inv_push : forall st buf x, inv (st, buf) -> inv (length buf :: st, buf ++ x).
Proof.
  intros st buf x H. unfold inv in *. cbn [fst snd sorted_le] in *. rewrite app_length.
  split; [lia|exact H].
Qed.

Lemma inv_grow : forall st buf buf', inv (st, buf) -> (length buf <= length buf')%nat -> inv (st, buf').
Proof. intros st buf buf' H L. unfold inv in *. cbn [fst snd] in *. eapply sorted_le_weaken; eauto. Qed.

(* ------------------------------------------------------------------ reads covered by the pre-check *)
Lemma byte_ok : forall (l : list N) o, (o + 1 <= length l)%nat -> exists v, byte_at l o = Ok v.
Proof.
  intros l o H. unfold byte_at. destruct (skipn o l) as [|a t] eqn:E; [|eauto].
  apply (f_equal (@length N)) in E. rewrite skipn_length in E. cbn in E. lia.
Qed.
Lemma u16_ok : forall (l : list N) o, (o + 2 <= length l)%nat -> exists v, u16_at l o = Ok v.
Proof.
  intros l o H. unfold u16_at. destruct (skipn o l) as [|a [|b t]] eqn:E; eauto;
    apply (f_equal (@length N)) in E; rewrite skipn_length in E; cbn in E; lia.
Qed.
Lemma u32_ok : forall (l : list N) o, (o + 4 <= length l)%nat -> exists v, u32_at l o = Ok v.
Proof.
  intros l o H. unfold u32_at. destruct (skipn o l) as [|a [|b [|c [|d t]]]] eqn:E; eauto;
    apply (f_equal (@length N)) in E; rewrite skipn_length in E; cbn in E; lia.
Qed.
Lemma u64_ok : forall (l : list N) o, (o + 8 <= length l)%nat -> exists v, u64_at l o = Ok v.
Proof.
  intros l o H. unfold u64_at.
  destruct (skipn o l) as [|a [|b [|c [|d [|e [|f [|g [|h t]]]]]]]] eqn:E; eauto;
    apply (f_equal (@length N)) in E; rewrite skipn_length in E; cbn in E; lia.
Qed.
Lemma drop_ok : forall n (l : list N), (n <= length l)%nat ->
  exists r, drop n l = Ok r /\ length r = (length l - n)%nat.
Proof.
  induction n as [|n IH]; intros l H; [exists l; split; [reflexivity|lia]|].
  destruct l as [|x l]; [cbn in H; lia|]. cbn [drop length]. apply IH. cbn [length] in H. lia.
Qed.
Lemma take_ok : forall n (l : list N), (n <= length l)%nat -> exists r, take n l = Ok r.
Proof.
  induction n as [|n IH]; intros l H; [eexists; reflexivity|].
  destruct l as [|x l]; [cbn in H; lia|]. cbn [take length] in *.
  destruct (IH l) as [r E]; [lia|]. rewrite E. cbn [obind]. eauto.
Qed.
Lemma drop_err_safe : forall n (l : list N) (Q : list N -> Prop), (forall r, Q r) -> safe (drop_err n l) Q.
Proof.
  intros n l Q HQ. unfold drop_err. destruct (length l <? n)%nat eqn:E; [exact I|].
  apply Nat.ltb_ge in E. destruct (drop_ok n l E) as [r [Er _]]. rewrite Er. apply HQ.
Qed.

Lemma land_14 : forall x, N.land x 16383 < 2 ^ 32.
Proof.
  intros x. change 16383 with (N.ones 14). rewrite N.land_ones.
  pose proof (N.mod_lt x (2 ^ 14)) as H. change (2 ^ 14) with 16384 in *. change (2 ^ 32) with 4294967296. lia.
Qed.

Lemma push_cell_ref_ok : forall r c buf, exists x, push_cell_ref r c buf = Ok (buf ++ x).
Proof.
  intros r c buf. unfold push_cell_ref.
  destruct (bit14 c); rewrite (@push_column_is_letters (N.land c 16383) _ (land_14 c)); cbn [obind];
    destruct (bit15 c); rewrite <- ?app_assoc; eauto.
Qed.

(* ------------------------------------------------------------------ String operations under the invariant *)
Lemma insert_at_ok : forall e ch b, (e <= length b)%nat ->
  exists b', insert_at e ch b = Ok b' /\ length b' = S (length b).
Proof.
  intros e ch b H. unfold insert_at. destruct (e <=? length b)%nat eqn:E; [|apply Nat.leb_gt in E; lia].
  eexists. split; [reflexivity|]. rewrite app_length. cbn [length]. rewrite firstn_length, skipn_length. lia.
Qed.
Lemma split_off_ok : forall e b, (e <= length b)%nat ->
  split_off e b = Ok (firstn e b, skipn e b) /\ length (firstn e b) = e.
Proof.
  intros e b H. unfold split_off. destruct (e <=? length b)%nat eqn:E; [|apply Nat.leb_gt in E; lia].
  split; [reflexivity|]. rewrite firstn_length. lia.
Qed.

Lemma safe_push_text : forall txt n rgce s, (n <= length rgce)%nat -> inv s ->
  safe (arm_push_text txt n rgce s) okst.
Proof.
  intros txt n rgce [st buf] H Hi. unfold arm_push_text. destruct (drop_ok n rgce H) as [r [E _]].
  rewrite E. cbn [obind safe]. unfold okst. cbn [snd fst]. apply inv_push. exact Hi.
Qed.

Lemma safe_binop : forall ptg rgce s, inv s -> safe (arm_binop ptg rgce s) okst.
Proof.
  intros ptg rgce [st buf] Hi. unfold arm_binop. cbn [fst snd]. destruct st as [|e2 st']; [exact I|].
  unfold inv in Hi. cbn [fst snd sorted_le] in Hi. destruct Hi as [H1 H2].
  destruct (split_off_ok e2 buf H1) as [E L]. rewrite E. cbn [obind safe]. unfold okst. cbn [snd fst].
  unfold inv. cbn [fst snd]. eapply sorted_le_weaken; [exact H2|]. rewrite app_length, L. lia.
Qed.

Lemma safe_insert : forall ch rgce s, inv s -> safe (arm_insert ch rgce s) okst.
Proof.
  intros ch rgce [st buf] Hi. unfold arm_insert. cbn [fst snd]. destruct st as [|e st']; [exact I|].
  pose proof Hi as Hi'. unfold inv in Hi. cbn [fst snd sorted_le] in Hi. destruct Hi as [H1 H2].
  destruct (insert_at_ok e ch buf H1) as [b' [E L]]. rewrite E. cbn [obind safe]. unfold okst. cbn [snd fst].
  eapply inv_grow; [exact Hi'|lia].
Qed.

Lemma safe_paren : forall rgce s, inv s -> safe (arm_paren rgce s) okst.
Proof.
  intros rgce [st buf] Hi. unfold arm_paren. cbn [fst snd]. destruct st as [|e st']; [exact I|].
  pose proof Hi as Hi'. unfold inv in Hi. cbn [fst snd sorted_le] in Hi. destruct Hi as [H1 H2].
  destruct (insert_at_ok e ch_lpar buf H1) as [b' [E L]]. rewrite E. cbn [obind safe]. unfold okst. cbn [snd fst].
  eapply inv_grow; [exact Hi'|rewrite app_length; lia].
Qed.

Lemma safe_attrsum : forall rgce s, inv s -> safe (arm_attrsum rgce s) okst.
Proof.
  intros rgce [st buf] Hi. unfold arm_attrsum. cbn [fst snd]. destruct st as [|e st']; [exact I|].
  unfold inv in Hi. cbn [fst snd sorted_le] in Hi. destruct Hi as [H1 H2].
  destruct (split_off_ok e buf H1) as [E L]. rewrite E. cbn [obind safe]. unfold okst. cbn [snd fst].
  unfold inv. cbn [fst snd sorted_le]. split; [|exact H2]. rewrite !app_length, L. lia.
Qed.

(* ------------------------------------------------------------------ the function arm *)
Fixpoint asc (l : list nat) : Prop :=
  match l with a :: ((b :: _) as t) => (a <= b)%nat /\ asc t | _ => True end.

Lemma asc_snoc : forall l a, asc l -> (forall x, In x l -> (x <= a)%nat) -> asc (l ++ [a]).
Proof.
  induction l as [|x l IH]; intros a H Hall; [exact I|].
  destruct l as [|y t].
  - cbn. split; [apply Hall; left; reflexivity|exact I].
  - cbn [app asc] in *. destruct H as [H1 H2]. split; [exact H1|].
    apply IH; [exact H2|]. intros z Hz. apply Hall. right. exact Hz.
Qed.

Lemma asc_hd_min : forall t a, asc (a :: t) -> forall x, In x (a :: t) -> (a <= x)%nat.
Proof.
  induction t as [|b t IH]; intros a H x Hx.
  - destruct Hx as [<-|[]]. lia.
  - cbn [asc] in H. destruct H as [H1 H2]. destruct Hx as [<-|Hx]; [lia|].
    specialize (IH b H2 x Hx). lia.
Qed.

Lemma asc_map_sub : forall l s, asc l -> asc (map (fun o => (o - s)%nat) l).
Proof.
  induction l as [|a [|b t] IH]; intros s H; try exact I.
  cbn [map asc] in *. destruct H as [H1 H2]. split; [lia|]. apply (IH s H2).
Qed.

Lemma sorted_le_all : forall l b, sorted_le l b -> forall x, In x l -> (x <= b)%nat.
Proof.
  induction l as [|a t IH]; intros b H x Hx; [contradiction|].
  destruct H as [H1 H2]. destruct Hx as [<-|Hx]; [exact H1|]. specialize (IH a H2 x Hx). lia.
Qed.

Lemma sorted_le_rev_asc : forall l b, sorted_le l b -> asc (rev l).
Proof.
  induction l as [|a t IH]; intros b H; [exact I|].
  destruct H as [H1 H2]. cbn [rev]. apply asc_snoc; [apply (IH a H2)|].
  intros x Hx. apply in_rev in Hx. apply (sorted_le_all t a H2 x Hx).
Qed.

Lemma sorted_le_firstn : forall k st b, sorted_le st b -> sorted_le (firstn k st) b.
Proof.
  induction k as [|k IH]; intros st b H; [exact I|].
  destruct st as [|a t]; [exact I|]. destruct H as [H1 H2]. cbn [firstn sorted_le]. split; [exact H1|].
  apply IH. exact H2.
Qed.

Lemma sorted_le_skipn_same : forall k st b, sorted_le st b -> sorted_le (skipn k st) b.
Proof.
  induction k as [|k IH]; intros st b H; [exact H|].
  destruct st as [|a t]; [exact I|]. destruct H as [H1 H2]. cbn [skipn].
  apply IH. eapply sorted_le_weaken; [exact H2|exact H1].
Qed.

Lemma sorted_le_skipn_below : forall k st b, sorted_le st b ->
  forall x, In x (firstn k st) -> sorted_le (skipn k st) x.
Proof.
  induction k as [|k IH]; intros st b H x Hx; [contradiction|].
  destruct st as [|a t]; [contradiction|]. destruct H as [H1 H2]. cbn [firstn skipn] in *.
  destruct Hx as [<-|Hx]; [apply sorted_le_skipn_same; exact H2|]. apply (IH t a H2 x Hx).
Qed.

Lemma windows_join_ok : forall fargs offs acc, asc offs ->
  (forall x, In x offs -> (x <= length fargs)%nat) ->
  exists j, windows_join fargs offs acc = Ok j /\ (length acc <= length j)%nat.
Proof.
  intros fargs. induction offs as [|a t IH]; intros acc Ha Hb; [exists acc; split; [reflexivity|lia]|].
  destruct t as [|b t']; [exists acc; split; [reflexivity|lia]|].
  cbn [windows_join]. cbn [asc] in Ha. destruct Ha as [H1 H2].
  assert (Hbl : (b <= length fargs)%nat) by (apply Hb; right; left; reflexivity).
  destruct ((a <=? b) && (b <=? length fargs))%nat eqn:E.
  - destruct (IH (acc ++ firstn (b - a) (skipn a fargs) ++ [ch_comma]) H2) as [j [Ej Lj]].
    { intros x Hx. apply Hb. right. exact Hx. }
    exists j. split; [exact Ej|]. rewrite app_length in Lj. lia.
  - apply andb_false_iff in E. destruct E as [E|E]; apply Nat.leb_gt in E; lia.
Qed.

Lemma removelast_snoc_length : forall (j : list N) c, j <> [] -> length (removelast j ++ [c]) = length j.
Proof.
  intros j c H. rewrite (app_removelast_last 0 H) at 2. rewrite !app_length. reflexivity.
Qed.

Lemma pop_comma_length : forall (j : list N) c, j <> [] -> (length j <= length (pop_comma j ++ [c]))%nat.
Proof.
  intros j c H. unfold pop_comma. destruct (last j 0 =? ch_comma).
  - rewrite (removelast_snoc_length j c H). lia.
  - rewrite app_length. cbn [length]. lia.
Qed.

Lemma safe_func_apply : forall strict iftab argc s, inv s ->
  safe (func_apply strict iftab argc s) inv.
Proof.
  intros strict iftab argc [st buf] Hi. unfold func_apply.
  destruct (length st <? argc)%nat eqn:El; [exact I|]. apply Nat.ltb_ge in El.
  destruct argc as [|k].
  - destruct (nthN Tables.FTAB iftab); [|exact I]. cbn [safe]. apply inv_push. exact Hi.
  - set (argc := S k) in *. unfold inv in Hi. cbn [fst snd] in Hi.
    set (l := firstn argc st).
    assert (Hl : sorted_le l (length buf)) by (apply sorted_le_firstn; exact Hi).
    assert (Hne : l <> []) by (unfold l, argc; destruct st; [cbn in El; lia|discriminate]).
    destruct (rev l) as [|start args'] eqn:Er.
    { exfalso. apply Hne. apply (f_equal (@rev nat)) in Er. rewrite rev_involutive in Er. exact Er. }
    assert (Hasc : asc (start :: args')) by (rewrite <- Er; eapply sorted_le_rev_asc; exact Hl).
    assert (Hin : forall x, In x (start :: args') -> In x l) by (intros x Hx; apply in_rev; rewrite Er; exact Hx).
    assert (Hstart : In start l) by (apply Hin; left; reflexivity).
    assert (Hsb : (start <= length buf)%nat) by (apply (sorted_le_all l _ Hl); exact Hstart).
    destruct (existsb (fun o => (o <? start)%nat) (start :: args')) eqn:Ex.
    { exfalso. apply existsb_exists in Ex. destruct Ex as [x [Hx Hlt]]. apply Nat.ltb_lt in Hlt.
      pose proof (asc_hd_min args' start Hasc x Hx). lia. }
    destruct (split_off_ok start buf Hsb) as [Es Ls]. rewrite Es. cbn [obind fst snd].
    set (fargs := skipn start buf).
    assert (Lf : length fargs = (length buf - start)%nat) by (unfold fargs; apply skipn_length).
    set (rel' := map (fun o => (o - start)%nat) (start :: args') ++ [length fargs]).
    assert (Hasc' : asc rel').
    { apply asc_snoc; [apply asc_map_sub; exact Hasc|].
      intros x Hx. apply in_map_iff in Hx. destruct Hx as [o [<- Ho]].
      pose proof (sorted_le_all l _ Hl o (Hin o Ho)). lia. }
    assert (Hbnd : forall x, In x rel' -> (x <= length fargs)%nat).
    { intros x Hx. apply in_app_or in Hx. destruct Hx as [Hx|[<-|[]]]; [|lia].
      apply in_map_iff in Hx. destruct Hx as [o [<- Ho]].
      pose proof (sorted_le_all l _ Hl o (Hin o Ho)). lia. }
    (* whatever text is put in front of the parenthesis, the arm ends in a state satisfying inv *)
    assert (Hend : forall offs nm, asc offs -> (forall x, In x offs -> (x <= length fargs)%nat) ->
              safe (do joined <- windows_join fargs offs (firstn start buf ++ nm ++ [ch_lpar]);
                    Ok (length (firstn start buf) :: skipn argc st, pop_comma joined ++ [ch_rpar])) inv).
    { intros offs nm Ho Hb.
      destruct (windows_join_ok fargs offs (firstn start buf ++ nm ++ [ch_lpar]) Ho Hb) as [j [Ej Lj]].
      rewrite Ej. cbn [obind safe]. unfold inv. cbn [fst snd sorted_le].
      rewrite !app_length in Lj. cbn [length] in Lj.
      assert (Hj : j <> []) by (intros ->; cbn in Lj; lia).
      pose proof (pop_comma_length j ch_rpar Hj) as Hp. split; [lia|].
      rewrite Ls. apply (sorted_le_skipn_below argc st (length buf) Hi). exact Hstart. }
    destruct (iftab =? 255).
    + (* tab 0x00FF: the first window is the name *)
      destruct rel' as [|w0 [|w1 rest]] eqn:Erel.
      * apply (Hend [] []); [exact I|intros x []].
      * apply (Hend [w0] []); [exact I|exact Hbnd].
      * cbn [asc] in Hasc'. destruct Hasc' as [H01 Hrest].
        assert (Hw1 : (w1 <= length fargs)%nat) by (apply Hbnd; right; left; reflexivity).
        unfold slice_w.
        assert (E : ((w0 <=? w1) && (w1 <=? length fargs))%nat = true)
          by (apply andb_true_intro; split; apply Nat.leb_le; lia).
        rewrite E. cbn [obind].
        apply (Hend (w1 :: rest)); [exact Hrest|]. intros x Hx. apply Hbnd. right. exact Hx.
    + destruct (nthN Tables.FTAB iftab) as [nm|]; [|destruct strict; exact I]. cbn [obind].
      apply (Hend rel' nm); assumption.
Qed.

Lemma ftab_argc_some : forall iftab, iftab < Tables.FTAB_LEN -> exists a, nthN Tables.FTAB_ARGC iftab = Some a.
Proof.
  intros iftab H. destruct tables_ftab as (_ & EA & EL). rewrite EA. rewrite EL in H.
  apply nthN_some. destruct reference_lengths as [_ L]. rewrite L, N2Nat.id. exact H.
Qed.

Lemma safe_arm_func : forall strict (var : bool) (rgce : list N) s, ((if var then 3 else 2) <= length rgce)%nat -> inv s ->
  safe (arm_func strict var rgce s) okst.
Proof.
  intros strict var rgce s Hlen Hi. unfold arm_func, func_header. destruct var.
  - destruct (u16_ok rgce 1) as [v ->]; [lia|]. cbn [obind].
    destruct (byte_ok rgce 0) as [a ->]; [lia|]. cbn [obind].
    destruct (drop_ok 3 rgce) as [r [-> _]]; [lia|]. cbn [obind fst snd].
    eapply safe_bind; [apply safe_func_apply; exact Hi|]. intros s' Hs'. exact Hs'.
  - destruct (u16_ok rgce 0) as [v ->]; [lia|]. cbn [obind].
    destruct (Tables.FTAB_LEN <=? v) eqn:E; [exact I|]. apply N.leb_gt in E.
    destruct (drop_ok 2 rgce) as [r [-> _]]; [lia|]. cbn [obind].
    destruct (ftab_argc_some v E) as [a ->]. cbn [of_option obind fst snd].
    eapply safe_bind; [apply safe_func_apply; exact Hi|]. intros s' Hs'. exact Hs'.
Qed.

(* ------------------------------------------------------------------ leaf automation *)
Lemma inv_push_len : forall st buf (B : list N), inv (st, buf) -> (length buf <= length B)%nat ->
  inv (length buf :: st, B).
Proof. intros st buf B H L. unfold inv in *. cbn [fst snd sorted_le] in *. split; [exact L|exact H]. Qed.

Lemma berr_text_cases : forall e, (exists t, berr_text e = Ok t) \/ berr_text e = Err E_BERR.
Proof.
  intros e. unfold berr_text.
  repeat match goal with |- context [match ?q with _ => _ end] => is_var q; destruct q end; eauto.
Qed.

Ltac reads :=
  repeat first
   [ match goal with |- safe (obind (byte_at ?l ?o) _) _ =>
       let v := fresh "v" in destruct (byte_ok l o) as [v ->]; [cbn [length] in *; lia|]; cbn [obind] end
   | match goal with |- safe (obind (u16_at ?l ?o) _) _ =>
       let v := fresh "v" in destruct (u16_ok l o) as [v ->]; [cbn [length] in *; lia|]; cbn [obind] end
   | match goal with |- safe (obind (u32_at ?l ?o) _) _ =>
       let v := fresh "v" in destruct (u32_ok l o) as [v ->]; [cbn [length] in *; lia|]; cbn [obind] end
   | match goal with |- safe (obind (u64_at ?l ?o) _) _ =>
       let v := fresh "v" in destruct (u64_ok l o) as [v ->]; [cbn [length] in *; lia|]; cbn [obind] end
   | match goal with |- safe (obind (drop ?n ?l) _) _ =>
       let r := fresh "r" in let Lr := fresh "Lr" in
       destruct (drop_ok n l) as [r [-> Lr]]; [cbn [length] in *; lia|]; cbn [obind] end
   | match goal with |- safe (obind (push_cell_ref ?r ?c ?b) _) _ =>
       let x := fresh "x" in destruct (push_cell_ref_ok r c b) as [x ->]; cbn [obind] end
   | match goal with |- safe (obind (berr_text ?e) _) _ =>
       let t := fresh "t" in destruct (berr_text_cases e) as [[t ->]| ->]; cbn [obind] end ].

Ltac finish :=
  cbn [safe]; unfold okst; cbn [snd fst];
  first [ exact I | assumption
        | apply inv_push_len; [assumption | rewrite ?app_length; cbn [length]; lia]
        | eapply inv_grow; [eassumption | rewrite ?app_length; cbn [length]; lia] ].

Lemma safe_xls_ptgstr : forall (rgce : list N) s, (1 <= length rgce)%nat -> inv s ->
  safe (xls_ptgstr rgce s) okst.
Proof.
  intros rgce [st buf] H Hi. unfold xls_ptgstr. cbn [fst snd]. reads.
  eapply safe_bind; [apply drop_err_safe with (Q := fun _ => True); auto|].
  intros r _. finish.
Qed.

Lemma safe_xls_attr : forall (rgce : list N) s, (1 <= length rgce)%nat -> inv s ->
  safe (xls_attr rgce s) okst.
Proof.
  intros rgce [st buf] H Hi. unfold xls_attr. reads.
  destruct (length r <? 2)%nat eqn:E2; [exact I|]. apply Nat.ltb_ge in E2.
  repeat match goal with |- context [match ?q with _ => _ end] => is_var q; destruct q end;
    try exact I; cbn [fst snd];
    try (reads; try finish; fail).
  all: try (reads; apply safe_attrsum; exact Hi).
  all: reads; eapply safe_bind; [apply drop_err_safe with (Q := fun _ => True); auto|]; intros ? _; finish.
Qed.

Lemma safe_xlsb_ptgstr : forall (rgce : list N) s, (2 <= length rgce)%nat -> inv s ->
  safe (xlsb_ptgstr rgce s) okst.
Proof.
  intros rgce [st buf] H Hi. unfold xlsb_ptgstr. cbn [fst snd]. reads.
  destruct (length r <? 2 * N.to_nat v)%nat eqn:E; [exact I|]. apply Nat.ltb_ge in E.
  destruct (take_ok (2 * N.to_nat v) r E) as [tk ->]. cbn [obind]. reads. finish.
Qed.

Lemma safe_xlsb_attr : forall (rgce : list N) s, (1 <= length rgce)%nat -> inv s ->
  safe (xlsb_attr rgce s) okst.
Proof.
  intros rgce [st buf] H Hi. unfold xlsb_attr. reads.
  destruct (length r <? 2)%nat eqn:E2; [exact I|]. apply Nat.ltb_ge in E2.
  repeat match goal with |- context [match ?q with _ => _ end] => is_var q; destruct q end;
    try exact I; cbn [fst snd];
    try (reads; try finish; fail).
  all: try (reads; apply safe_attrsum; exact Hi).
  all: reads; eapply safe_bind; [apply drop_err_safe with (Q := fun _ => True); auto|]; intros ? _; finish.
Qed.

(* ------------------------------------------------------------------ one token *)
Ltac follow_ptg :=
  repeat (match goal with
          | |- context [match ?q with xI _ => _ | xO _ => _ | xH => _ end] => is_var q; destruct q
          end; cbn iota).

Ltac leaf :=
  intros Hlen Hi; cbn [fst snd];
  first
   [ exact I
   | apply safe_push_text; [cbn [length] in *; lia | exact Hi]
   | apply safe_binop; exact Hi
   | apply safe_insert; exact Hi
   | apply safe_paren; exact Hi
   | apply safe_xls_ptgstr; [lia | exact Hi]
   | apply safe_xls_attr; [lia | exact Hi]
   | apply safe_xlsb_ptgstr; [lia | exact Hi]
   | apply safe_xlsb_attr; [lia | exact Hi]
   | apply safe_arm_func; [cbn iota; lia | exact Hi]
   | (reads; finish) ].

Lemma safe_xls_step : forall show_f64 env ptg (rest : list N) s,
  (xls_expected ptg <= length rest)%nat -> inv s -> safe (xls_step show_f64 env ptg rest s) okst.
Proof.
  intros show_f64 env ptg rest [st buf]. unfold xls_step, xls_expected.
  destruct ptg as [|p]; [intros; exact I|]. follow_ptg.
  all: try leaf.
  (* PtgRefN / PtgAreaN: refused without a base cell, else two cell references *)
  all: try (intros Hlen Hi; cbn [fst snd];
            match goal with |- context [xe_base ?e] => destruct (xe_base e) as [base|]; [|exact I] end;
            repeat (reads; cbv zeta); finish; fail).
  (* PtgName: the two branches of the index test *)
  all: intros Hlen Hi; cbn [fst snd]; reads;
       match goal with |- safe (if ?c then _ else _) _ => destruct c end; reads; finish.
Qed.

Lemma safe_xlsb_step : forall show_f64 env sub ptg (rest : list N) s,
  (forall inner, safe (sub inner) (fun _ => True)) ->
  (xlsb_expected ptg <= length rest)%nat -> inv s -> safe (xlsb_step show_f64 env sub ptg rest s) okst.
Proof.
  intros show_f64 env sub ptg rest [st buf] Hsub. unfold xlsb_step, xlsb_expected.
  destruct ptg as [|p]; [intros; exact I|]. follow_ptg.
  all: try leaf.
  (* PtgRefN / PtgAreaN: refused without a base cell, else two cell references *)
  all: try (intros Hlen Hi; cbn [fst snd];
            match goal with |- context [be_base ?e] => destruct (be_base e) as [base|]; [|exact I] end;
            repeat (reads; cbv zeta); finish; fail).
  all: intros Hlen Hi; cbn [fst snd]; reads.
  (* 3-D references: the sheet lookup never fails *)
  all: try (unfold sheet_name_xlsb;
            match goal with |- context [nthN (be_sheets ?e) ?i] => destruct (nthN (be_sheets e) i) end;
            cbn [obind]; reads; finish).
  (* PtgExtend sub-kinds *)
  all: try (repeat match goal with |- context [match ?q with _ => _ end] => is_var q; destruct q end;
            try exact I;
            (eapply safe_bind; [apply drop_err_safe with (Q := fun _ => True); auto|]; intros ? _; finish)).
  (* PtgName *)
  all: try (match goal with |- safe (if ?c then _ else _) _ => destruct c end; reads; finish).
  (* PtgMemFunc *)
  all: match goal with |- safe (if (length ?r2 <? ?n)%nat then _ else _) _ =>
         destruct (length r2 <? n)%nat eqn:E; [exact I|]; apply Nat.ltb_ge in E;
         destruct (take_ok n r2 E) as [tk ->]; cbn [obind] end;
       (eapply safe_bind; [apply Hsub|]); intros f _; reads; finish.
Qed.

(* ------------------------------------------------------------------ the loops *)
Lemma safe_xls_run : forall show_f64 env fuel rgce s, inv s ->
  safe (xls_run show_f64 env fuel rgce s) inv.
Proof.
  intros show_f64 env. induction fuel as [|f IH]; intros rgce s Hi; [exact I|].
  destruct rgce as [|ptg rest]; [exact Hi|]. cbn [xls_run].
  destruct (length rest <? xls_expected ptg)%nat eqn:E; [exact I|]. apply Nat.ltb_ge in E.
  eapply safe_bind; [apply safe_xls_step; assumption|].
  intros rs Hrs. apply IH. exact Hrs.
Qed.

Lemma safe_xlsb_run : forall show_f64 env fuel d rgce s, inv s ->
  safe (xlsb_run show_f64 env fuel d rgce s) inv.
Proof.
  intros show_f64 env. induction fuel as [|f IH]; intros d rgce s Hi; [exact I|].
  destruct rgce as [|ptg rest]; [exact Hi|]. cbn [xlsb_run].
  destruct (length rest <? xlsb_expected ptg)%nat eqn:E; [exact I|]. apply Nat.ltb_ge in E.
  eapply safe_bind.
  - apply safe_xlsb_step; [|assumption|assumption].
    intros inner. destruct (MAX_FORMULA_DEPTH <=? d)%nat; [exact I|].
    destruct inner as [|b t]; [exact I|].
    eapply safe_bind; [apply (IH (S d) (b :: t) ([], [])); exact I|].
    intros s' _. unfold xlsb_finish. destruct (fst s') as [|x [|y t']]; exact I.
  - intros rs Hrs. apply IH. exact Hrs.
Qed.

(* ------------------------------------------------------------------ the two decoders, on every byte string *)
Theorem no_panic_parse_formula_xls : forall show_f64 env data,
  xls_parse_formula show_f64 env data <> Panic.
Proof.
  intros show_f64 env data. apply (@safe_not_panic _ _ (fun _ => True)). unfold xls_parse_formula.
  destruct (length data <? 2)%nat eqn:E; [exact I|]. apply Nat.ltb_ge in E.
  destruct (u16_ok data 0) as [cce ->]; [lia|]. cbn [obind].
  destruct (drop_ok 2 data E) as [r2 [-> L2]]. cbn [obind].
  destruct (length r2 <? N.to_nat cce)%nat eqn:E2; [exact I|]. apply Nat.ltb_ge in E2.
  destruct (take_ok (N.to_nat cce) r2 E2) as [rgce ->]. cbn [obind].
  eapply safe_bind; [apply (safe_xls_run show_f64 env (S (length rgce)) rgce ([], [])); exact I|].
  intros s _. destruct (fst s) as [|x [|y t]]; exact I.
Qed.

Theorem no_panic_parse_formula_xlsb : forall show_f64 env rgce,
  xlsb_parse_formula show_f64 env rgce <> Panic.
Proof.
  intros show_f64 env rgce. apply (@safe_not_panic _ _ (fun _ => True)). unfold xlsb_parse_formula.
  destruct rgce as [|b t]; [exact I|].
  eapply safe_bind; [apply (safe_xlsb_run show_f64 env (S (length (b :: t))) 0 (b :: t) ([], [])); exact I|].
  intros s _. unfold xlsb_finish. destruct (fst s) as [|x [|y t']]; exact I.
Qed.
