#!/usr/bin/env python3
"""Writes tools/source_baseline.json: the SHA-1 of every src/**/*.rs file of /repo at its HEAD
commit (the tree the committed models and evidence were synchronised with).  ./check compares the
working tree's files named in a property's anchors with this baseline; when one differs, the
property's extended search (mod.search) runs in addition to the normal quick budget — a source
change in modelled code buys a deeper look, it never raises an alarm by itself.
Run after every commit to /repo (tools/gen_manifest.py does it)."""
import hashlib, json, os, subprocess
ROOT = os.path.dirname(os.path.dirname(os.path.abspath(__file__)))
REPO = os.environ.get("VERIF_REPO", "/repo")   # a builder's clone while a round is in progress

def main():
    head = subprocess.check_output(["git", "-C", REPO, "rev-parse", "HEAD"]).decode().strip()
    files = subprocess.check_output(["git", "-C", REPO, "ls-tree", "-r", "--name-only", "HEAD", "src"]).decode().split()
    out = {"repo_head": head, "files": {}}
    for f in sorted(files):
        blob = subprocess.check_output(["git", "-C", REPO, "show", "HEAD:" + f])
        out["files"][f] = hashlib.sha1(blob).hexdigest()
    p = os.path.join(ROOT, "tools", "source_baseline.json")
    json.dump(out, open(p, "w"), indent=1, sort_keys=True)
    open(p, "a").write("\n")
    print("source baseline of %d files at %s" % (len(files), head[:8]))

if __name__ == "__main__":
    main()
