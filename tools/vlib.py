"""vlib — shared machinery of the checks: builds, proof re-checking, running the model (vm) and the
implementation (vh) on the same cases, classification, known findings, evidence, replays."""
import fcntl, glob, hashlib, json, os, random, re, subprocess, sys, time

ROOT = os.path.dirname(os.path.dirname(os.path.abspath(__file__)))
COQ = os.path.join(ROOT, "coq")
CACHE = os.path.join(ROOT, ".cache")
TARGET = os.path.join(CACHE, "target")
VH = os.path.join(TARGET, "debug", "vh")
VM = os.path.join(ROOT, "ocaml", "_build", "default", "vm.exe")
REPO = "/repo"
# mutation experiments (VERIF_REPO=<scratch copy>) write their evidence and replays under VERIF_OUT, never into /verif/evidence
OUTROOT = os.environ.get("VERIF_OUT", ROOT)
NPROC = 16

ALLOWED_AXIOMS = {
    # the four axioms the standard library declares and Flocq's binary64 operations depend on
    "ClassicalDedekindReals.sig_not_dec", "ClassicalDedekindReals.sig_forall_dec",
    "FunctionalExtensionality.functional_extensionality_dep", "Classical_Prop.classic",
}
FORBIDDEN = re.compile(
    r"\b(Admitted|admit|Axiom|Axioms|Parameter|Parameters|Conjecture|Conjectures|"
    r"Admit\s+Obligations|bypass_check)\b|Unset\s+Guard|Unset\s+Positivity|Unset\s+Universe|"
    r"type-in-type|impredicative-set")

def log(*a):
    print(*a, file=sys.stderr, flush=True)

def sh(cmd, cwd=None, timeout=3600, env=None, quiet=True):
    e = dict(os.environ)
    e.update({"CARGO_NET_OFFLINE": "true"})
    if env:
        e.update(env)
    p = subprocess.run(cmd, cwd=cwd, shell=isinstance(cmd, str), stdout=subprocess.PIPE,
                       stderr=subprocess.STDOUT, timeout=timeout, env=e)
    out = p.stdout.decode("utf-8", "replace")
    return p.returncode, out

class Lock:
    def __init__(self, name):
        os.makedirs(CACHE, exist_ok=True)
        self.path = os.path.join(CACHE, name + ".lock")
    def __enter__(self):
        self.f = open(self.path, "w")
        fcntl.flock(self.f, fcntl.LOCK_EX)
        return self
    def __exit__(self, *a):
        fcntl.flock(self.f, fcntl.LOCK_UN)
        self.f.close()

# ----------------------------------------------------------------------------- builds

def strip_comments(txt):
    """remove (possibly nested) Coq comments"""
    out, depth, i, n = [], 0, 0, len(txt)
    while i < n:
        if txt.startswith("(*", i):
            depth += 1; i += 2
        elif txt.startswith("*)", i) and depth > 0:
            depth -= 1; i += 2
        else:
            if depth == 0:
                out.append(txt[i])
            i += 1
    return "".join(out)

def coq_sources():
    return sorted(glob.glob(os.path.join(COQ, "theories", "**", "*.v"), recursive=True) +
                  glob.glob(os.path.join(COQ, "gen", "*.v")))

def forbidden_scan(files=None):
    """returns a list of (file, line, text) where a forbidden construct appears outside comments;
    also flags Variable/Hypothesis outside a Section"""
    bad = []
    for f in (files or coq_sources()):
        txt = strip_comments(open(f).read())
        depth = 0
        for ln, line in enumerate(txt.split("\n"), 1):
            if FORBIDDEN.search(line):
                bad.append((f, ln, line.strip()))
            if re.match(r"\s*Section\b", line):
                depth += 1
            elif re.match(r"\s*End\b", line) and depth > 0:
                depth -= 1   # Module ends also decrement; Modules are not used with Variables here
            elif re.match(r"\s*(Variable|Variables|Hypothesis|Hypotheses|Context)\b", line) and depth == 0:
                bad.append((f, ln, "outside a Section: " + line.strip()))
            if re.match(r"\s*Module\b", line) and ":=" not in line:
                depth += 1
    return bad

def gen_tables():
    gt = os.path.join(ROOT, "tools", "gen_tables.py")
    if os.path.exists(gt):
        rc, out = sh([sys.executable, gt], cwd=ROOT, timeout=120)
        if rc != 0:
            return False, out
    return True, ""

def coq_build(targets=None, timeout=3000):
    """full .vo build of the given make targets (default: everything). Returns (ok, output)."""
    with Lock("coq"):
        ok, out = gen_tables()
        if not ok:
            return False, "gen_tables failed:\n" + out
        cmd = ["./build.sh"] + (targets or [])
        rc, out = sh(cmd, cwd=COQ, timeout=timeout, env={"COQ_BUILD_TIMEOUT": str(timeout - 10)})
        return rc == 0, out

def model_targets():
    """.vo targets that the extraction needs (the Require lines of coq/extract/*.list)"""
    t = []
    for f in sorted(glob.glob(os.path.join(COQ, "extract", "*.list"))):
        for line in open(f):
            line = line.split("#")[0].strip()
            if line.startswith("Require "):
                m = line[len("Require "):].strip()
                if m.startswith("Calamine."):
                    t.append("theories/" + m[len("Calamine."):].replace(".", "/") + ".vo")
                elif m.startswith("CalamineGen."):
                    t.append("gen/" + m[len("CalamineGen."):].replace(".", "/") + ".vo")
    return sorted(set(t))

def extract_and_build_vm():
    """regenerates Extract.v, runs extraction when stale, builds the OCaml driver."""
    with Lock("ocaml"):
        gen = os.path.join(ROOT, "ocaml", "gen")
        os.makedirs(gen, exist_ok=True)
        rc, out = sh([sys.executable, os.path.join(ROOT, "tools", "gen_extract.py")], cwd=ROOT)
        if rc != 0:
            return False, out
        ext_v = os.path.join(COQ, "extract", "Extract.v")
        stamp = os.path.join(gen, ".stamp")
        newest = max([os.path.getmtime(ext_v)] +
                     [os.path.getmtime(f) for f in glob.glob(os.path.join(COQ, "theories", "*.vo")) +
                      glob.glob(os.path.join(COQ, "gen", "*.vo"))])
        if not os.path.exists(stamp) or os.path.getmtime(stamp) < newest:
            for f in glob.glob(os.path.join(gen, "*.ml")) + glob.glob(os.path.join(gen, "*.mli")):
                os.remove(f)
            rc, out = sh(["coqc", "-Q", os.path.join(COQ, "theories"), "Calamine",
                          "-Q", os.path.join(COQ, "gen"), "CalamineGen", ext_v], cwd=gen, timeout=1200)
            if rc != 0:
                return False, "extraction failed:\n" + out
            open(stamp, "w").write(str(time.time()))
        rc, out = sh("ulimit -s unlimited 2>/dev/null; timeout 1500 dune build ./vm.exe 2>&1",
                     cwd=os.path.join(ROOT, "ocaml"), timeout=1600)
        if rc != 0:
            return False, "dune build failed:\n" + out
        return True, out

def cargo_build():
    """(re)builds the harness against the repository's current working tree (/repo, or the scratch
    copy named by VERIF_REPO for mutation experiments). Returns (ok, hooks_on, output)."""
    global VH
    with Lock("cargo"):
        import shutil
        hd = os.path.join(ROOT, "harness")
        repo = os.environ.get("VERIF_REPO", REPO)
        target = TARGET
        if repo != REPO:
            tag = hashlib.sha1(repo.encode()).hexdigest()[:8]
            alt = os.path.join(CACHE, "harness-" + tag)
            if os.path.exists(alt):
                shutil.rmtree(alt)
            shutil.copytree(hd, alt, ignore=shutil.ignore_patterns("target"))
            ct = os.path.join(alt, "Cargo.toml")
            txt = open(ct).read().replace('path = "/repo"', 'path = "%s"' % repo)
            open(ct, "w").write(txt)
            hd = alt
            target = os.path.join(CACHE, "target-" + tag)
            VH = os.path.join(target, "debug", "vh")
        lock = os.path.join(hd, "Cargo.lock")
        if not os.path.exists(lock) and os.path.exists(os.path.join(repo, "Cargo.lock")):
            shutil.copy(os.path.join(repo, "Cargo.lock"), lock)
        env = {"CARGO_TARGET_DIR": target, "RUSTFLAGS": "--cfg calamine_verif"}
        rc, out = sh(["cargo", "build", "--offline", "--quiet"], cwd=hd, timeout=1800, env=env)
        if rc == 0:
            return True, True, out
        return False, False, out

# ----------------------------------------------------------------------------- proofs

def dep_closure(vfile):
    """Coq source files (ours) in the Require-closure of vfile."""
    seen, todo = [], [vfile]
    while todo:
        f = todo.pop()
        if f in seen or not os.path.exists(f):
            continue
        seen.append(f)
        txt = strip_comments(open(f).read())
        for m in re.finditer(r"From\s+(Calamine|CalamineGen)\s+Require\s+(?:Import|Export)?\s*([^.]*(?:\.[A-Za-z_][^.\s]*)*)\.", txt):
            base = os.path.join(COQ, "theories" if m.group(1) == "Calamine" else "gen")
            for name in m.group(2).split():
                todo.append(os.path.join(base, *name.split(".")) + ".v")
    return sorted(seen)

STMT = re.compile(r"^\s*(?:Local\s+|Global\s+|#\[[^\]]*\]\s*)*(Theorem|Lemma|Corollary|Example|Fact|Proposition|Remark)\s+([A-Za-z_][A-Za-z_0-9']*)", re.M)

def count_obligations(files):
    names, qed = [], 0
    for f in files:
        txt = strip_comments(open(f).read())
        names += [m.group(2) for m in STMT.finditer(txt)]
        qed += len(re.findall(r"\b(Qed|Defined)\s*\.", txt))
    return names, qed

def check_proofs(prop):
    """Rebuilds the closure of Properties/<prop>.v, re-checks the property file itself and parses
    Print Assumptions.  Returns a dict: ok, reason, theorems, assumptions, obligations, discharged."""
    pv = os.path.join(COQ, "theories", "Properties", prop + ".v")
    res = {"ok": False, "reason": "", "theorems": [], "axioms": [], "obligations": 0, "discharged": 0,
           "files": [], "checker_cmd": "coq/build.sh theories/Properties/%s.vo (coq_makefile, full .vo build) + coqc of the property file" % prop}
    if not os.path.exists(pv):
        res["reason"] = "no property file " + pv
        return res
    ok, out = coq_build(["theories/Properties/%s.vo" % prop])
    if not ok:
        res["reason"] = "coq build failed: " + out[-1500:]
        return res
    files = dep_closure(pv)
    res["files"] = [os.path.relpath(f, ROOT) for f in files]
    bad = forbidden_scan(files)
    if bad:
        res["reason"] = "forbidden construct: %s:%d: %s" % bad[0]
        return res
    # re-check the property file itself on every run and read its Print Assumptions output
    os.makedirs(os.path.join(CACHE, "props"), exist_ok=True)
    rc, out = sh(["coqc", "-Q", "theories", "Calamine", "-Q", "gen", "CalamineGen",
                  "-o", os.path.join(CACHE, "props", prop + ".vo"), pv], cwd=COQ, timeout=900)
    if rc != 0:
        res["reason"] = "property file rejected: " + out[-1500:]
        return res
    ptxt = strip_comments(open(pv).read())
    thms = [m.group(2) for m in STMT.finditer(ptxt)]
    pa = re.findall(r"Print\s+Assumptions\s+([A-Za-z_0-9']+)", ptxt)
    missing = [t for t in thms if t not in pa and not t.endswith("_nonvacuous") and
               re.match(r"C\d+_", t)]
    axioms = set()
    for block in re.split(r"\n(?=Axioms:|Closed under)", out):
        if block.startswith("Axioms:"):
            for m in re.finditer(r"^([A-Za-z_][A-Za-z_0-9'.]*)\s*:", block[len("Axioms:"):], re.M):
                axioms.add(m.group(1))
    closed = len(re.findall(r"Closed under the global context", out))
    res["axioms"] = sorted(axioms)
    extra = [a for a in axioms if a not in ALLOWED_AXIOMS]
    if extra:
        res["reason"] = "assumption outside the allow-list: " + ", ".join(extra)
        return res
    if missing:
        res["reason"] = "property theorem without Print Assumptions: " + ", ".join(missing)
        return res
    names, qed = count_obligations(files)
    res.update(ok=True, theorems=thms, obligations=len(names), discharged=min(qed, len(names)),
               closed_reports=closed)
    return res

def coqchk(prop, timeout=3000):
    """thorough tier: re-checks the compiled closure of Properties/<prop>.vo with the independent
    checker and reads the axioms it reports.  Returns dict(ok, axioms, reason, seconds)."""
    t0 = time.time()
    with Lock("coq"):
        rc, out = sh(["coqchk", "-silent", "-o", "-Q", "theories", "Calamine", "-Q", "gen", "CalamineGen",
                      "Calamine.Properties." + prop], cwd=COQ, timeout=timeout)
    res = {"ok": False, "axioms": [], "reason": "", "seconds": round(time.time() - t0, 1),
           "cmd": "coqchk -silent -o -Q theories Calamine -Q gen CalamineGen Calamine.Properties." + prop}
    if rc != 0:
        res["reason"] = "coqchk failed: " + out[-800:]
        return res
    m = re.search(r"\* Axioms:(.*?)\n\s*\n\* ", out, re.S)
    body = m.group(1) if m else ""
    axioms = [a.strip() for a in body.split("\n") if a.strip() and a.strip() != "<none>"]
    res["axioms"] = axioms
    bad = [a for a in axioms if not any(a.endswith(al) or a.endswith(al.split(".")[-1]) for al in ALLOWED_AXIOMS)]
    for sect in ("type-in-type", "unsafe (co)fixpoints", "positivity is assumed"):
        m2 = re.search(re.escape(sect) + r":(.*?)(\n\s*\n|$)", out, re.S)
        if m2 and "<none>" not in m2.group(1):
            bad.append(sect + ": " + m2.group(1).strip()[:200])
    if bad:
        res["reason"] = "coqchk reports assumptions outside the allow-list: " + "; ".join(bad)
        return res
    res["ok"] = True
    return res

# ----------------------------------------------------------------------------- running cases

def _run_exe(exe, lines, timeout, env=None):
    """feeds lines to exe; returns ({id: answer}, died) — died is the id of the case in flight
    if the process aborted or timed out (None otherwise)."""
    ans = {}
    if not lines:
        return ans, None
    data = ("\n".join(lines) + "\n").encode()
    e = dict(os.environ)
    # the implementation side runs every case under a watchdog (a case that loops is answered
    # "timeout" after 30 s and the process restarted for the rest: a hang is a finding, it must
    # not hang the check); C06 sets its own, tighter limit
    if exe == VH:
        e.setdefault("VH_CASE_TIMEOUT_MS", "30000")
    if env:
        e.update(env)
    try:
        p = subprocess.run("ulimit -s unlimited 2>/dev/null; ulimit -v 4000000 2>/dev/null; exec " + exe,
                           shell=True, input=data, stdout=subprocess.PIPE, stderr=subprocess.DEVNULL,
                           timeout=timeout, env=e)
        out = p.stdout
        rc = p.returncode
    except subprocess.TimeoutExpired as t:
        out = t.stdout or b""
        rc = -999
    for l in out.decode("utf-8", "replace").split("\n"):
        if "\t" in l:
            i, a = l.split("\t", 1)
            ans[i] = a
    died = None
    if len(ans) < len(lines):
        for l in lines:
            i = l.split("\t", 1)[0]
            if i not in ans:
                died = (i, "timeout" if rc == -999 else "abort")
                break
    return ans, died

def run_exe(exe, lines, timeout=600, shards=NPROC, env=None):
    """runs lines through exe on several processes; a case that kills the process is answered
    'abort'/'timeout' and the rest of its shard is re-run."""
    from concurrent.futures import ThreadPoolExecutor
    if not lines:
        return {}
    shards = max(1, min(shards, (len(lines) + 49) // 50))
    parts = [lines[i::shards] for i in range(shards)]
    def work(part):
        res = {}
        todo = part
        deaths = 0
        while todo:
            ans, died = _run_exe(exe, todo, timeout, env)
            res.update(ans)
            if died is None:
                break
            res[died[0]] = died[1]
            deaths += 1
            todo = [l for l in todo if l.split("\t", 1)[0] not in res]
            if deaths >= 6 and all(v in ("timeout",) for v in [res[k] for k in list(res)[-1:]]) \
                    and sum(1 for v in res.values() if v == "timeout") >= 6:
                # the same loop again and again: the finding is made, the remaining cases of this
                # shard are not run
                for l in todo:
                    res[l.split("\t", 1)[0]] = "notrun"
                break
        return res
    out = {}
    with ThreadPoolExecutor(max_workers=shards) as ex:
        for r in ex.map(work, parts):
            out.update(r)
    return out


# ----------------------------------------------------------------------------- source baseline

COMMON_SRC = ["src/lib.rs", "src/utils.rs", "src/datatype.rs", "src/formats.rs"]

def changed_sources(prop):
    """files named in the property's anchors (plus the shared ones) whose content in the tree under
    check differs from tools/source_baseline.json (= /repo's HEAD when the models were last
    synchronised).  A difference is not an alarm: it makes ./check run the extended search too."""
    bp = os.path.join(ROOT, "tools", "source_baseline.json")
    if not os.path.exists(bp):
        return []
    base = json.load(open(bp)).get("files", {})
    repo = os.environ.get("VERIF_REPO", REPO)
    files = list(COMMON_SRC)
    for l in open(os.path.join(ROOT, "properties.jsonl")):
        d = json.loads(l)
        if d["id"] == prop:
            files += d.get("anchors", {}).get("files", [])
    out = []
    for f in sorted(set(files)):
        try:
            h = hashlib.sha1(open(os.path.join(repo, f), "rb").read()).hexdigest()
        except OSError:
            h = "missing"
        if f in base and base[f] != h:
            out.append(f)
    # a file that moved or a new module: anything under src/ that the baseline does not know
    for dp, _, fs in os.walk(os.path.join(repo, "src")):
        for fn in fs:
            rel = os.path.relpath(os.path.join(dp, fn), repo)
            if fn.endswith(".rs") and rel not in base:
                out.append(rel)
    return out

# ----------------------------------------------------------------------------- known findings

def load_known():
    p = os.path.join(ROOT, "known_findings.json")
    if not os.path.exists(p):
        return {"findings": [], "fixed": []}
    return json.load(open(p))

# ----------------------------------------------------------------------------- context

class Ctx:
    def __init__(self, prop, tier, seed):
        self.prop, self.tier, self.seed = prop, tier, seed
        self.rng = random.Random(seed)
        self.t0 = time.time()
        self.evaluations = 0
        self.distinct = set()          # hashes of distinct non-trivial cases
        self.samples = []
        self.distribution = {}
        self.disagreements = []        # (line, impl, model): the tie is broken here
        self.violations = []           # (line, impl, spec, model): property fails on the code
        self.known_hits = {}           # finding id -> example
        self.traces = 0
        self.hooks = True
        self.notes = []
        self.known = load_known()
        self.extra = {}

    def count(self, key, n=1):
        self.distribution[key] = self.distribution.get(key, 0) + n

    def scale(self, quick, thorough):
        return thorough if self.tier == "thorough" else quick

    def run_both(self, lines, timeout=900):
        """returns (impl answers, model answers) keyed by case id"""
        i = run_exe(VH, lines, timeout=timeout)
        m = run_exe(VM, lines, timeout=timeout)
        self.evaluations += len(lines)
        return i, m

    def run_impl(self, lines, timeout=900, env=None):
        self.evaluations += len(lines)
        return run_exe(VH, lines, timeout=timeout, env=env)

    def run_model(self, lines, timeout=900):
        return run_exe(VM, lines, timeout=timeout)

    def nontrivial(self, key):
        self.distinct.add(hashlib.sha1(key.encode()).hexdigest()[:16])

    def sample(self, obj, limit=6):
        if len(self.samples) < limit:
            self.samples.append(obj)

    def known_finding(self, fid):
        for f in self.known.get("findings", []):
            if f["property"] == self.prop and f["id"] == fid:
                return f
        return None

def write_replay(prop, kind, payload):
    d = os.path.join(OUTROOT, "replays")
    os.makedirs(d, exist_ok=True)
    body = json.dumps({"property": prop, "kind": kind, **payload}, indent=1, sort_keys=True)
    h = hashlib.sha1(body.encode()).hexdigest()[:12]
    p = os.path.join(d, "%s-%s.json" % (prop, h))
    open(p, "w").write(body + "\n")
    return p

DEFAULT_RULE = ("cases come from one PRNG seeded by VERIF_SEED: the committed corpus first, then structured (mostly legal) cases "
                "drawn from the property's generator / the extracted Coq encoder, boundary cases and, where robustness matters, "
                "malformed ones; evaluations counts every case run through implementation and model; a case counts as distinct and "
                "non-trivial when the property module calls ctx.nontrivial(key) for it, i.e. it reached the mechanism under test "
                "(not rejected up front) and its canonical key (case text / file content and call) was not seen before in this run")

def write_evidence(ctx, proof, violations, extra_cov=None, assumptions=None):
    cov = {
        "obligations": max(1, proof.get("obligations", 0)),
        "discharged": proof.get("discharged", 0) if proof.get("ok") else 0,
        "checker_cmd": proof.get("checker_cmd", ""),
        "trusted_base": [
            "Coq 8.16.1 kernel (coqc, full .vo build; vm_compute in witness lemmas and finite sweeps; no native_compute)",
            "axioms reported by Print Assumptions: " + (", ".join(proof.get("axioms", [])) or "none (closed under the global context)"),
            "extraction with ExtrOcamlBasic only (no Extract Constant of ours); OCaml driver ocaml/*.ml",
            "correspondence check: Rust harness /verif/harness (linked against /repo's working tree), Python driver tools/",
            "the hand-written Gallina model is tied to the code only as far as the correspondence run has sampled",
        ],
        "theorems": proof.get("theorems", []),
        "proof_files": proof.get("files", []),
        "proof_ok": bool(proof.get("ok")),
        "proof_failure": proof.get("reason", ""),
        "coqchk": proof.get("coqchk", "not run in this tier (thorough only)"),
        "evaluations": ctx.evaluations,
        "distinct_nontrivial": len(ctx.distinct),
        "traces_validated_against_impl": ctx.traces,
        "disagreements_checked": len(ctx.disagreements),
        "rule": getattr(ctx, "rule", None) or DEFAULT_RULE,
        "samples": ctx.samples[:8] or ["(no correspondence cases were run)"],
        "input_distribution": ctx.distribution,
        "known_findings_seen": sorted(ctx.known_hits.keys()),
        "hooks_available": ctx.hooks,
        "notes": ctx.notes,
    }
    cov.update(ctx.extra)
    if extra_cov:
        cov.update(extra_cov)
    ev = {
        "property_id": ctx.prop, "tier": ctx.tier, "seed": ctx.seed, "level": "proof",
        "coverage": cov,
        "assumptions": assumptions or [],
        "wall_s": round(time.time() - ctx.t0, 2),
        "violations": violations,
    }
    d = os.path.join(OUTROOT, "evidence")
    os.makedirs(d, exist_ok=True)
    with open(os.path.join(d, ctx.prop + ".json"), "w") as f:
        json.dump(ev, f, indent=1, sort_keys=True)
        f.write("\n")

# ----------------------------------------------------------------------------- helpers for the `open` command

def hexs(s):
    return s.encode("utf-8").hex()

def unhexs(h):
    return bytes.fromhex(h).decode("utf-8", "replace")

def parse_range(txt):
    """'R[s0,s1,e0,e1|c,c/c,c]' -> (start, end, rows of canonical cell strings); 'R[-]' -> None;
    anything else (err:…, panic) -> the text itself"""
    if txt == "R[-]":
        return None
    if not (txt.startswith("R[") and txt.endswith("]")):
        return txt
    head, body = txt[2:-1].split("|", 1)
    a, b, c, d = (int(x) for x in head.split(","))
    rows = [row.split(",") for row in body.split("/")]
    return ((a, b), (c, d), rows)

def range_cells(pr, empty="E"):
    """non-empty cells of a parsed range as {(row, col): cell}"""
    out = {}
    if pr is None or isinstance(pr, str):
        return out
    (sr, sc), _, rows = pr
    for i, row in enumerate(rows):
        for j, v in enumerate(row):
            if v != empty:
                out[(sr + i, sc + j)] = v
    return out

FIXTURE_DIR = os.path.join(os.environ.get("VERIF_REPO", REPO), "tests")
def fixtures(exts):
    out = []
    for f in sorted(os.listdir(FIXTURE_DIR)):
        e = f.rsplit(".", 1)[-1].lower()
        if e in exts:
            out.append((e, os.path.join(FIXTURE_DIR, f)))
    return out

def fixture_report(ctx, name, status, detail=None):
    """Corpus rule (audit 2, pattern 2): a repository fixture that a check runs through a model is
    accounted for in the evidence BY NAME under its status — "agree", "unmodelled" (the model
    declines the input: listed with the reason, never silently skipped), or whatever else the
    check distinguishes.  Evidence: coverage.fixtures = {status: [name (detail), ...]}; the input
    distribution gets fixture:<status> counts."""
    rep = ctx.extra.setdefault("fixtures", {})
    rep.setdefault(status, []).append(name if not detail else "%s (%s)" % (name, detail))
    ctx.count("fixture:" + status)

def fmt_of_ext(e):
    return {"xlsx": "xlsx", "xlsm": "xlsx", "xlam": "xlsx", "xlsb": "xlsb", "xls": "xls", "xla": "xls", "ods": "ods"}.get(e)

def tmpdir(ctx):
    d = os.path.join(CACHE, "tmp", "%s-%d" % (ctx.prop, os.getpid()))
    os.makedirs(d, exist_ok=True)
    return d
