(* Totality_proofs — no-Panic / fuel / allocation-bound theorems for the hardened models of
   Totality.v, universally quantified over ALL inputs (lists of N: in particular all byte lists,
   valid or not).  Induction and arithmetic only; no sampling. *)
From Calamine Require Import Prelude Ovba Ovba_proofs Col26 Totality.
Open Scope N_scope.

(* ========================================================================================== *)
(* 1. decompress_h                                                                              *)
(* ========================================================================================== *)
(* a Vec knows its length *)
Definition wf (v : vec) : Prop := v_len v = N.of_nat (length (v_rev v)).

Lemma wf_empty : wf vec_empty.
Proof. reflexivity. Qed.

Lemma wf_push : forall v b, wf v -> wf (vec_push v b).
Proof. intros v b H. unfold wf, vec_push in *. cbn [v_len v_rev length]. lia. Qed.

Lemma wf_extend : forall v r, wf v -> wf (vec_extend_rev v r).
Proof.
  intros v r H. unfold wf, vec_extend_rev in *. cbn [v_len v_rev]. rewrite app_length. lia.
Qed.

Lemma tail_length : forall v n, wf v -> n <= v_len v ->
  length (vec_tail_rev v n) = N.to_nat n.
Proof.
  intros v n H Hn. unfold vec_tail_rev. rewrite firstn_length. unfold wf in H. lia.
Qed.

Lemma land_lt_pow2 : forall a b k, b < 2 ^ k -> N.land a b < 2 ^ k.
Proof.
  intros a b k Hb.
  assert (E : N.land b (N.ones k) = b) by (rewrite N.land_ones; apply N.mod_small; exact Hb).
  rewrite <- E, N.land_assoc, N.land_ones. apply N.mod_lt, N.pow_nonzero. lia.
Qed.

Lemma shiftr_land_bound : forall t c k m, c < 2 ^ m -> k <= m ->
  N.shiftr (N.land t c) k < 2 ^ (m - k).
Proof.
  intros t c k m Hc Hk. rewrite N.shiftr_div_pow2.
  apply N.div_lt_upper_bound; [apply N.pow_nonzero; lia|].
  rewrite <- N.pow_add_r. replace (k + (m - k)) with m by lia.
  apply land_lt_pow2, Hc.
Qed.

(* the fields of a copy token at a position inside a chunk: never a panic, and within the limits
   the copy statements rely on — for EVERY token value *)
Lemma copy_token_fields_total : forall d t, d <= 4096 ->
  exists len off, copy_token_fields d t = Ok (len, off) /\ 3 <= len /\ 1 <= off <= 4096.
Proof.
  intros d t Hd. unfold copy_token_fields. rewrite (bit_count_of_spec d) by lia.
  cbn [of_option obind]. destruct (spec_bit_count_bounds d Hd) as [Hb _].
  set (bc := spec_bit_count d) in *. clearbody bc.
  eexists _, _. split; [reflexivity|]. split; [lia|]. split; [lia|].
  assert (Hx : N.lxor 65535 (N.shiftr 65535 bc) < 2 ^ 16).
  { assert (bc = 4 \/ bc = 5 \/ bc = 6 \/ bc = 7 \/ bc = 8 \/ bc = 9 \/ bc = 10 \/ bc = 11 \/
            bc = 12) as C by lia.
    repeat destruct C as [C|C]; subst bc; vm_compute; reflexivity. }
  pose proof (shiftr_land_bound t (N.lxor 65535 (N.shiftr 65535 bc)) (16 - bc) 16 Hx ltac:(lia)) as Hs.
  replace (16 - (16 - bc)) with bc in Hs by lia.
  assert (2 ^ bc <= 2 ^ 12) by (apply N.pow_le_mono_r; lia).
  change (2 ^ 12) with 4096 in *. lia.
Qed.

(* while len > offset { … }: the loop copies whole blocks of [offset] bytes; it ends with the
   remaining length, everything that was copied is accounted for *)
Lemma copy_loop_total : forall fuel len off res,
  wf res -> 1 <= off <= 4096 -> off <= v_len res -> (N.to_nat len <= fuel)%nat -> 1 <= len ->
  exists len' res', copy_loop fuel len off res = Ok (len', res') /\ wf res' /\
    v_len res' + len' = v_len res + len /\ 1 <= len' <= off /\ off <= v_len res'.
Proof.
  induction fuel as [|f IH]; intros len off res Hw Ho Hv Hf Hl; [lia|].
  cbn [copy_loop]. destruct (N.ltb_spec off len) as [Hlt|Hge].
  - destruct (N.ltb_spec 4096 off) as [?|_]; [lia|].
    destruct (N.ltb_spec (v_len res) off) as [?|_]; [lia|].
    pose proof (tail_length res off Hw Hv) as Ht.
    destruct (IH (len - off) off (vec_extend_rev res (vec_tail_rev res off))) as (l' & r' & E & W & A & B & C).
    + apply wf_extend, Hw.
    + exact Ho.
    + unfold vec_extend_rev. cbn [v_len]. lia.
    + lia.
    + lia.
    + exists l', r'. split; [exact E|]. split; [exact W|].
      unfold vec_extend_rev in A, C. cbn [v_len] in A, C. rewrite Ht in A. lia.
  - exists len, res. repeat split; auto; lia.
Qed.

Lemma copy_tail_total : forall len off res,
  wf res -> off <= v_len res -> len <= off -> len <= 4096 ->
  exists res', copy_tail len off res = Ok res' /\ wf res' /\ v_len res' = v_len res + len.
Proof.
  intros len off res Hw Hv Hl H4. unfold copy_tail.
  destruct (N.ltb_spec 4096 len) as [?|_]; [lia|].
  destruct (N.ltb_spec (v_len res) off) as [?|_]; [lia|].
  destruct (N.ltb_spec off len) as [?|_]; [lia|].
  eexists. split; [reflexivity|]. split; [apply wf_extend, Hw|].
  unfold vec_extend_rev. cbn [v_len]. rewrite skipn_length, (tail_length res off Hw Hv). lia.
Qed.

(* the state of a chunk under decompression: output well formed, the chunk has produced at most
   4096 bytes so far, the input only shrinks *)
Definition inv (start : N) (n : nat) (st : cstate) : Prop :=
  wf (st_res st) /\ start <= v_len (st_res st) /\ v_len (st_res st) - start <= 4096 /\
  (length (st_in st) <= n)%nat.

Definition fine_h (start : N) (n : nat) (o : outcome cstate) : Prop :=
  match o with
  | Ok st => inv start n st
  | Err _ => True
  | Panic => False
  | OutOfFuel => False
  end.

Lemma do_literal_h_fine : forall start st, inv start (length (st_in st)) st ->
  fine_h start (length (st_in st)) (do_literal_h start st).
Proof.
  intros start [s res clen] (Hw & Hs & Hd & _). cbn [st_in st_res] in *.
  unfold do_literal_h, decomp_len_of. cbn [st_in st_res st_clen].
  destruct (N.ltb_spec (v_len res) start) as [?|_]; [lia|]. cbn [obind].
  destruct (N.leb_spec 4096 (v_len res - start)) as [?|Hlt]; [exact I|].
  destruct s as [|b s]; [exact I|]. cbn [fine_h]. unfold inv. cbn [st_in st_res length].
  split; [apply wf_push, Hw|]. unfold vec_push. cbn [v_len]. lia.
Qed.

Lemma do_copy_h_fine : forall start st, inv start (length (st_in st)) st ->
  fine_h start (length (st_in st)) (do_copy_h start st).
Proof.
  intros start [s res clen] (Hw & Hs & Hd & _). cbn [st_in st_res] in *.
  unfold do_copy_h, decomp_len_of. cbn [st_in st_res st_clen].
  destruct s as [|a [|b s]]; cbn [read_u16_h obind]; [exact I|exact I|].
  destruct (N.ltb_spec (v_len res) start) as [?|_]; [lia|]. cbn [obind].
  destruct (copy_token_fields_total (v_len res - start) (a + 256 * b) Hd) as (len & off & E & Hl & Ho).
  rewrite E. cbn [obind].
  destruct (N.ltb_spec 4096 (v_len res - start + len)) as [?|Hfit]; [exact I|].
  destruct (N.ltb_spec (v_len res) off) as [?|Hoff]; [exact I|].
  destruct (copy_loop_total (N.to_nat len) len off res Hw Ho Hoff (le_n _) ltac:(lia))
    as (len' & res1 & E1 & W1 & A1 & B1 & C1).
  rewrite E1. cbn [obind].
  destruct (copy_tail_total len' off res1 W1 C1 ltac:(lia) ltac:(lia)) as (res2 & E2 & W2 & A2).
  rewrite E2. cbn [obind fine_h]. unfold inv. cbn [st_in st_res skipn length].
  split; [exact W2|]. lia.
Qed.

Lemma token_loop_h_fine : forall n bit_index flags chunk_size start st,
  inv start (length (st_in st)) st ->
  match token_loop_h n bit_index flags chunk_size start st with
  | Ok (_, st') => inv start (length (st_in st)) st'
  | Err _ => True
  | _ => False
  end.
Proof.
  induction n as [|n IH]; intros bit_index flags chunk_size start st Hi; cbn [token_loop_h]; [exact Hi|].
  destruct (chunk_size <? st_clen st); [exact Hi|].
  set (o := if N.land flags (N.shiftl 1 bit_index) =? 0 then do_literal_h start st else do_copy_h start st).
  assert (Ho : fine_h start (length (st_in st)) o).
  { unfold o. destruct (_ =? 0); [apply do_literal_h_fine|apply do_copy_h_fine]; exact Hi. }
  destruct o as [st'|e| |]; cbn [obind fine_h] in *; try exact I; try contradiction.
  assert (Hi' : inv start (length (st_in st')) st').
  { destruct Ho as (A & B & C & D). repeat split; auto. }
  specialize (IH (bit_index + 1) flags chunk_size start st' Hi').
  destruct (token_loop_h n (bit_index + 1) flags chunk_size start st') as [[brk st'']|e| |]; auto.
  destruct Ho as (_ & _ & _ & D). destruct IH as (A & B & C & D'). repeat split; auto. lia.
Qed.

Lemma chunk_loop_h_fine : forall fuel chunk_size start st,
  (length (st_in st) < fuel)%nat -> inv start (length (st_in st)) st ->
  fine_h start (length (st_in st)) (chunk_loop_h fuel chunk_size start st).
Proof.
  induction fuel as [|f IH]; intros chunk_size start [s res clen] Hf Hi; [lia|].
  cbn [st_in] in *. cbn [chunk_loop_h st_in st_res st_clen].
  destruct s as [|flags s]; [exact Hi|].
  destruct (chunk_size <? clen); [exact Hi|].
  assert (Hi1 : inv start (length s) (mkst s res (clen + 1))).
  { destruct Hi as (A & B & C & _). repeat split; auto. }
  pose proof (token_loop_h_fine 8 0 flags chunk_size start (mkst s res (clen + 1)) Hi1) as Ht.
  cbn [st_in] in Ht.
  destruct (token_loop_h 8 0 flags chunk_size start (mkst s res (clen + 1))) as [[brk st']|e| |];
    cbn [obind fine_h] in *; try exact I; try contradiction.
  destruct Ht as (A & B & C & D).
  destruct brk.
  - cbn [fine_h]. repeat split; auto. cbn [length]. lia.
  - assert (Hi' : inv start (length (st_in st')) st') by (repeat split; auto).
    cbn [length] in Hf.
    specialize (IH chunk_size start st' ltac:(lia) Hi').
    destruct (chunk_loop_h f chunk_size start st') as [st''|e| |]; cbn [fine_h] in *; auto.
    destruct IH as (A' & B' & C' & D'). repeat split; auto. cbn [length]. lia.
Qed.

(* the whole container: never a panic, the fuel suffices, and output stays within 2048 bytes per
   input byte (a chunk takes at least its two header bytes and yields at most 4096 bytes) *)
Lemma chunks_loop_h_fine : forall fuel s res, (length s < fuel)%nat -> wf res ->
  match chunks_loop_h fuel s res with
  | Ok res' => wf res' /\ v_len res' <= v_len res + 2048 * N.of_nat (length s)
  | Err _ => True
  | _ => False
  end.
Proof.
  induction fuel as [|f IH]; intros s res Hf Hw; [lia|].
  cbn [chunks_loop_h]. destruct s as [|a s]; [split; [exact Hw|lia]|].
  destruct s as [|b s]; cbn [read_u16_h obind skipn]; [exact I|]. cbn [length] in Hf.
  destruct (negb _); [exact I|]. destruct (_ =? 0).
  - destruct (_ <? CHUNK) eqn:Eb; [exact I|].
    set (blk := firstn (N.to_nat CHUNK) s) in *.
    specialize (IH (skipn (N.to_nat CHUNK) s) (vec_extend_rev res (rev_append blk []))).
    assert (Hlen : (length (skipn (N.to_nat CHUNK) s) <= length s)%nat) by (rewrite skipn_length; lia).
    specialize (IH ltac:(lia) (wf_extend _ _ Hw)).
    destruct (chunks_loop_h f _ _) as [res'|e| |]; auto.
    destruct IH as [W B]. split; [exact W|].
    unfold vec_extend_rev in B. cbn [v_len] in B.
    rewrite rev_append_rev, app_nil_r, rev_length in B.
    assert (length blk <= N.to_nat CHUNK)%nat by (unfold blk; rewrite firstn_length; lia).
    unfold CHUNK in *. cbn [length]. lia.
  - assert (Hi : inv (v_len res) (length s) (mkst s res 0)).
    { repeat split; auto; cbn [st_res st_in]; lia. }
    pose proof (chunk_loop_h_fine f (N.land (a + 256 * b) 4095) (v_len res) (mkst s res 0)) as Hc.
    cbn [st_in] in Hc. specialize (Hc ltac:(lia) Hi).
    destruct (chunk_loop_h f _ _ _) as [st|e| |]; cbn [obind fine_h] in *; try exact I; try contradiction.
    destruct Hc as (A & B & C & D).
    specialize (IH (st_in st) (st_res st) ltac:(lia) A).
    destruct (chunks_loop_h f (st_in st) (st_res st)) as [res'|e| |]; auto.
    destruct IH as [W B']. split; [exact W|]. cbn [length]. lia.
Qed.

Lemma vec_to_list_length : forall v, length (vec_to_list v) = length (v_rev v).
Proof. intro v. unfold vec_to_list. rewrite rev_append_rev, app_nil_r. apply rev_length. Qed.

Theorem decompress_h_total : forall s : list N,
  decompress_h s <> Panic /\ decompress_h s <> OutOfFuel.
Proof.
  intro s. unfold decompress_h, decompress_h_fuel. destruct s as [|sig s]; [split; discriminate|].
  destruct (negb _); [split; discriminate|].
  pose proof (chunks_loop_h_fine (length (sig :: s)) s vec_empty ltac:(cbn [length]; lia) wf_empty) as H.
  destruct (chunks_loop_h _ s vec_empty); cbn [obind]; try contradiction; split; discriminate.
Qed.

Theorem decompress_h_output_bound : forall (s out : list N),
  decompress_h s = Ok out -> N.of_nat (length out) <= 2048 * N.of_nat (length s).
Proof.
  intros s out. unfold decompress_h, decompress_h_fuel. destruct s as [|sig s]; [discriminate|].
  destruct (negb _); [discriminate|].
  pose proof (chunks_loop_h_fine (length (sig :: s)) s vec_empty ltac:(cbn [length]; lia) wf_empty) as H.
  destruct (chunks_loop_h _ s vec_empty) as [res| | |]; cbn [obind]; try discriminate.
  intro E. injection E as <-. destruct H as [W B]. rewrite vec_to_list_length.
  unfold wf in W. cbn [v_len vec_empty length] in *. lia.
Qed.

(* any fuel not below the input length behaves like [decompress_h]'s own *)
Theorem decompress_h_alloc_bound : forall (s out : list N),
  decompress_h s = Ok out -> N.of_nat (length out) + 4096 <= decompress_alloc_bound s.
Proof.
  intros s out H. apply decompress_h_output_bound in H. unfold decompress_alloc_bound. lia.
Qed.

(* ========================================================================================== *)
(* 2. Sectors::get / get_chain                                                                  *)
(* ========================================================================================== *)
Lemma sector_h_total : forall body size id,
  match sector_h body size id with
  | Ok sec => N.of_nat (length sec) <= size
  | Err _ => True
  | _ => False
  end.
Proof.
  intros body size id. unfold sector_h. destruct (_ <? _); [exact I|].
  rewrite firstn_length. lia.
Qed.

(* the walk visits at most [remaining] sectors and then stops with an error: it returns on EVERY
   allocation table, cyclic ones included, and what it gathered is bounded by the table *)
Lemma chain_walk_h_total : forall remaining body size fats sid chain,
  match chain_walk_h remaining body size fats sid chain with
  | Ok out => N.of_nat (length out) <= N.of_nat (length chain) + N.of_nat remaining * size
  | Err _ => True
  | _ => False
  end.
Proof.
  induction remaining as [|r IH]; intros body size fats sid chain; cbn [chain_walk_h].
  - destruct (sid =? ENDOFCHAIN); [lia|exact I].
  - destruct (sid =? ENDOFCHAIN); [lia|].
    pose proof (sector_h_total body size sid) as Hs.
    destruct (sector_h body size sid) as [sec|e| |]; cbn [obind]; try exact I; try contradiction.
    destruct (nth_N fats sid) as [next|]; [|exact I].
    specialize (IH body size fats next (chain ++ sec)).
    destruct (chain_walk_h r body size fats next (chain ++ sec)); auto.
    rewrite app_length in IH. lia.
Qed.

Lemma take_N_length : forall l n,
  N.of_nat (length (take_N l n)) <= n /\ (length (take_N l n) <= length l)%nat.
Proof.
  induction l as [|x t IH]; intro n; cbn [take_N length]; [lia|].
  destruct (N.eqb_spec n 0) as [->|Hn]; cbn [length]; [lia|].
  destruct (IH (n - 1)) as [A B]. lia.
Qed.

Theorem get_chain_h_total : forall body size fats start len,
  get_chain_h body size fats start len <> Panic /\
  get_chain_h body size fats start len <> OutOfFuel.
Proof.
  intros. unfold get_chain_h.
  pose proof (chain_walk_h_total (length fats) body size fats start []) as H.
  destruct (chain_walk_h _ _ _ _ _ _); cbn [obind]; try contradiction; split; discriminate.
Qed.

(* the stream handed back never exceeds what the allocation table can address, nor the length
   that was asked for; the capacity reserved up front obeys the same bound *)
Theorem get_chain_h_bound : forall body size fats start len out,
  get_chain_h body size fats start len = Ok out ->
  N.of_nat (length out) <= N.of_nat (length fats) * size /\
  (0 < len -> N.of_nat (length out) <= len) /\
  chain_capacity_h size fats len <= N.of_nat (length fats) * size.
Proof.
  intros body size fats start len out. unfold get_chain_h.
  pose proof (chain_walk_h_total (length fats) body size fats start []) as H.
  destruct (chain_walk_h _ _ _ _ _ _) as [chain| | |]; cbn [obind]; try discriminate.
  intro E. injection E as <-. cbn [length] in H.
  split; [|split].
  - destruct (0 <? len); [destruct (take_N_length chain len)|]; lia.
  - intro Hl. destruct (N.ltb_spec 0 len) as [_|?]; [|lia]. destruct (take_N_length chain len). lia.
  - unfold chain_capacity_h. destruct (0 <? len); lia.
Qed.

(* a table whose chain comes back on itself: the walk ends with the cycle error (non-vacuity of
   the termination claim: sector 0 points to sector 0) *)
Example get_chain_h_self_loop :
  get_chain_h (repeat 7 512) 512 [0] 0 0 = Err E_CYCLE.
Proof. vm_compute. reflexivity. Qed.

Example get_chain_h_two_cycle :
  get_chain_h (repeat 7 1024) 512 [1; 0] 0 100 = Err E_CYCLE.
Proof. vm_compute. reflexivity. Qed.

Example get_chain_h_ok :
  get_chain_h [1; 2; 3; 4; 5; 6] 4 [1; ENDOFCHAIN] 0 5 = Ok [1; 2; 3; 4; 5].
Proof. vm_compute. reflexivity. Qed.

(* ========================================================================================== *)
(* 3. get_row_and_optional_column                                                               *)
(* ========================================================================================== *)
Lemma digit_bounds : forall c, is_digit c = true -> ch_0 <= c <= ch_9.
Proof. intros c H. unfold is_digit in H. apply andb_prop in H. destruct H as [A B]. unfold ch_0, ch_9 in *. lia. Qed.
Lemma upper_bounds : forall c, is_upper c = true -> ch_A <= c <= ch_Z.
Proof. intros c H. unfold is_upper in H. apply andb_prop in H. destruct H as [A B]. unfold ch_A, ch_Z in *. lia. Qed.
Lemma lower_bounds : forall c, is_lower c = true -> ch_a <= c <= ch_z.
Proof. intros c H. unfold is_lower in H. apply andb_prop in H. destruct H as [A B]. unfold ch_a, ch_z in *. lia. Qed.

Lemma scan_letter_h_total : forall base c s, base <= c ->
  scan_letter_h base c s <> Panic /\ scan_letter_h base c s <> OutOfFuel.
Proof.
  intros base c s Hc. unfold scan_letter_h, sub8.
  destruct (s_readrow s); [destruct (s_row s =? 0)|]; cbn [obind];
    try (split; discriminate);
    destruct (N.ltb_spec c base); try lia; cbn [obind]; split; discriminate.
Qed.

Lemma scan_char_h_total : forall c s,
  scan_char_h c s <> Panic /\ scan_char_h c s <> OutOfFuel.
Proof.
  intros c s. unfold scan_char_h.
  destruct (is_digit c) eqn:Ed.
  - destruct (s_readrow s); [|split; discriminate].
    apply digit_bounds in Ed. unfold sub8. destruct (N.ltb_spec c ch_0); [lia|].
    cbn [obind]. split; discriminate.
  - destruct (is_upper c) eqn:Eu; [apply scan_letter_h_total, (upper_bounds c Eu)|].
    destruct (is_lower c) eqn:El; [apply scan_letter_h_total, (lower_bounds c El)|].
    split; discriminate.
Qed.

Lemma scan_loop_h_total : forall rs s,
  scan_loop_h rs s <> Panic /\ scan_loop_h rs s <> OutOfFuel.
Proof.
  induction rs as [|c t IH]; intro s; cbn [scan_loop_h]; [split; discriminate|].
  destruct (scan_char_h_total c s) as [A B].
  destruct (scan_char_h c s) as [s'|e| |]; cbn [obind]; try congruence; [apply IH|split; discriminate].
Qed.

(* every byte string (indeed every list of numbers): an answer or an error, never a panic; and
   an answer fits the u32 positions *)
Theorem get_rc_h_total : forall range : list N,
  get_rc_h range <> Panic /\ get_rc_h range <> OutOfFuel.
Proof.
  intro range. unfold get_rc_h.
  destruct (scan_loop_h_total (rev range) scan_init) as [A B].
  destruct (scan_loop_h (rev range) scan_init) as [s|e| |]; cbn [obind]; try congruence;
    [|split; discriminate].
  destruct (s_row s =? 0); [split; discriminate|].
  destruct (U32MAX <? s_row s - 1); [split; discriminate|].
  destruct (s_col s =? 0); [split; discriminate|].
  destruct (U32MAX <? s_col s - 1); split; discriminate.
Qed.

Theorem get_rc_h_in_range : forall range row col,
  get_rc_h range = Ok (row, col) ->
  row <= U32MAX /\ match col with Some c => c <= U32MAX | None => True end.
Proof.
  intros range row col. unfold get_rc_h.
  destruct (scan_loop_h (rev range) scan_init) as [s|e| |]; cbn [obind]; try discriminate.
  destruct (s_row s =? 0); [discriminate|].
  destruct (N.ltb_spec U32MAX (s_row s - 1)); [discriminate|].
  destruct (s_col s =? 0).
  - intro E. injection E as <- <-. split; [assumption|exact I].
  - destruct (N.ltb_spec U32MAX (s_col s - 1)); [discriminate|].
    intro E. injection E as <- <-. split; assumption.
Qed.

(* the hardening changed nothing the old code answered: wherever the model of the code BEFORE the
   fix (Col26.get_row_and_optional_column, u32 arithmetic with overflow = Panic) returns Ok or Err,
   the hardened function returns the same; only its Panic outcomes became errors *)
Definition bounded (s : scan_state) : Prop :=
  s_row s <= U32MAX /\ s_col s <= U32MAX /\ s_pow s <= U32MAX.

Lemma sat64_small : forall x, x <= U32MAX -> sat64 x = x.
Proof. intros x H. unfold sat64, U32MAX, U64MAX in *. lia. Qed.

Lemma mul32_ok : forall a b r, mul32 a b = Ok r -> r = a * b /\ a * b <= U32MAX.
Proof. intros a b r. unfold mul32. destruct (N.leb_spec (a * b) U32MAX); [|discriminate]. intro E. injection E as <-. auto. Qed.
Lemma add32_ok : forall a b r, add32 a b = Ok r -> r = a + b /\ a + b <= U32MAX.
Proof. intros a b r. unfold add32. destruct (N.leb_spec (a + b) U32MAX); [|discriminate]. intro E. injection E as <-. auto. Qed.

Lemma obind_ok : forall A B (o : outcome A) (f : A -> outcome B) r,
  (do x <- o; f x) = Ok r -> exists a, o = Ok a /\ f a = Ok r.
Proof. intros A B o f r. destruct o; cbn [obind]; try discriminate. eauto. Qed.
Lemma obind_err : forall A B (o : outcome A) (f : A -> outcome B) e,
  (do x <- o; f x) = Err e -> o = Err e \/ exists a, o = Ok a /\ f a = Err e.
Proof. intros A B o f e. destruct o; cbn [obind]; try discriminate; eauto. intro E. left. injection E as ->. reflexivity. Qed.

Lemma scan_letter_same : forall base c s, base <= c -> bounded s ->
  (forall s', scan_letter base c s = Ok s' -> scan_letter_h base c s = Ok s' /\ bounded s') /\
  (forall e, scan_letter base c s = Err e -> scan_letter_h base c s = Err e).
Proof.
  intros base c s Hc (Br & Bc & Bp). unfold scan_letter, scan_letter_h, sub8.
  destruct (N.ltb_spec c base) as [?|_]; [lia|].
  destruct (s_readrow s) eqn:Er; [destruct (s_row s =? 0) eqn:E0|]; cbn [obind].
  - split; [discriminate|]. intros e E. exact E.
  - cbn [s_row s_col s_pow s_readrow]. split.
    + intros s' H.
      apply obind_ok in H. destruct H as (t & Ht & H). apply mul32_ok in Ht. destruct Ht as [-> Ht].
      apply obind_ok in H. destruct H as (col' & Hc' & H). apply add32_ok in Hc'. destruct Hc' as [-> Hc'].
      apply obind_ok in H. destruct H as (pow' & Hp & H). apply mul32_ok in Hp. destruct Hp as [-> Hp].
      injection H as <-. unfold sadd64, smul64.
      rewrite (sat64_small ((c - base + 1) * 1)) by exact Ht.
      rewrite (sat64_small (s_col s + _)) by exact Hc'. rewrite (sat64_small (1 * 26)) by exact Hp.
      split; [reflexivity|]. unfold bounded. cbn [s_row s_col s_pow]. auto.
    + intros e H.
      apply obind_err in H. destruct H as [H|(t & Ht & H)]; [unfold mul32 in H; destruct (_ <=? _); discriminate|].
      apply obind_err in H. destruct H as [H|(c' & Hc' & H)]; [unfold add32 in H; destruct (_ <=? _); discriminate|].
      apply obind_err in H. destruct H as [H|(p' & Hp' & H)]; [unfold mul32 in H; destruct (_ <=? _); discriminate|].
      discriminate.
  - split.
    + intros s' H.
      apply obind_ok in H. destruct H as (t & Ht & H). apply mul32_ok in Ht. destruct Ht as [-> Ht].
      apply obind_ok in H. destruct H as (col' & Hc' & H). apply add32_ok in Hc'. destruct Hc' as [-> Hc'].
      apply obind_ok in H. destruct H as (pow' & Hp & H). apply mul32_ok in Hp. destruct Hp as [-> Hp].
      injection H as <-. unfold sadd64, smul64.
      rewrite (sat64_small ((c - base + 1) * s_pow s)) by exact Ht.
      rewrite (sat64_small (s_col s + _)) by exact Hc'. rewrite (sat64_small (s_pow s * 26)) by exact Hp.
      split; [reflexivity|]. unfold bounded. cbn [s_row s_col s_pow]. auto.
    + intros e H.
      apply obind_err in H. destruct H as [H|(t & Ht & H)]; [unfold mul32 in H; destruct (_ <=? _); discriminate|].
      apply obind_err in H. destruct H as [H|(c' & Hc' & H)]; [unfold add32 in H; destruct (_ <=? _); discriminate|].
      apply obind_err in H. destruct H as [H|(p' & Hp' & H)]; [unfold mul32 in H; destruct (_ <=? _); discriminate|].
      discriminate.
Qed.

Lemma scan_char_same : forall c s, bounded s ->
  (forall s', scan_char c s = Ok s' -> scan_char_h c s = Ok s' /\ bounded s') /\
  (forall e, scan_char c s = Err e -> scan_char_h c s = Err e).
Proof.
  intros c s Hb. unfold scan_char, scan_char_h.
  destruct (is_digit c) eqn:Ed.
  - destruct (s_readrow s); [|split; [discriminate|auto]].
    apply digit_bounds in Ed. unfold sub8. destruct (N.ltb_spec c ch_0) as [?|_]; [lia|]. cbn [obind].
    destruct Hb as (Br & Bc & Bp). split.
    + intros s' H.
      apply obind_ok in H. destruct H as (t & Ht & H). apply mul32_ok in Ht. destruct Ht as [-> Ht].
      apply obind_ok in H. destruct H as (r' & Hr' & H). apply add32_ok in Hr'. destruct Hr' as [-> Hr'].
      apply obind_ok in H. destruct H as (pow' & Hp & H). apply mul32_ok in Hp. destruct Hp as [-> Hp].
      injection H as <-. unfold sadd64, smul64.
      rewrite (sat64_small ((c - ch_0) * s_pow s)) by exact Ht.
      rewrite (sat64_small (s_row s + _)) by exact Hr'. rewrite (sat64_small (s_pow s * 10)) by exact Hp.
      split; [reflexivity|]. unfold bounded. cbn [s_row s_col s_pow]. auto.
    + intros e H.
      apply obind_err in H. destruct H as [H|(t & Ht & H)]; [unfold mul32 in H; destruct (_ <=? _); discriminate|].
      apply obind_err in H. destruct H as [H|(c' & Hc' & H)]; [unfold add32 in H; destruct (_ <=? _); discriminate|].
      apply obind_err in H. destruct H as [H|(p' & Hp' & H)]; [unfold mul32 in H; destruct (_ <=? _); discriminate|].
      discriminate.
  - destruct (is_upper c) eqn:Eu; [apply scan_letter_same; [apply (upper_bounds c Eu)|exact Hb]|].
    destruct (is_lower c) eqn:El; [apply scan_letter_same; [apply (lower_bounds c El)|exact Hb]|].
    split; [discriminate|auto].
Qed.

Lemma scan_loop_same : forall rs s, bounded s ->
  (forall s', scan_loop rs s = Ok s' -> scan_loop_h rs s = Ok s' /\ bounded s') /\
  (forall e, scan_loop rs s = Err e -> scan_loop_h rs s = Err e).
Proof.
  induction rs as [|c t IH]; intros s Hb; cbn [scan_loop scan_loop_h].
  - split; [intros s' E; injection E as <-; auto|discriminate].
  - destruct (scan_char_same c s Hb) as [Hok Herr]. split.
    + intros s' H. apply obind_ok in H. destruct H as (s1 & H1 & H).
      destruct (Hok s1 H1) as [E1 B1]. rewrite E1. cbn [obind]. apply (IH s1 B1), H.
    + intros e H. apply obind_err in H. destruct H as [H|(s1 & H1 & H)].
      * rewrite (Herr e H). reflexivity.
      * destruct (Hok s1 H1) as [E1 B1]. rewrite E1. cbn [obind]. apply (IH s1 B1), H.
Qed.

Lemma bounded_init : bounded scan_init.
Proof. unfold bounded, scan_init, U32MAX. cbn [s_row s_col s_pow]. lia. Qed.

Theorem get_rc_h_preserves : forall range,
  (forall r, get_row_and_optional_column range = Ok r -> get_rc_h range = Ok r) /\
  (forall e, get_row_and_optional_column range = Err e -> get_rc_h range = Err e).
Proof.
  intro range. unfold get_row_and_optional_column, get_rc_h.
  destruct (scan_loop_same (rev range) scan_init bounded_init) as [Hok Herr]. split.
  - intros r H. apply obind_ok in H. destruct H as (s & Hs & H).
    destruct (Hok s Hs) as [E (Br & Bc & _)]. rewrite E. cbn [obind].
    destruct (s_row s =? 0); [discriminate|].
    destruct (N.ltb_spec U32MAX (s_row s - 1)); [lia|].
    destruct (s_col s =? 0); [exact H|].
    destruct (N.ltb_spec U32MAX (s_col s - 1)); [lia|exact H].
  - intros e H. apply obind_err in H. destruct H as [H|(s & Hs & H)].
    + rewrite (Herr e H). reflexivity.
    + destruct (Hok s Hs) as [E (Br & Bc & _)]. rewrite E. cbn [obind].
      destruct (s_row s =? 0); [exact H|discriminate].
Qed.

(* the inputs on which the old code overflowed (a Panic of its model) are errors now *)
Example get_rc_h_overflow_is_error :
  get_row_and_optional_column [65; 57; 57; 57; 57; 57; 57; 57; 57; 57; 57; 57] = Panic /\
  get_rc_h [65; 57; 57; 57; 57; 57; 57; 57; 57; 57; 57; 57] = Err E_OUT_OF_RANGE /\
  get_rc_h [65; 49] = Ok (0, Some 0).
Proof. vm_compute. repeat split; reflexivity. Qed.
