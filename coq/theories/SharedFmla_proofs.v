(* SharedFmla_proofs — proofs about the shared-formula model (property C15).
   Uses Col26_proofs (agent c14) for the A1 text <-> coordinates lemmas. *)
From Calamine Require Import Prelude Col26 Col26_proofs SharedFmla.
Open Scope N_scope.
Set Implicit Arguments.

(* ------------------------------------------------------------------ outcome monad laws *)
Lemma obind_assoc : forall A B C (o : outcome A) (f : A -> outcome B) (g : B -> outcome C),
  (do y <- (do x <- o; f x); g y) = (do x <- o; do y <- f x; g y).
Proof. intros A B C [a|e| |] f g; reflexivity. Qed.

Lemma obind_ok_r : forall A (o : outcome A), (do x <- o; Ok x) = o.
Proof. intros A [a|e| |]; reflexivity. Qed.

Lemma obind_ext : forall A B (o : outcome A) (f g : A -> outcome B),
  (forall a, f a = g a) -> (do x <- o; f x) = (do x <- o; g x).
Proof. intros A B [a|e| |] f g H; cbn; auto. Qed.

(* ------------------------------------------------------------------ characters *)
Lemma alnum_ascii : forall c, is_alnum c = true -> c < 128.
Proof.
  intros c. unfold is_alnum, is_alpha, is_upper, is_lower, is_digit,
    ch_A, ch_Z, ch_a, ch_z, ch_0, ch_9. lia.
Qed.
Lemma alnum_not_dquote : forall c, is_alnum c = true -> (c =? ch_dquote) = false.
Proof.
  intros c. unfold is_alnum, is_alpha, is_upper, is_lower, is_digit,
    ch_A, ch_Z, ch_a, ch_z, ch_0, ch_9, ch_dquote. lia.
Qed.
Lemma upper_alpha : forall c, is_upper c = true -> is_alpha c = true.
Proof. intros c H. unfold is_alpha. rewrite H. reflexivity. Qed.
Lemma alpha_alnum : forall c, is_alpha c = true -> is_alnum c = true.
Proof. intros c H. unfold is_alnum. rewrite H. reflexivity. Qed.
Lemma digit_alnum : forall c, is_digit c = true -> is_alnum c = true.
Proof. intros c H. unfold is_alnum. rewrite H. apply orb_true_r. Qed.
Lemma digit_not_alpha : forall c, is_digit c = true -> is_alpha c = false.
Proof.
  intros c. unfold is_alpha, is_upper, is_lower, is_digit, ch_A, ch_Z, ch_a, ch_z, ch_0, ch_9. lia.
Qed.
Lemma u8_ascii : forall c, c < 128 -> u8 c = c.
Proof. intros c H. unfold u8. apply N.mod_small. lia. Qed.
Lemma map_u8_ascii : forall l, Forall (fun c => c < 128) l -> map u8 l = l.
Proof.
  induction l as [|c l IH]; intros H; [reflexivity|].
  inversion H as [|? ? Hc Hl]; subst. cbn [map]. rewrite u8_ascii by exact Hc. rewrite IH; auto.
Qed.

(* ------------------------------------------------------------------ the loop: append, result prefix *)
Definition finish (off : Z * Z) (st : rstate) : outcome (list N) :=
  match rs_cell st with
  | [] => Ok (rs_res st)
  | _ => do f <- flush_cell (rs_cell st) off; Ok (rs_res st ++ f)
  end.

Lemma rcn_bytes_eq : forall s off,
  rcn_bytes s off = do st <- rcn_loop off s rs_init; finish off st.
Proof. reflexivity. Qed.

Lemma flush_nil : forall off, flush_cell [] off = Ok [].
Proof. intros off. reflexivity. Qed.

Lemma finish_eq : forall off st,
  finish off st = do f <- flush_cell (rs_cell st) off; Ok (rs_res st ++ f).
Proof.
  intros off st. unfold finish. destruct (rs_cell st) eqn:E; [|reflexivity].
  rewrite flush_nil. cbn [obind]. rewrite app_nil_r. reflexivity.
Qed.

Lemma rcn_loop_app : forall off u s st,
  rcn_loop off (u ++ s) st = do st' <- rcn_loop off u st; rcn_loop off s st'.
Proof.
  induction u as [|c u IH]; intros s st; [reflexivity|].
  cbn [app rcn_loop]. rewrite obind_assoc. apply obind_ext. intros a. apply IH.
Qed.

Definition with_pre (p : list N) (st : rstate) : rstate :=
  mkR (p ++ rs_res st) (rs_cell st) (rs_icr st) (rs_inq st).

Lemma step_pre : forall off p st c,
  rcn_step off (with_pre p st) c = do st' <- rcn_step off st c; Ok (with_pre p st').
Proof.
  intros off p st c. unfold rcn_step, with_pre. cbn [rs_res rs_cell rs_icr rs_inq].
  destruct (if c =? ch_dquote then negb (rs_inq st) else rs_inq st).
  - cbn [obind rs_res rs_cell rs_icr rs_inq]. rewrite app_assoc. reflexivity.
  - destruct (is_alpha c).
    + destruct (rs_icr st); cbn [obind rs_res rs_cell rs_icr rs_inq]; rewrite ?app_assoc; reflexivity.
    + destruct (is_digit c); [reflexivity|].
      destruct (flush_cell (rs_cell st) off); cbn [obind rs_res rs_cell rs_icr rs_inq]; try reflexivity.
      rewrite !app_assoc. reflexivity.
Qed.

Lemma loop_pre : forall off p s st,
  rcn_loop off s (with_pre p st) = do st' <- rcn_loop off s st; Ok (with_pre p st').
Proof.
  induction s as [|c s IH]; intros st; [reflexivity|].
  cbn [rcn_loop]. rewrite step_pre, !obind_assoc. apply obind_ext. intros a.
  cbn [obind]. apply IH.
Qed.

Lemma finish_pre : forall off p st,
  finish off (with_pre p st) = do b <- finish off st; Ok (p ++ b).
Proof.
  intros off p st. rewrite !finish_eq. unfold with_pre. cbn [rs_res rs_cell].
  rewrite obind_assoc. apply obind_ext. intros a. cbn [obind]. rewrite app_assoc. reflexivity.
Qed.

(* ------------------------------------------------------------------ the offset-independent part of the state *)
Definition pst (st : rstate) : pstate := (rs_cell st, rs_icr st, rs_inq st).

Lemma step_pst : forall off st c st',
  rcn_step off st c = Ok st' -> pst st' = padv (pst st) c.
Proof.
  intros off st c st' H. unfold rcn_step in H. unfold padv, pst. cbn [fst snd].
  destruct (if c =? ch_dquote then negb (rs_inq st) else rs_inq st) eqn:Q.
  - inversion H; subst. reflexivity.
  - destruct (is_alpha c).
    + destruct (rs_icr st); inversion H; subst; reflexivity.
    + destruct (is_digit c); [inversion H; subst; reflexivity|].
      destruct (flush_cell (rs_cell st) off); cbn [obind] in H; inversion H; subst. reflexivity.
Qed.

Lemma loop_pst : forall off u st st',
  rcn_loop off u st = Ok st' -> pst st' = fold_left padv u (pst st).
Proof.
  induction u as [|c u IH]; intros st st' H.
  - inversion H; subst. reflexivity.
  - cbn [rcn_loop] in H. destruct (rcn_step off st c) as [s1| | |] eqn:E; cbn [obind] in H; try discriminate.
    cbn [fold_left]. rewrite <- (step_pst _ _ _ E). apply IH. exact H.
Qed.

(* invariant: an empty candidate has is_cell_row = false *)
Definition pinv (p : pstate) : Prop := fst (fst p) = [] -> snd (fst p) = false.
Lemma padv_inv : forall p c, pinv p -> pinv (padv p c).
Proof.
  intros [[cell icr] inq] c H. unfold pinv, padv in *. cbn [fst snd] in *.
  destruct (if c =? ch_dquote then negb inq else inq); [exact H|].
  destruct (is_alpha c).
  - destruct icr; cbn [fst snd]; [discriminate|].
    intros E. apply app_eq_nil in E. destruct E as [_ E]. discriminate.
  - destruct (is_digit c); cbn [fst snd]; [|reflexivity].
    intros E. apply app_eq_nil in E. destruct E as [_ E]. discriminate.
Qed.
Lemma fold_padv_inv : forall u p, pinv p -> pinv (fold_left padv u p).
Proof. induction u as [|c u IH]; intros p H; [exact H|]. cbn [fold_left]. apply IH, padv_inv, H. Qed.

(* a pending candidate outside a string means the text ends with a letter or digit *)
Lemma pending_ends_alnum : forall u p0,
  fst (fst p0) = [] ->
  snd (fold_left padv u p0) = false -> fst (fst (fold_left padv u p0)) <> [] ->
  ends_alnum u = true.
Proof.
  intros u p0 H0. destruct u as [|c u] using rev_ind; intros Hq Hc.
  - cbn in Hc. congruence.
  - clear IHu. rewrite fold_left_app in *. cbn [fold_left] in *.
    unfold ends_alnum. rewrite rev_app_distr. cbn [rev app].
    destruct (fold_left padv u p0) as [[cell icr] inq]. unfold padv in *. cbn [fst snd] in *.
    destruct (if c =? ch_dquote then negb inq else inq); cbn [fst snd] in *; [discriminate|].
    unfold is_alnum. destruct (is_alpha c); [reflexivity|].
    destruct (is_digit c); [reflexivity|]. cbn [fst snd] in Hc. congruence.
Qed.

(* ------------------------------------------------------------------ splitting the text at a safe boundary *)
Definition sep_or_nil (s : list N) : bool :=
  match s with [] => true | _ => starts_sep s end.

Lemma step_init_sep : forall off d, is_alnum d = false -> (d =? ch_dquote) = false ->
  rcn_step off rs_init d = Ok (mkR [u8 d] [] false false).
Proof.
  intros off d Ha Hq. unfold rcn_step, rs_init. cbn [rs_res rs_cell rs_icr rs_inq].
  rewrite Hq. unfold is_alnum in Ha. apply orb_false_iff in Ha. destruct Ha as [Ha Hd].
  rewrite Ha, Hd. rewrite flush_nil. reflexivity.
Qed.

Theorem rcn_split : forall off u s,
  (forall st', rcn_loop off u rs_init = Ok st' ->
     rs_inq st' = false /\ (rs_cell st' = [] \/ sep_or_nil s = true)) ->
  rcn_bytes (u ++ s) off = do a <- rcn_bytes u off; do b <- rcn_bytes s off; Ok (a ++ b).
Proof.
  intros off u s H. rewrite !rcn_bytes_eq, rcn_loop_app, !obind_assoc.
  destruct (rcn_loop off u rs_init) as [st'| | |] eqn:E; try reflexivity.
  cbn [obind]. destruct (H st' eq_refl) as [Hq Hc].
  pose proof (loop_pst _ _ _ E) as Hp.
  assert (Hinv : pinv (pst st')).
  { rewrite Hp. apply fold_padv_inv. unfold pinv, pst, rs_init. cbn. auto. }
  destruct st' as [res cell icr inq]. cbn [rs_inq rs_cell] in *. subst inq.
  destruct cell as [|c0 cell].
  - (* nothing pending *)
    assert (icr = false) by (apply Hinv; reflexivity). subst icr.
    replace (mkR res [] false false) with (with_pre res rs_init)
      by (unfold with_pre, rs_init; cbn; rewrite app_nil_r; reflexivity).
    rewrite loop_pre, obind_assoc.
    rewrite finish_pre. unfold finish at 2. cbn [rs_cell rs_res with_pre rs_init obind].
    rewrite app_nil_r.
    destruct (rcn_loop off s rs_init) as [s2| | |]; cbn [obind]; try reflexivity.
    rewrite finish_pre. reflexivity.
  - destruct Hc as [Hc|Hc]; [discriminate|].
    destruct s as [|d s].
    + cbn [rcn_loop obind]. change (finish off rs_init) with (@Ok (list N) []).
      destruct (finish off (mkR res (c0 :: cell) icr false)); cbn [obind]; try reflexivity.
      rewrite app_nil_r. reflexivity.
    + cbn [sep_or_nil starts_sep] in Hc. apply andb_true_iff in Hc. destruct Hc as [Ha Hd].
      apply negb_true_iff in Ha. apply negb_true_iff in Hd.
      cbn [rcn_loop]. rewrite step_init_sep by assumption. cbn [obind].
      rewrite finish_eq. cbn [rs_cell rs_res].
      unfold rcn_step at 1. cbn [rs_res rs_cell rs_icr rs_inq]. rewrite Hd.
      unfold is_alnum in Ha. apply orb_false_iff in Ha. destruct Ha as [Ha1 Ha2]. rewrite Ha1, Ha2.
      destruct (flush_cell (c0 :: cell) off) as [f| | |]; cbn [obind]; try reflexivity.
      replace (mkR (res ++ f ++ [u8 d]) [] false false)
        with (with_pre (res ++ f) (mkR [u8 d] [] false false))
        by (unfold with_pre; cbn; rewrite <- app_assoc; reflexivity).
      rewrite loop_pre, obind_assoc.
      destruct (rcn_loop off s (mkR [u8 d] [] false false)) as [s2| | |]; cbn [obind]; try reflexivity.
      rewrite finish_pre. reflexivity.
Qed.

(* ------------------------------------------------------------------ bounds on what get_row_column returns *)
Definition sinv (s : scan_state) : Prop :=
  s_row s <= U32MAX /\ s_pow s <= U32MAX /\
  (if s_readrow s then s_col s = 0
   else exists k, s_pow s = 26 ^ k /\ s_col s * 25 + 26 <= 26 * s_pow s).

Lemma scan_letter_inv : forall base c s s',
  c - base + 1 <= 26 -> sinv s -> scan_letter base c s = Ok s' -> sinv s'.
Proof.
  intros base c s s' Hl [Hr [Hp Hc]] H. unfold scan_letter in H.
  assert (Hmid : exists k, (if s_readrow s then 1 else s_pow s) = 26 ^ k /\
                 s_col s * 25 + 26 <= 26 * (if s_readrow s then 1 else s_pow s)).
  { destruct (s_readrow s); [exists 0; rewrite Hc; cbn; lia | exact Hc]. }
  destruct (s_readrow s) eqn:R.
  - destruct (s_row s =? 0); [discriminate|]. cbn [obind s_pow s_col s_row s_readrow] in H.
    unfold mul32, add32 in H.
    destruct (_ <=? U32MAX) eqn:E1 in H; cbn [obind] in H; [|discriminate].
    destruct (_ <=? U32MAX) eqn:E2 in H; cbn [obind] in H; [|discriminate].
    destruct (_ <=? U32MAX) eqn:E3 in H; cbn [obind] in H; [|discriminate].
    inversion H; subst; clear H. unfold sinv. cbn [s_row s_pow s_col s_readrow].
    split; [exact Hr|]. split; [lia|]. exists 1. split; [reflexivity|]. lia.
  - cbn [obind s_pow s_col s_row s_readrow] in H. unfold mul32, add32 in H.
    destruct (_ <=? U32MAX) eqn:E1 in H; cbn [obind] in H; [|discriminate].
    destruct (_ <=? U32MAX) eqn:E2 in H; cbn [obind] in H; [|discriminate].
    destruct (_ <=? U32MAX) eqn:E3 in H; cbn [obind] in H; [|discriminate].
    inversion H; subst; clear H. unfold sinv. cbn [s_row s_pow s_col s_readrow].
    destruct Hmid as [k [Hk Hb]].
    split; [exact Hr|]. split; [lia|]. exists (N.succ k). split.
    + rewrite N.pow_succ_r', <- Hk. lia.
    + nia.
Qed.

Lemma scan_char_inv : forall c s s', sinv s -> scan_char c s = Ok s' -> sinv s'.
Proof.
  intros c s s' Hi H. unfold scan_char in H.
  destruct (is_digit c) eqn:D.
  - destruct Hi as [Hr [Hp Hc]]. destruct (s_readrow s) eqn:R; [|discriminate].
    unfold mul32, add32 in H.
    destruct (_ <=? U32MAX) eqn:E1 in H; cbn [obind] in H; [|discriminate].
    destruct (_ <=? U32MAX) eqn:E2 in H; cbn [obind] in H; [|discriminate].
    destruct (_ <=? U32MAX) eqn:E3 in H; cbn [obind] in H; [|discriminate].
    inversion H; subst; clear H. unfold sinv. cbn [s_row s_pow s_col s_readrow].
    split; [lia|]. split; [lia|]. exact Hc.
  - destruct (is_upper c) eqn:U.
    + eapply scan_letter_inv; [|exact Hi|exact H]. unfold is_upper, ch_A, ch_Z in *. lia.
    + destruct (is_lower c) eqn:L; [|discriminate].
      eapply scan_letter_inv; [|exact Hi|exact H]. unfold is_lower, ch_a, ch_z in *. lia.
Qed.

Lemma scan_loop_inv : forall rs s s', sinv s -> scan_loop rs s = Ok s' -> sinv s'.
Proof.
  induction rs as [|c rs IH]; intros s s' Hi H.
  - inversion H; subst. exact Hi.
  - cbn [scan_loop] in H. destruct (scan_char c s) as [s1| | |] eqn:E; cbn [obind] in H; try discriminate.
    eapply IH; [|exact H]. eapply scan_char_inv; eauto.
Qed.

Lemma pow26_le_u32 : forall k, 26 ^ k <= U32MAX -> 26 ^ k <= 308915776.
Proof.
  intros k H. destruct (N.le_gt_cases k 6) as [L|G].
  - change 308915776 with (26 ^ 6). apply N.pow_le_mono_r; lia.
  - assert (26 ^ 7 <= 26 ^ k) by (apply N.pow_le_mono_r; lia).
    change (26 ^ 7) with 8031810176 in H0. unfold U32MAX in H. lia.
Qed.

Theorem get_row_column_bounds : forall x r c,
  get_row_column x = Ok (r, c) -> r < U32MAX /\ c < 321272406.
Proof.
  intros x r c H. unfold get_row_column, get_row_and_optional_column in H.
  destruct (scan_loop (rev x) scan_init) as [s| | |] eqn:E; cbn [obind] in H; try discriminate.
  assert (Hi : sinv s).
  { eapply scan_loop_inv; [|exact E]. unfold sinv, scan_init, U32MAX. cbn. lia. }
  destruct Hi as [Hr [Hp Hc]].
  destruct (s_row s =? 0) eqn:R0; [discriminate|]. cbn [obind snd fst] in H.
  destruct (s_col s =? 0) eqn:C0; [discriminate|]. inversion H; subst; clear H.
  apply N.eqb_neq in R0. apply N.eqb_neq in C0. split; [lia|].
  destruct (s_readrow s); [congruence|]. destruct Hc as [k [Hk Hb]].
  rewrite Hk in Hp. apply pow26_le_u32 in Hp. rewrite <- Hk in Hp. lia.
Qed.

(* ------------------------------------------------------------------ candidates that come out unchanged *)
Lemma off_ok_bounds : forall off, off_ok off = true ->
  (-1048576 < fst off < 1048576 /\ -16384 < snd off < 16384)%Z.
Proof. intros [dr dc]. unfold off_ok, MAX_ROWS, MAX_COLUMNS. cbn [fst snd]. lia. Qed.

Lemma add_i64_small : forall (a : N) (d : Z), a <= U32MAX -> (-1048576 < d < 1048576)%Z ->
  add_i64 (Z.of_N a) d = Ok (Z.of_N a + d)%Z.
Proof.
  intros a d Ha Hd. unfold add_i64, I64MIN, I64MAX, U32MAX in *.
  destruct ((_ <=? _) && (_ <=? _))%Z eqn:E; [reflexivity|]. lia.
Qed.

Lemma as_u32_small : forall z, (0 <= z < 4294967296)%Z -> as_u32 z = Z.to_N z.
Proof. intros z H. unfold as_u32. rewrite Z.mod_small by lia. reflexivity. Qed.

Lemma flush_inert : forall cell off,
  cell_class cell = None -> off_ok off = true -> Forall (fun c => c < 128) cell ->
  flush_cell cell off = Ok cell.
Proof.
  intros cell off Hc Ho Ha. unfold flush_cell, offset_cell_name. rewrite (map_u8_ascii Ha).
  unfold cell_class in Hc. destruct (get_row_column cell) as [[r c]|e| |] eqn:G; try discriminate.
  - cbn [snd] in Hc. destruct (c <? LOOKALIKE_LIMIT) eqn:L; [discriminate|].
    apply N.ltb_ge in L. unfold LOOKALIKE_LIMIT in L.
    destruct (get_row_column_bounds _ G) as [Hr Hcb].
    destruct (off_ok_bounds _ Ho) as [Hdr Hdc].
    cbn [obind fst snd].
    rewrite add_i64_small by (unfold U32MAX in *; lia). cbn [obind].
    rewrite add_i64_small by (unfold U32MAX in *; lia). cbn [obind].
    unfold coordinate_to_name. cbn [snd fst].
    rewrite column_number_to_name_overflow; [reflexivity|].
    rewrite as_u32_small by lia. lia.
  - reflexivity.
Qed.

(* ------------------------------------------------------------------ texts that come out unchanged *)
Lemma cell_class_nil : cell_class [] = None.
Proof. reflexivity. Qed.

Theorem inert_loop : forall off, off_ok off = true -> forall u st,
  text_class_from u (pst st) = None ->
  (rs_inq st = true -> rs_cell st = []) ->
  Forall (fun c => c < 128) (rs_cell st) ->
  (do st' <- rcn_loop off u st; finish off st') = Ok (rs_res st ++ rs_cell st ++ u).
Proof.
  intros off Ho. induction u as [|c u IH]; intros st Hk Hq Ha.
  - cbn [rcn_loop obind]. rewrite finish_eq. unfold pst in Hk. cbn [text_class_from] in Hk.
    destruct (rs_inq st); [discriminate|].
    rewrite flush_inert by assumption. cbn [obind]. rewrite app_nil_r. reflexivity.
  - cbn [text_class_from] in Hk. destruct (char_class (pst st) c) eqn:CC; [discriminate|].
    unfold char_class in CC. destruct (128 <=? c) eqn:A; [discriminate|]. apply N.leb_gt in A.
    unfold pst in CC, Hk. cbn [rcn_loop].
    unfold rcn_step. unfold padv in Hk.
    destruct (if c =? ch_dquote then negb (rs_inq st) else rs_inq st) eqn:Q.
    + (* inside a string literal (or opening it) *)
      cbn [obind].
      assert (Hcell : rs_cell st = []).
      { destruct (c =? ch_dquote) eqn:DQ.
        - cbn [andb] in CC. destruct (rs_cell st); [reflexivity|discriminate].
        - apply Hq. exact Q. }
      rewrite IH; unfold pst; cbn [rs_res rs_cell rs_icr rs_inq].
      * rewrite Hcell, u8_ascii by exact A. cbn [app]. rewrite <- app_assoc. reflexivity.
      * exact Hk.
      * intros _. exact Hcell.
      * exact Ha.
    + destruct (is_alpha c) eqn:AL.
      * destruct (rs_icr st) eqn:ICR; cbn [obind].
        -- rewrite IH; unfold pst; cbn [rs_res rs_cell rs_icr rs_inq].
           ++ rewrite (map_u8_ascii Ha). rewrite <- !app_assoc. reflexivity.
           ++ exact Hk.
           ++ discriminate.
           ++ constructor; [exact A|constructor].
        -- rewrite IH; unfold pst; cbn [rs_res rs_cell rs_icr rs_inq].
           ++ rewrite <- !app_assoc. reflexivity.
           ++ exact Hk.
           ++ discriminate.
           ++ apply Forall_app. split; [exact Ha|]. constructor; [exact A|constructor].
      * destruct (is_digit c) eqn:DG; cbn [obind].
        -- rewrite IH; unfold pst; cbn [rs_res rs_cell rs_icr rs_inq].
           ++ rewrite <- !app_assoc. reflexivity.
           ++ exact Hk.
           ++ discriminate.
           ++ apply Forall_app. split; [exact Ha|]. constructor; [exact A|constructor].
        -- assert (AN : is_alnum c = false) by (unfold is_alnum; rewrite AL, DG; reflexivity).
           rewrite AN in CC.
           rewrite flush_inert by assumption. cbn [obind].
           rewrite IH; unfold pst; cbn [rs_res rs_cell rs_icr rs_inq].
           ++ rewrite u8_ascii by exact A. cbn [app]. rewrite <- !app_assoc. reflexivity.
           ++ exact Hk.
           ++ discriminate.
           ++ constructor.
Qed.

Corollary inert_text : forall off u, off_ok off = true -> text_class u = None ->
  rcn_bytes u off = Ok u.
Proof.
  intros off u Ho Hk. rewrite rcn_bytes_eq.
  rewrite (@inert_loop off Ho u rs_init); [reflexivity|exact Hk|discriminate|constructor].
Qed.

(* a text of class None is ASCII and leaves the scanner outside a string *)
Lemma text_class_ascii : forall u p, text_class_from u p = None -> Forall (fun c => c < 128) u.
Proof.
  induction u as [|c u IH]; intros p H; [constructor|].
  cbn [text_class_from] in H. destruct (char_class p c) eqn:CC; [discriminate|].
  constructor; [|eapply IH; exact H].
  unfold char_class in CC. destruct (128 <=? c) eqn:A; [discriminate|]. apply N.leb_gt in A. exact A.
Qed.

Lemma text_class_unquoted : forall u p, text_class_from u p = None ->
  snd (fold_left padv u p) = false.
Proof.
  induction u as [|c u IH]; intros p H.
  - cbn [text_class_from fold_left] in *. destruct p as [[cell icr] inq]. cbn [snd].
    destruct inq; [discriminate|reflexivity].
  - cbn [text_class_from fold_left] in *. destruct (char_class p c); [discriminate|].
    apply IH. exact H.
Qed.

(* ------------------------------------------------------------------ a relative reference is moved *)
Lemma loop_letters : forall off ls res cell, Forall (fun x => is_upper x = true) ls ->
  rcn_loop off ls (mkR res cell false false) = Ok (mkR res (cell ++ ls) false false).
Proof.
  induction ls as [|c ls IH]; intros res cell H.
  - cbn [rcn_loop]. rewrite app_nil_r. reflexivity.
  - inversion H as [|? ? Hc Hl]; subst. cbn [rcn_loop]. unfold rcn_step.
    cbn [rs_res rs_cell rs_icr rs_inq].
    rewrite (alnum_not_dquote _ (alpha_alnum _ (upper_alpha _ Hc))), (upper_alpha _ Hc).
    cbn [obind]. rewrite IH by exact Hl. rewrite <- app_assoc. reflexivity.
Qed.

Lemma loop_digits : forall off ds res cell icr, Forall (fun x => is_digit x = true) ds ->
  rcn_loop off ds (mkR res cell icr false) =
  Ok (mkR res (cell ++ ds) (match ds with [] => icr | _ => true end) false).
Proof.
  induction ds as [|c ds IH]; intros res cell icr H.
  - cbn [rcn_loop]. rewrite app_nil_r. reflexivity.
  - inversion H as [|? ? Hc Hl]; subst. cbn [rcn_loop]. unfold rcn_step.
    cbn [rs_res rs_cell rs_icr rs_inq].
    rewrite (alnum_not_dquote _ (digit_alnum _ Hc)), (digit_not_alpha _ Hc), Hc.
    cbn [obind]. rewrite IH by exact Hl. rewrite <- app_assoc.
    destruct ds; reflexivity.
Qed.

Lemma upper_ascii : forall l, Forall (fun x => is_upper x = true) l -> Forall (fun c => c < 128) l.
Proof.
  intros l H. eapply Forall_impl; [|exact H]. intros c Hc.
  apply alnum_ascii, alpha_alnum, upper_alpha, Hc.
Qed.
Lemma digits_ascii : forall l, Forall (fun x => is_digit x = true) l -> Forall (fun c => c < 128) l.
Proof.
  intros l H. eapply Forall_impl; [|exact H]. intros c Hc. apply alnum_ascii, digit_alnum, Hc.
Qed.
Lemma a1_name_ascii : forall r c, Forall (fun x => x < 128) (a1_name r c).
Proof.
  intros r c. unfold a1_name. apply Forall_app. split.
  - apply upper_ascii, letters_upper.
  - apply digits_ascii, dec_digits.
Qed.

Definition zmove (x : N) (d : Z) : N := Z.to_N (Z.of_N x + d).

Lemma flush_a1 : forall r c off,
  c < MAX_COLUMNS -> r < MAX_ROWS ->
  (0 <= Z.of_N r + fst off < Z.of_N MAX_ROWS)%Z ->
  (0 <= Z.of_N c + snd off < Z.of_N MAX_COLUMNS)%Z ->
  flush_cell (a1_name r c) off = Ok (a1_name (zmove r (fst off)) (zmove c (snd off))).
Proof.
  intros r c [dr dc] Hc Hr Hr' Hc'. unfold MAX_COLUMNS, MAX_ROWS in *. cbn [fst snd] in *.
  unfold flush_cell, offset_cell_name. rewrite (map_u8_ascii (a1_name_ascii r c)).
  rewrite get_row_column_a1_name by (unfold ROW_TEXT_LIMIT, COL_TEXT_LIMIT; lia).
  cbn [obind fst snd].
  rewrite add_i64_small by (unfold U32MAX; lia). cbn [obind].
  unfold add_i64, I64MIN, I64MAX.
  destruct ((_ <=? _) && (_ <=? _))%Z eqn:E; [|lia]. cbn [obind].
  rewrite !as_u32_small by lia.
  unfold zmove. rewrite coordinate_to_name_spec by lia. reflexivity.
Qed.

Lemma a1_name_nonempty_digits : forall r, exists d ds, dec (r + 1) = d :: ds.
Proof.
  intros r. pose proof (dec_nonempty (r + 1)) as H. destruct (dec (r + 1)) as [|d ds]; [congruence|].
  eauto.
Qed.

Lemma loop_a1 : forall off r c res,
  rcn_loop off (a1_name r c) (mkR res [] false false) = Ok (mkR res (a1_name r c) true false).
Proof.
  intros off r c res. unfold a1_name. rewrite rcn_loop_app.
  rewrite loop_letters by apply letters_upper. cbn [obind app].
  rewrite loop_digits by apply dec_digits.
  destruct (a1_name_nonempty_digits r) as [d [ds E]]. rewrite E. reflexivity.
Qed.

Lemma a1_name_nonempty : forall r c, a1_name r c <> [].
Proof.
  intros r c H. unfold a1_name in H. apply app_eq_nil in H. destruct H as [H _].
  exact (letters_nonempty _ H).
Qed.

Theorem rel_ref_moves : forall r c off res,
  c < MAX_COLUMNS -> r < MAX_ROWS ->
  (0 <= Z.of_N r + fst off < Z.of_N MAX_ROWS)%Z ->
  (0 <= Z.of_N c + snd off < Z.of_N MAX_COLUMNS)%Z ->
  (do st <- rcn_loop off (a1_name r c) (mkR res [] false false); finish off st) =
  Ok (res ++ a1_name (zmove r (fst off)) (zmove c (snd off))).
Proof.
  intros r c off res Hc Hr Hr' Hc'. rewrite loop_a1. cbn [obind].
  rewrite finish_eq. cbn [rs_cell rs_res]. rewrite flush_a1 by assumption. reflexivity.
Qed.

(* ------------------------------------------------------------------ tokens *)
Lemma render_rel_ref : forall c r, render (TRef false c false r) = a1_name r c.
Proof. reflexivity. Qed.

Lemma comp_in_range_rel : forall x d lim, comp_in_range false x d lim = true ->
  x < lim /\ (0 <= Z.of_N x + d < Z.of_N lim)%Z.
Proof. intros x d lim. unfold comp_in_range. cbn [orb]. lia. Qed.
Lemma comp_in_range_lt : forall a x d lim, comp_in_range a x d lim = true -> x < lim.
Proof. intros a x d lim. unfold comp_in_range. lia. Qed.

Theorem token_correct : forall off t,
  off_ok off = true -> tok_in_range off t = true -> known_token t = None ->
  rcn_bytes (render t) off = Ok (render (translate off t)).
Proof.
  intros off t Ho Hr Hk.
  assert (Inert : forall t', translate off t' = t' -> text_class (render t') = None ->
                  rcn_bytes (render t') off = Ok (render (translate off t'))).
  { intros t' E K. rewrite E. apply inert_text; assumption. }
  destruct t as [ca c ra r|q n|n|n|ip fp ex|s|sc|k]; try (apply Inert; [reflexivity|exact Hk]).
  destruct ca, ra; cbn [known_token xorb] in Hk; try discriminate.
  - apply Inert; [reflexivity|exact Hk].
  - cbn [tok_in_range] in Hr. apply andb_true_iff in Hr. destruct Hr as [H1 H2].
    apply comp_in_range_rel in H1. apply comp_in_range_rel in H2.
    rewrite render_rel_ref, rcn_bytes_eq. unfold rs_init.
    rewrite rel_ref_moves by tauto. reflexivity.
Qed.

Lemma token_end_unquoted : forall off t st',
  known_token t = None ->
  rcn_loop off (render t) rs_init = Ok st' -> rs_inq st' = false.
Proof.
  intros off t st' Hk H.
  assert (Inert : text_class (render t) = None -> rs_inq st' = false).
  { intros K. pose proof (loop_pst _ _ _ H) as P.
    pose proof (text_class_unquoted _ _ K) as Q. unfold pst, rs_init in P. cbn [rs_cell rs_icr rs_inq] in P.
    unfold p_init in Q. rewrite <- P in Q. exact Q. }
  destruct t as [ca c ra r|q n|n|n|ip fp ex|s|sc|k]; try (apply Inert; exact Hk).
  destruct ca, ra; cbn [known_token xorb] in Hk; try discriminate.
  - apply Inert; exact Hk.
  - rewrite render_rel_ref in H. unfold rs_init in H. rewrite loop_a1 in H. inversion H; subst. reflexivity.
Qed.

Lemma starts_sep_app : forall u v, starts_sep u = true -> sep_or_nil (u ++ v) = true.
Proof. intros [|c u] v H; [discriminate|]. exact H. Qed.

Lemma rcn_bytes_nil : forall off, rcn_bytes [] off = Ok [].
Proof. reflexivity. Qed.

(* a token is fine at an offset when the scanner rewrites its text into the text of the
   translated token and ends outside a string literal *)
Definition tok_fine (off : Z * Z) (t : token) : Prop :=
  rcn_bytes (render t) off = Ok (render (translate off t)) /\
  (forall st', rcn_loop off (render t) rs_init = Ok st' -> rs_inq st' = false).

Theorem assemble : forall off ts,
  Forall (tok_fine off) ts -> adjacent_ok ts = true ->
  rcn_bytes (render_all ts) off = Ok (render_all (map (translate off) ts)).
Proof.
  intros off ts. induction ts as [|t ts IH]; intros Hf Ha.
  - reflexivity.
  - inversion Hf as [|? ? [Ht Hq] Hf2]; subst.
    assert (Ha2 : adjacent_ok ts = true).
    { destruct ts as [|b rest]; [reflexivity|]. cbn [adjacent_ok] in Ha.
      apply andb_true_iff in Ha. tauto. }
    unfold render_all in *. cbn [map concat].
    rewrite rcn_split.
    + rewrite Ht. cbn [obind]. rewrite (IH Hf2 Ha2). reflexivity.
    + intros st' Hst. split; [apply Hq; exact Hst|].
      destruct (rs_cell st') eqn:Ec; [left; reflexivity|right].
      assert (He : ends_alnum (render t) = true).
      { pose proof (loop_pst _ _ _ Hst) as P. unfold pst, rs_init in P. cbn [rs_cell rs_icr rs_inq] in P.
        apply (@pending_ends_alnum (render t) ([], false, false)); [reflexivity| |].
        - rewrite <- P. cbn [snd]. apply Hq; exact Hst.
        - rewrite <- P. cbn [fst]. congruence. }
      destruct ts as [|b rest]; [reflexivity|].
      cbn [adjacent_ok] in Ha. rewrite He in Ha. apply andb_true_iff in Ha. destruct Ha as [Hs _].
      cbn [map concat]. apply starts_sep_app. exact Hs.
Qed.

Lemma known_free_fine : forall off ts,
  off_ok off = true -> forallb (tok_in_range off) ts = true -> known_C15 ts = None ->
  Forall (tok_fine off) ts.
Proof.
  intros off ts Ho. induction ts as [|t ts IH]; intros Hr Hk; [constructor|].
  cbn [forallb] in Hr. apply andb_true_iff in Hr. destruct Hr as [Hr1 Hr2].
  cbn [known_C15] in Hk. destruct (known_token t) eqn:Kt; [discriminate|].
  constructor; [|apply IH; assumption]. split.
  - apply token_correct; assumption.
  - intros st' Hst. eapply token_end_unquoted; eauto.
Qed.

Theorem translate_bytes : forall off ts,
  off_ok off = true -> forallb (tok_in_range off) ts = true ->
  adjacent_ok ts = true -> known_C15 ts = None ->
  rcn_bytes (render_all ts) off = Ok (render_all (map (translate off) ts)).
Proof.
  intros off ts Ho Hr Ha Hk. apply assemble; [|exact Ha]. apply known_free_fine; assumption.
Qed.

(* ------------------------------------------------------------------ the result is ASCII, hence valid UTF-8 *)
Lemma utf8_valid_ascii : forall l, Forall (fun c => c < 128) l -> utf8_valid l = true.
Proof.
  intros l H. unfold utf8_valid.
  assert (G : forall f, (length l <= f)%nat -> utf8_valid_fuel f l = true).
  { induction H as [|c l Hc Hl IH]; intros f Hf.
    - destruct f; reflexivity.
    - destruct f; [cbn in Hf; lia|]. cbn [utf8_valid_fuel].
      apply N.ltb_lt in Hc. rewrite Hc. apply IH. cbn in Hf. lia. }
  apply G. lia.
Qed.

Lemma a1_ref_ascii : forall r c rr cr, Forall (fun x => x < 128) (a1_ref r c rr cr).
Proof.
  intros r c rr cr. unfold a1_ref. repeat (apply Forall_app; split).
  - destruct cr; [constructor|]. constructor; [unfold ch_dollar; lia|constructor].
  - apply upper_ascii, letters_upper.
  - destruct rr; [constructor|]. constructor; [unfold ch_dollar; lia|constructor].
  - apply digits_ascii, dec_digits.
Qed.

Lemma translated_ascii : forall off ts, known_C15 ts = None ->
  Forall (fun c => c < 128) (render_all (map (translate off) ts)).
Proof.
  intros off. induction ts as [|t ts IH]; intros Hk; [constructor|].
  cbn [known_C15] in Hk. destruct (known_token t) eqn:Kt; [discriminate|].
  unfold render_all in *. cbn [map concat]. apply Forall_app. split; [|apply IH; exact Hk].
  destruct t as [ca c ra r|q n|n|n|ip fp ex|s|sc|k];
    try (cbn [translate]; eapply text_class_ascii; exact Kt).
  cbn [translate render]. apply a1_ref_ascii.
Qed.

(* ------------------------------------------------------------------ MAIN THEOREM 1 *)
Theorem translate_correct : forall ts off,
  wf_formula ts = true -> in_range ts off -> known_C15 ts = None ->
  replace_cell_names (render_all ts) off = Ok (render_all (map (translate off) ts)).
Proof.
  intros ts off Hwf Hr Hk. unfold wf_formula in Hwf. apply andb_true_iff in Hwf.
  destruct Hwf as [_ Ha]. unfold in_range, in_rangeb in Hr. apply andb_true_iff in Hr.
  destruct Hr as [Ho Hr]. unfold replace_cell_names.
  rewrite (@translate_bytes off ts Ho Hr Ha Hk). cbn [obind].
  rewrite utf8_valid_ascii by (apply translated_ascii; exact Hk). reflexivity.
Qed.

(* ------------------------------------------------------------------ vertical groups: mixed references are fine *)
Lemma render_colabs_ref : forall c r, render (TRef true c false r) = ch_dollar :: a1_name r c.
Proof. reflexivity. Qed.

Lemma zmove_0 : forall x, zmove x 0 = x.
Proof. intros x. unfold zmove. rewrite Z.add_0_r. apply N2Z.id. Qed.

Lemma colabs_ref_fine : forall dr c r,
  tok_in_range (dr, 0%Z) (TRef true c false r) = true -> tok_fine (dr, 0%Z) (TRef true c false r).
Proof.
  intros dr c r Hr. cbn [tok_in_range fst snd] in Hr. apply andb_true_iff in Hr. destruct Hr as [H1 H2].
  apply comp_in_range_lt in H1. apply comp_in_range_rel in H2.
  assert (Hstep : rcn_step (dr, 0%Z) rs_init ch_dollar = Ok (mkR [ch_dollar] [] false false))
    by reflexivity.
  split.
  - rewrite render_colabs_ref, rcn_bytes_eq. cbn [rcn_loop]. rewrite Hstep. cbn [obind].
    rewrite rel_ref_moves; cbn [fst snd]; try tauto; [|unfold MAX_COLUMNS in *; lia].
    rewrite zmove_0. cbn [translate render move fst snd]. reflexivity.
  - intros st' H. rewrite render_colabs_ref in H. cbn [rcn_loop] in H. rewrite Hstep in H.
    cbn [obind] in H. rewrite loop_a1 in H. inversion H; subst. reflexivity.
Qed.

Lemma inert_fine : forall off t, off_ok off = true ->
  translate off t = t -> text_class (render t) = None -> tok_fine off t.
Proof.
  intros off t Ho E K. split.
  - rewrite E. apply inert_text; assumption.
  - intros st' H. pose proof (loop_pst _ _ _ H) as P.
    pose proof (text_class_unquoted _ _ K) as Q. unfold pst, rs_init in P.
    cbn [rs_cell rs_icr rs_inq] in P. unfold p_init in Q. rewrite <- P in Q. exact Q.
Qed.

Lemma known_free_fine_v : forall dr ts,
  off_ok (dr, 0%Z) = true -> forallb (tok_in_range (dr, 0%Z)) ts = true -> known_C15_v ts = None ->
  Forall (tok_fine (dr, 0%Z)) ts.
Proof.
  intros dr ts Ho. induction ts as [|t ts IH]; intros Hr Hk; [constructor|].
  cbn [forallb] in Hr. apply andb_true_iff in Hr. destruct Hr as [Hr1 Hr2].
  cbn [known_C15_v] in Hk. destruct (known_token_v t) eqn:Kt; [discriminate|].
  constructor; [|apply IH; assumption].
  assert (Gen : known_token t = None -> tok_fine (dr, 0%Z) t).
  { intros K. split; [apply token_correct; assumption|].
    intros st' Hst. eapply token_end_unquoted; eauto. }
  destruct t as [ca c ra r|q n|n|n|ip fp ex|s|sc|k]; try (apply Gen; exact Kt).
  destruct ca, ra; cbn [known_token_v] in Kt; try (apply Gen; exact Kt).
  - apply colabs_ref_fine. exact Hr1.
  - apply inert_fine; [exact Ho| |exact Kt].
    cbn [translate move fst snd]. change (Z.to_N (Z.of_N c + 0)) with (zmove c 0).
    rewrite zmove_0. reflexivity.
Qed.

Lemma translated_ascii_v : forall off ts, known_C15_v ts = None ->
  Forall (fun c => c < 128) (render_all (map (translate off) ts)).
Proof.
  intros off. induction ts as [|t ts IH]; intros Hk; [constructor|].
  cbn [known_C15_v] in Hk. destruct (known_token_v t) eqn:Kt; [discriminate|].
  unfold render_all in *. cbn [map concat]. apply Forall_app. split; [|apply IH; exact Hk].
  destruct t as [ca c ra r|q n|n|n|ip fp ex|s|sc|k];
    try (cbn [translate]; eapply text_class_ascii; exact Kt).
  cbn [translate render]. apply a1_ref_ascii.
Qed.

(* MAIN THEOREM 1b: in a vertical group (column offset 0) mixed references are also right *)
Theorem translate_correct_vertical : forall ts dr,
  wf_formula ts = true -> in_range ts (dr, 0%Z) -> known_C15_v ts = None ->
  replace_cell_names (render_all ts) (dr, 0%Z) = Ok (render_all (map (translate (dr, 0%Z)) ts)).
Proof.
  intros ts dr Hwf Hr Hk. unfold wf_formula in Hwf. apply andb_true_iff in Hwf.
  destruct Hwf as [_ Ha]. unfold in_range, in_rangeb in Hr. apply andb_true_iff in Hr.
  destruct Hr as [Ho Hr]. unfold replace_cell_names.
  rewrite assemble; [|apply known_free_fine_v; assumption|exact Ha]. cbn [obind].
  rewrite utf8_valid_ascii by (apply translated_ascii_v; exact Hk). reflexivity.
Qed.

(* ------------------------------------------------------------------ non-vacuity and known classes (witnesses) *)
(* characters used by the witnesses *)
Definition w_str (l : list N) := l.
Definition t_A1 := TRef false 0 false 0.
Definition t_lp := TSym 40.   Definition t_rp := TSym 41.
Definition t_plus := TSym 43. Definition t_comma := TSym 44. Definition t_colon := TSym 58.
Definition t_amp := TSym 38.  Definition t_star := TSym 42.
Definition n_SUM := [83;85;77].
Definition n_LOG10 := [76;79;71;49;48].
Definition n_Sheet1 := [83;104;101;101;116;49].
Definition n_Revenue2024 := [82;101;118;101;110;117;101;50;48;50;52].
Definition n_Q1 := [81;49].
Definition n_rate := [114;97;116;101].

(* =SUM($B$2:C7,Sheet1!D4)+LOG(A1)*1.5E-3&"A1 ""x"""+rate : every kind of token, no known class *)
Definition ex_tokens : list token :=
  [ TFunc n_SUM; TRef true 1 true 1; t_colon; TRef false 2 false 6; t_comma;
    TSheet false n_Sheet1; TRef false 3 false 3; t_rp; t_plus;
    TFunc [76;79;71]; t_A1; t_rp; t_star; TNum [49] (Some [53]) (Some (true, [51]));
    t_amp; TStr [65;49;32;34;120;34]; t_plus; TName n_rate; t_plus; TErr 3 ].

Example translate_correct_nonvacuous :
  wf_formula ex_tokens = true /\ in_range ex_tokens (5, 2)%Z /\ known_C15 ex_tokens = None /\
  render_all (map (translate (5, 2)%Z) ex_tokens) <> render_all ex_tokens.
Proof. repeat split; try (vm_compute; reflexivity). vm_compute. discriminate. Qed.

Example translate_correct_vertical_nonvacuous :
  let ts := [TRef true 2 false 0; t_plus; TRef false 1 true 3; t_plus; TRef true 0 true 0] in
  wf_formula ts = true /\ in_range ts (7, 0)%Z /\ known_C15_v ts = None /\
  known_C15 ts = Some CL_MIXED /\
  render_all (map (translate (7, 0)%Z) ts) <> render_all ts.
Proof. repeat split; try (vm_compute; reflexivity). vm_compute. discriminate. Qed.

(* class 1: $A1 in a horizontal group moves its column; A$1 does not move at all *)
Theorem refuted_mixed :
  exists ts off, wf_formula ts = true /\ in_range ts off /\ known_C15 ts = Some CL_MIXED /\
    replace_cell_names (render_all ts) off <> Ok (render_all (map (translate off) ts)).
Proof.
  exists [TRef true 0 false 0], (0, 1)%Z. repeat split; try (vm_compute; reflexivity).
  vm_compute. discriminate.
Qed.
Theorem refuted_mixed_row_abs :
  exists ts off, wf_formula ts = true /\ in_range ts off /\ known_C15 ts = Some CL_MIXED /\
    replace_cell_names (render_all ts) off <> Ok (render_all (map (translate off) ts)).
Proof.
  exists [TRef false 0 true 0], (0, 1)%Z. repeat split; try (vm_compute; reflexivity).
  vm_compute. discriminate.
Qed.
(* what the model returns on them *)
Example mixed_outputs :
  replace_cell_names [36;65;49] (0, 1)%Z = Ok [36;66;49] /\          (* $A1 -> $B1 *)
  replace_cell_names [65;36;49] (0, 1)%Z = Ok [65;36;49].            (* A$1 -> A$1 (should be B$1) *)
Proof. split; vm_compute; reflexivity. Qed.

(* class 2: LOG10(A1) one row down becomes LOG11(A2); 'Q1'!A1 becomes 'Q2'!A2 *)
Theorem refuted_lookalike :
  exists ts off, wf_formula ts = true /\ in_range ts off /\ known_C15 ts = Some CL_LOOKALIKE /\
    replace_cell_names (render_all ts) off <> Ok (render_all (map (translate off) ts)).
Proof.
  exists [TFunc n_LOG10; t_A1; t_rp], (1, 0)%Z. repeat split; try (vm_compute; reflexivity).
  vm_compute. discriminate.
Qed.
Theorem refuted_lookalike_sheet :
  exists ts off, wf_formula ts = true /\ in_range ts off /\ known_C15 ts = Some CL_LOOKALIKE /\
    replace_cell_names (render_all ts) off <> Ok (render_all (map (translate off) ts)).
Proof.
  exists [TSheet true n_Q1; t_A1], (1, 0)%Z. repeat split; try (vm_compute; reflexivity).
  vm_compute. discriminate.
Qed.
Example lookalike_outputs :
  replace_cell_names (render_all [TFunc n_LOG10; t_A1; t_rp]) (1, 0)%Z
    = Ok [76;79;71;49;49;40;65;50;41] /\                               (* LOG11(A2) *)
  replace_cell_names (render_all [TSheet true n_Q1; t_A1]) (1, 0)%Z
    = Ok [39;81;50;39;33;65;50].                                       (* 'Q2'!A2 *)
Proof. split; vm_compute; reflexivity. Qed.

(* class 3: a non-ASCII character anywhere makes the whole call fail (or yields other text) *)
Theorem refuted_nonascii :
  exists ts off, wf_formula ts = true /\ in_range ts off /\ known_C15 ts = Some CL_NONASCII /\
    replace_cell_names (render_all ts) off = Err E_UTF8.
Proof.
  exists [TStr [233]; t_amp; t_A1], (1, 0)%Z. repeat split; vm_compute; reflexivity.
Qed.
Example nonascii_garbage :       (* U+0141 U+0131 come out as the ASCII text A1 *)
  replace_cell_names [321; 305] (0, 0)%Z = Ok [65; 49].
Proof. vm_compute. reflexivity. Qed.

(* class 4: a double quote inside a quoted sheet name flips the string mode *)
Theorem refuted_quote :
  exists ts off, wf_formula ts = true /\ in_range ts off /\ known_C15 ts = Some CL_QUOTE /\
    replace_cell_names (render_all ts) off <> Ok (render_all (map (translate off) ts)).
Proof.
  exists [TSheet true [97;34;98]; t_A1; t_plus; TRef false 1 false 1], (1, 0)%Z.
  repeat split; try (vm_compute; reflexivity). vm_compute. discriminate.
Qed.

(* class 5: seven letters followed by a digit, or ten digits, overflow u32 in get_row_column *)
Theorem refuted_overflow :
  exists ts off, wf_formula ts = true /\ in_range ts off /\ known_C15 ts = Some CL_OVERFLOW /\
    replace_cell_names (render_all ts) off = Panic.
Proof.
  exists [TSheet false n_Revenue2024; t_A1], (1, 0)%Z. repeat split; vm_compute; reflexivity.
Qed.
Theorem refuted_overflow_number :
  exists ts off, wf_formula ts = true /\ in_range ts off /\ known_C15 ts = Some CL_OVERFLOW /\
    replace_cell_names (render_all ts) off = Panic.
Proof.
  exists [t_A1; t_star; TNum [49;48;48;48;48;48;48;48;48;48] None None], (1, 0)%Z.
  repeat split; vm_compute; reflexivity.
Qed.

(* outside [in_range]: what happens at the sheet edges *)
Example edge_behaviour :
  replace_cell_names [65;49] (-1, 0)%Z = Panic /\                         (* A1 one row up *)
  replace_cell_names [65;49] (0, -1)%Z = Ok [65;49] /\                    (* A1 one column left: unchanged *)
  replace_cell_names [88;70;68;49] (0, 1)%Z = Ok [88;70;68;49] /\         (* XFD1 one column right: unchanged *)
  replace_cell_names [65;49;48;52;56;53;55;54] (1, 0)%Z
    = Ok [65;49;48;52;56;53;55;55].                                       (* A1048576 -> A1048577 *)
Proof. repeat split; vm_compute; reflexivity. Qed.

(* sanity of the class definitions: ordinary identifiers are not flagged *)
Example unflagged_identifiers :
  known_C15 [TSheet false n_Sheet1; t_A1] = None /\
  known_C15 [TFunc [65;84;65;78;50]; t_A1; t_rp] = Some CL_LOOKALIKE /\     (* ATAN2( : column 31135 *)
  known_C15 [TFunc [68;65;89;83;51;54;48]; t_A1; t_rp] = None /\            (* DAYS360( *)
  known_C15 [TRef true 16383 true 1048575] = None.                          (* $XFD$1048576 *)
Proof. repeat split; vm_compute; reflexivity. Qed.

(* ================================================================== groups *)
(* ------------------------------------------------------------------ the offset map *)
Lemma pos_eqb_eq : forall a b, pos_eqb a b = true <-> a = b.
Proof.
  intros [a1 a2] [b1 b2]. unfold pos_eqb. cbn [fst snd]. split.
  - intros H. apply andb_true_iff in H. destruct H as [H1 H2].
    apply N.eqb_eq in H1. apply N.eqb_eq in H2. subst. reflexivity.
  - intros H. inversion H; subst. rewrite !N.eqb_refl. reflexivity.
Qed.

Lemma omap_get_map_in : forall (kf : N -> N * N) (vf : N -> Z * Z) l i p,
  In i l -> kf i = p -> (forall j, In j l -> kf j = p -> j = i) ->
  omap_get (map (fun i => (kf i, vf i)) l) p = Some (vf i).
Proof.
  induction l as [|x l IH]; intros i p Hin Hk Hu; [destruct Hin|].
  cbn [map omap_get]. destruct (pos_eqb (kf x) p) eqn:E.
  - apply pos_eqb_eq in E. rewrite (Hu x (or_introl eq_refl) E). reflexivity.
  - destruct Hin as [Hx|Hin].
    + subst x. rewrite Hk in E. assert (pos_eqb p p = true) by (apply pos_eqb_eq; reflexivity). congruence.
    + apply IH; auto. intros j Hj. apply Hu. right. exact Hj.
Qed.

Lemma omap_get_map_notin : forall (kf : N -> N * N) (vf : N -> Z * Z) l p,
  (forall j, In j l -> kf j <> p) ->
  omap_get (map (fun i => (kf i, vf i)) l) p = None.
Proof.
  induction l as [|x l IH]; intros p H; [reflexivity|].
  cbn [map omap_get]. destruct (pos_eqb (kf x) p) eqn:E.
  - apply pos_eqb_eq in E. exfalso. apply (H x (or_introl eq_refl) E).
  - apply IH. intros j Hj. apply H. right. exact Hj.
Qed.

Lemma in_iota : forall n i, In i (iota n) <-> i < n.
Proof.
  intros n i. unfold iota. rewrite in_map_iff. split.
  - intros [k [Hk Hin]]. apply in_seq in Hin. lia.
  - intros H. exists (N.to_nat i). split; [apply N2Nat.id|]. apply in_seq. lia.
Qed.

Lemma group_okb_facts : forall g, group_okb g = true ->
  fst (g_start g) <= fst (g_end g) /\ snd (g_start g) <= snd (g_end g) /\
  fst (g_end g) < MAX_ROWS /\ snd (g_end g) < MAX_COLUMNS /\
  in_box (g_start g) (g_end g) (g_master g) = true.
Proof. intros g H. unfold group_okb in H. repeat (apply andb_true_iff in H; destruct H as [H ?]).
  repeat split; try lia; assumption. Qed.

Lemma in_box_facts : forall s e p, in_box s e p = true ->
  fst s <= fst p <= fst e /\ snd s <= snd p <= snd e.
Proof. intros s e p H. unfold in_box in H. lia. Qed.

Theorem offset_map_inside : forall g p,
  group_okb g = true -> in_box (g_start g) (g_end g) p = true ->
  known_member g p = None -> p <> g_master g ->
  omap_get (build_offset_map (g_start g, g_end g) (g_master g)) p = Some (member_offset g p).
Proof.
  intros g p Hg Hb Hk Hne. destruct (group_okb_facts _ Hg) as [Hr [Hc [_ [_ Hm]]]].
  apply in_box_facts in Hb. apply in_box_facts in Hm.
  unfold known_member in Hk. unfold build_offset_map, member_offset.
  destruct g as [si [mr mc] [sr sc] [er ec] ts]. destruct p as [pr pc]. cbn [g_start g_end g_master fst snd] in *.
  destruct (sr =? er) eqn:ER; cbn [negb andb] in *.
  - apply N.eqb_eq in ER. subst er.
    destruct (sc =? ec) eqn:EC; cbn [negb].
    + apply N.eqb_eq in EC. subst ec. exfalso. apply Hne. f_equal; lia.
    + rewrite (@omap_get_map_in (fun i => (sr, sc + i))
                (fun i => (0%Z, (Z.of_N sc - Z.of_N mc + Z.of_N i)%Z)) _ (pc - sc) (pr, pc)).
      * f_equal. f_equal; lia.
      * apply in_iota. lia.
      * f_equal; lia.
      * intros j _ Hj. inversion Hj. lia.
  - destruct (negb (pc =? sc) || negb (mc =? sc)) eqn:K; [discriminate|].
    apply orb_false_iff in K. destruct K as [K1 K2].
    apply negb_false_iff in K1. apply negb_false_iff in K2.
    apply N.eqb_eq in K1. apply N.eqb_eq in K2. subst pc mc.
    rewrite (@omap_get_map_in (fun i => (sr + i, sc))
              (fun i => ((Z.of_N sr - Z.of_N mr + Z.of_N i)%Z, 0%Z)) _ (pr - sr) (pr, sc)).
    + f_equal. f_equal; lia.
    + apply in_iota. lia.
    + f_equal; lia.
    + intros j _ Hj. inversion Hj. lia.
Qed.

Theorem offset_map_outside : forall g p,
  group_okb g = true -> in_box (g_start g) (g_end g) p = false ->
  omap_get (build_offset_map (g_start g, g_end g) (g_master g)) p = None.
Proof.
  intros g p Hg Hb. destruct (group_okb_facts _ Hg) as [Hr [Hc _]]. unfold build_offset_map.
  destruct g as [si [mr mc] [sr sc] [er ec] ts]. destruct p as [pr pc].
  cbn [g_start g_end g_master fst snd] in *. unfold in_box in Hb. cbn [fst snd] in Hb.
  destruct (negb (sr =? er)).
  - apply omap_get_map_notin. intros j Hj E. apply in_iota in Hj. inversion E. lia.
  - destruct (negb (sc =? ec)); [|reflexivity].
    apply omap_get_map_notin. intros j Hj E. apply in_iota in Hj. inversion E. lia.
Qed.

(* ------------------------------------------------------------------ the formulas vector *)
Definition entry_of (g : group) : group_entry :=
  (render_all (g_tokens g), build_offset_map (g_start g, g_end g) (g_master g)).

Record fs_rel (fs : list (option group_entry)) (seen : list group) (last : option N) : Prop := {
  fr_len : length fs = match last with None => O | Some l => S (N.to_nat l) end;
  fr_seen : forall g, In g seen ->
              (match last with None => False | Some l => g_si g <= l end) /\
              nth_error fs (N.to_nat (g_si g)) = Some (Some (entry_of g));
  fr_free : forall si, find_group seen si = None ->
              nth_error fs (N.to_nat si) = None \/ nth_error fs (N.to_nat si) = Some None;
  fr_ok : forall g, In g seen -> group_okb g = true
}.

Lemma fs_rel_init : fs_rel [] [] None.
Proof.
  constructor; [reflexivity|intros g []| |intros g []].
  intros si _. left. destruct (N.to_nat si); reflexivity.
Qed.

Lemma nth_error_repeat_none : forall A n i, (i < n)%nat ->
  nth_error (repeat (@None A) n) i = Some None.
Proof. intros A n i H. rewrite nth_error_repeat by exact H. reflexivity. Qed.

Lemma fs_rel_push : forall fs seen last g,
  fs_rel fs seen last -> group_okb g = true ->
  (match last with Some l => l <? g_si g | None => true end) = true ->
  fs_rel (push_group fs (g_si g) (entry_of g)) (g :: seen) (Some (g_si g)).
Proof.
  intros fs seen last g [Hlen Hseen Hfree Hgok] Hgk Hlt.
  assert (Hle : (length fs <= N.to_nat (g_si g))%nat).
  { rewrite Hlen. destruct last as [l|]; [apply N.ltb_lt in Hlt; lia|lia]. }
  unfold push_group. constructor.
  - rewrite !app_length, repeat_length. cbn [length]. lia.
  - intros g' [E|Hin].
    + subst g'. split; [lia|].
      rewrite nth_error_app2 by lia. rewrite nth_error_app2 by (rewrite repeat_length; lia).
      rewrite repeat_length. replace (_ - _ - _)%nat with O by lia. reflexivity.
    + destruct (Hseen g' Hin) as [Hb Hn]. destruct last as [l|]; [|destruct Hb].
      apply N.ltb_lt in Hlt. split; [lia|].
      rewrite nth_error_app1 by (rewrite Hlen; lia). exact Hn.
  - intros si Hf. unfold find_group in Hf. cbn [find] in Hf.
    destruct (g_si g =? si) eqn:E; [discriminate|]. apply N.eqb_neq in E.
    destruct (Nat.lt_ge_cases (N.to_nat si) (length fs)) as [L|L].
    + rewrite nth_error_app1 by exact L. apply Hfree. exact Hf.
    + rewrite nth_error_app2 by exact L.
      destruct (Nat.lt_ge_cases (N.to_nat si) (N.to_nat (g_si g))) as [L2|L2].
      * right. rewrite nth_error_app1 by (rewrite repeat_length; lia).
        apply nth_error_repeat_none. lia.
      * left. apply nth_error_None. rewrite app_length, repeat_length. cbn [length]. lia.
  - intros g' [E|Hin]; [subst g'; exact Hgk|apply Hgok; exact Hin].
Qed.

Lemma find_group_some : forall seen si g, find_group seen si = Some g -> In g seen /\ g_si g = si.
Proof.
  intros seen si g H. unfold find_group in H. apply find_some in H. destruct H as [H1 H2].
  apply N.eqb_eq in H2. auto.
Qed.

(* ------------------------------------------------------------------ one member cell *)
Lemma member_rewritten : forall g p,
  member_okb g p = true ->
  replace_cell_names (render_all (g_tokens g)) (member_offset g p) = Ok (member_formula g p).
Proof.
  intros g p H. unfold member_okb in H.
  repeat (apply andb_true_iff in H; destruct H as [H ?]).
  unfold member_formula. unfold known_at in *.
  destruct (member_offset g p) as [dr dc] eqn:EO. cbn [snd] in *.
  destruct (dc =? 0)%Z eqn:EZ.
  - apply Z.eqb_eq in EZ. subst dc.
    destruct (known_C15_v (g_tokens g)) eqn:K; [discriminate|].
    apply translate_correct_vertical; assumption.
  - destruct (known_C15 (g_tokens g)) eqn:K; [discriminate|].
    apply translate_correct; assumption.
Qed.

(* ------------------------------------------------------------------ MAIN THEOREM 2 *)
Theorem run_cells_spec : forall cs seen last fs,
  fs_rel fs seen last -> sheet_okb seen last cs = true ->
  run_cells fs (map encode_cell cs) = Ok (spec_cells seen cs).
Proof.
  induction cs as [|c cs IH]; intros seen last fs Hrel Hok; [reflexivity|].
  cbn [sheet_okb] in Hok. apply andb_true_iff in Hok. destruct Hok as [Hc Hrest].
  cbn [map run_cells spec_cells].
  destruct c as [p|p f|g|p si own]; cbn [encode_cell seen_after fst snd] in *.
  - cbn [cell_step obind fst snd]. rewrite (IH _ _ _ Hrel Hrest). reflexivity.
  - cbn [cell_step obind fst snd]. rewrite (IH _ _ _ Hrel Hrest). reflexivity.
  - apply andb_true_iff in Hc. destruct Hc as [Hg Hlt].
    destruct (group_okb_facts _ Hg) as [Hr [Hcc [Her [Hec _]]]].
    cbn [cell_step]. unfold ref_text.
    rewrite get_dimension_pair by (unfold ROW_TEXT_LIMIT, COL_TEXT_LIMIT, MAX_ROWS, MAX_COLUMNS in *; lia).
    cbn [obind fst snd].
    rewrite <- !surjective_pairing.
    change (render_all (g_tokens g), build_offset_map (g_start g, g_end g) (g_master g)) with (entry_of g).
    rewrite (IH _ _ _ (@fs_rel_push _ _ _ g Hrel Hg Hlt) Hrest). reflexivity.
  - cbn [cell_step spec_value].
    destruct (find_group seen si) as [g|] eqn:F.
    + destruct (find_group_some _ _ F) as [Hin Hsi]. subst si.
      destruct (fr_seen Hrel g Hin) as [_ Hn]. rewrite Hn. unfold entry_of.
      pose proof (fr_ok Hrel g Hin) as Hg.
      destruct (in_box (g_start g) (g_end g) p) eqn:B.
      * assert (Hm := Hc). unfold member_okb in Hm.
        repeat (apply andb_true_iff in Hm; destruct Hm as [Hm ?]).
        destruct (known_member g p) eqn:KM; [discriminate|].
        assert (Hne : p <> g_master g).
        { intros E. apply negb_true_iff in Hm. apply pos_eqb_eq in E. congruence. }
        rewrite (@offset_map_inside g p Hg B KM Hne).
        rewrite (@member_rewritten g p Hc). cbn [obind fst snd].
        rewrite (IH _ _ _ Hrel Hrest). reflexivity.
      * rewrite (@offset_map_outside g p Hg B). cbn [obind fst snd].
        rewrite (IH _ _ _ Hrel Hrest). reflexivity.
    + destruct (fr_free Hrel si F) as [Hn|Hn]; rewrite Hn; cbn [obind fst snd];
        rewrite (IH _ _ _ Hrel Hrest); reflexivity.
Qed.

(* every cell of a sheet gets the formula the property demands: members inside the declared
   ref of their group (1-D, or first column of a 2-D ref) the master translated by their own
   offset, all other cells their own text; then worksheet_formula drops the empty ones *)
Theorem group_covers_range : forall cs,
  sheet_okb [] None cs = true ->
  run_cells [] (map encode_cell cs) = Ok (spec_cells [] cs) /\
  sheet_formulas (map encode_cell cs)
    = Ok (filter (fun pv => negb (fval_is_empty (snd pv))) (spec_cells [] cs)).
Proof.
  intros cs H. pose proof (run_cells_spec cs fs_rel_init H) as R. split; [exact R|].
  unfold sheet_formulas. rewrite R. reflexivity.
Qed.

(* ------------------------------------------------------------------ group-level witnesses *)
Definition g_tokens_ex : list token := [t_A1; t_plus; TNum [49] None None].    (* A1+1 *)
Definition g_col : group := mkGroup 0 (1, 1) (1, 1) (4, 1) [TRef true 0 false 0; t_plus; TNum [49] None None]. (* B2:B5, $A1+1 *)
Definition g_row : group := mkGroup 3 (6, 1) (6, 1) (6, 4) [TRef true 0 true 0; t_star; TRef false 2 false 0]. (* B7:E7, $A$1*C1 *)
Definition g_blk : group := mkGroup 0 (1, 1) (1, 1) (2, 2) g_tokens_ex.         (* B2:C3 *)
Definition ex_sheet : list scell :=
  [ SPlain (0, 0) [66;50;42;50]; SNone (0, 1);
    SMaster g_col; SMember (2, 1) 0 []; SMember (3, 1) 0 []; SPlain (3, 2) [49]; SMember (4, 1) 0 [];
    SMember (5, 5) 0 [75]; SMember (5, 6) 9 [76];
    SMaster g_row; SMember (6, 2) 3 []; SMember (6, 3) 3 []; SMember (6, 4) 3 [] ].

Example group_covers_range_nonvacuous :
  sheet_okb [] None ex_sheet = true /\
  nth_error (spec_cells [] ex_sheet) 6 = Some ((4, 1), VBytes [36;65;52;43;49]) /\  (* B5: $A4+1 *)
  nth_error (spec_cells [] ex_sheet) 7 = Some ((5, 5), VText [75]) /\               (* outside the ref *)
  nth_error (spec_cells [] ex_sheet) 12 = Some ((6, 4), VBytes [36;65;36;49;42;70;49]).  (* E7: $A$1*F1 *)
Proof. repeat split; vm_compute; reflexivity. Qed.

(* class 6: in a 2-D group only the first column is served; C2, C3 come out empty *)
Theorem refuted_block :
  exists g p, group_okb g = true /\ in_box (g_start g) (g_end g) p = true /\
    known_member g p = Some CL_BLOCK /\
    run_cells [] (map encode_cell [SMaster g; SMember p (g_si g) []])
      = Ok [(g_master g, VText (render_all (g_tokens g))); (p, VText [])] /\
    member_formula g p <> [].
Proof.
  exists g_blk, (1, 2). repeat split; try (vm_compute; reflexivity). vm_compute. discriminate.
Qed.

(* class 7: shared indices that do not increase in document order are stored at the wrong
   index: the members of the second group get nothing (or another group's formula) *)
Theorem refuted_si_order :
  exists cs, run_cells [] (map encode_cell cs) <> Ok (spec_cells [] cs) /\
    sheet_okb [] None cs = false.
Proof.
  exists [SMaster (mkGroup 1 (1, 1) (1, 1) (2, 1) g_tokens_ex); SMember (2, 1) 1 [];
          SMaster (mkGroup 0 (1, 3) (1, 3) (2, 3) g_tokens_ex); SMember (2, 3) 0 []].
  split; [vm_compute; discriminate|vm_compute; reflexivity].
Qed.
