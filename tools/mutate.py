"""Single- and multi-fault mutations of workbook files for the malformed-input stream (C06).
All randomness comes from the rng passed in.  Mutations are structural where the container is
understood (zip members, XML attributes and numbers, little-endian fields), blind otherwise."""
import io, re, struct, zipfile

BOUNDARY_U16 = [0, 1, 2, 0x7F, 0x80, 0xFF, 0x100, 0x7FFF, 0x8000, 0xFFFE, 0xFFFF]
BOUNDARY_U32 = [0, 1, 0x7FFFFFFF, 0x80000000, 0xFFFFFFFA, 0xFFFFFFFC, 0xFFFFFFFE, 0xFFFFFFFF, 0x00100000, 0x01000000]

def mutate_bytes(data, rng):
    """one blind structural fault on a byte string; returns (kind, new bytes)"""
    n = len(data)
    if n == 0:
        return "empty", data
    k = rng.random()
    b = bytearray(data)
    if k < 0.2:
        cut = rng.choice([0, 1, 2, 3, 4, 7, 8, 511, 512, 513, n // 2, n - 1, n - 2, rng.randrange(n)])
        cut = max(0, min(cut, n - 1))
        return "truncate", bytes(b[:cut])
    if k < 0.5:
        off = rng.randrange(max(1, n - 1))
        val = rng.choice(BOUNDARY_U16)
        b[off:off + 2] = struct.pack("<H", val)[: max(0, min(2, n - off))]
        return "u16", bytes(b[:n])
    if k < 0.8:
        off = rng.randrange(max(1, n - 3))
        val = rng.choice(BOUNDARY_U32)
        b[off:off + 4] = struct.pack("<I", val)[: max(0, min(4, n - off))]
        return "u32", bytes(b[:n])
    if k < 0.9:
        off = rng.randrange(n)
        b[off] = rng.choice([0, 1, 0x7F, 0x80, 0xFF, b[off] ^ (1 << rng.randrange(8))])
        return "byte", bytes(b)
    # delete or duplicate a slice
    a = rng.randrange(n)
    l = rng.choice([1, 2, 4, 6, 8, 16, 64, 128, 512])
    if rng.random() < 0.5:
        return "delete", bytes(b[:a] + b[a + l:])
    return "dup", bytes(b[:a] + b[a:a + l] + b[a:])

NUM = re.compile(rb'(?<=["=>])-?\d+(?=["<])')
ATTR = re.compile(rb'\s[A-Za-z:_][\w:.-]*="[^"]*"')
TAG = re.compile(rb'<(/?)([A-Za-z_][\w:.-]*)')

def mutate_xml(data, rng):
    """one structural fault on an XML part"""
    k = rng.random()
    if k < 0.2 or len(data) < 20:
        cut = rng.randrange(len(data) + 1)
        return "xml-truncate", data[:cut]
    if k < 0.5:
        ms = list(NUM.finditer(data))
        if ms:
            m = rng.choice(ms)
            val = rng.choice([b"0", b"-1", b"1", b"4294967295", b"4294967296", b"18446744073709551615",
                              b"99999999999999999999", b"1048577", b"16385", b"", b"x", b"2147483648"])
            return "xml-number", data[:m.start()] + val + data[m.end():]
    if k < 0.7:
        ms = list(ATTR.finditer(data))
        if ms:
            m = rng.choice(ms)
            if rng.random() < 0.5:
                return "xml-attr-drop", data[:m.start()] + data[m.end():]
            junk = rng.choice([b' r="ZZZZZZZZZZZZ1"', b' r="A0"', b' r="1A"', b' r="A99999999999"', b' r=""', b' ref="A1:"',
                               b' ref=":"', b' ref="A1:B2:C3"', b' t="zz"', b' s="99999999"', b' si="4294967296"',
                               b' table:number-columns-repeated="4294967295"', b' table:number-rows-repeated="4294967295"'])
            return "xml-attr-junk", data[:m.start()] + junk + data[m.end():]
    if k < 0.85:
        ms = list(TAG.finditer(data))
        if ms:
            m = rng.choice(ms)
            if rng.random() < 0.5:
                # rename the tag
                return "xml-tag-rename", data[:m.start(2)] + b"zz" + data[m.end(2):]
            # drop everything up to the next '>'
            e = data.find(b">", m.start())
            return "xml-tag-drop", data[:m.start()] + data[e + 1:] if e > 0 else data[:m.start()]
    kind, out = mutate_bytes(data, rng)
    return "xml-" + kind, out

def rezip(members, order=None):
    bio = io.BytesIO()
    with zipfile.ZipFile(bio, "w", zipfile.ZIP_DEFLATED) as z:
        for name in (order or list(members)):
            z.writestr(name, members[name])
    return bio.getvalue()

def mutate_zip(data, rng):
    """one fault inside a zip-based workbook: returns (kind, bytes)"""
    try:
        z = zipfile.ZipFile(io.BytesIO(data))
        members = {i.filename: z.read(i.filename) for i in z.infolist()}
    except Exception:
        return mutate_bytes(data, rng)
    names = list(members)
    if not names:
        return mutate_bytes(data, rng)
    k = rng.random()
    if k < 0.08:
        kind, out = mutate_bytes(data, rng)      # the container itself
        return "zip-raw-" + kind, out
    if k < 0.2:
        n = rng.choice(names)
        del members[n]
        return "zip-drop:" + n, rezip(members)
    # prefer the parts calamine reads
    weights = []
    for n in names:
        w = 1
        if re.search(r"(sheet\d*\.(xml|bin)|content\.xml|workbook\.(xml|bin)|sharedStrings|styles|\.rels|manifest|table\d*\.xml|vbaProject)", n):
            w = 6
        weights.append(w)
    n = rng.choices(names, weights)[0]
    body = members[n]
    if n.endswith((".xml", ".rels")) or body[:5] == b"<?xml":
        kind, members[n] = mutate_xml(body, rng)
    else:
        kind, members[n] = mutate_bytes(body, rng)
    return "%s@%s" % (kind, n), rezip(members)

def mutate_file(fmt, data, rng, faults=1):
    kinds = []
    for _ in range(faults):
        if fmt in ("xlsx", "xlsb", "ods"):
            k, data = mutate_zip(data, rng)
        else:
            k, data = mutate_bytes(data, rng)
        kinds.append(k)
    return "+".join(kinds), data
