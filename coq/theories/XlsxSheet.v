(* XlsxSheet — an xlsx worksheet part read back as a Range (property C01).
   Definitions only (executable, extracted); proofs are in XlsxSheet_proofs.v.

   The models start at the EVENT LIST quick-xml hands to calamine (XmlText.event:
   Start name attrs | End name | Text s | CData s | Other, end of list = Eof) with the reader
   configuration of xml_reader (expand_empty_elements = true: an empty element is Start then End;
   trim_text(false); check_end_names = false).  Tokenisation, unescaping, attribute syntax errors
   and zip are outside the model (tie only).  Decimal text -> f64 is the oracle [parse_f64]
   (Section variable), a float is its 64 raw bits.

   M (current /repo tree), one Rust loop = one state machine, one match arm = one transition:
     src/xlsx/cells_reader.rs  XlsxCellReader::new      reader_new
                               next_cell (both loops)   cells_step / cells_run
                               read_value               cc_step (CcOuter dispatch, CcV, CcF, CcIs)
                               read_v                   read_v
     src/xlsx/mod.rs           read_string              rs_step   (as of commits 7dba6c7, db4dbf4)
                               worksheet_range_ref      xlsx_range_ref (header row: HeaderRow.v)
                               worksheet_range          xlsx_range     (From<DataRef> for Data)
                               get_row / get_row_column / get_dimension     Col26.v (imported)
                               read_relationships       read_relationships
                               read_workbook            read_workbook (sheet / workbookPr /
                                                        definedName arms), normalize_target,
                                                        sheet_type_of
                               xml_reader               find_part (eq_ignore_ascii_case)
                               worksheets / worksheet_range by name         workbook_ranges
     src/lib.rs                Range::from_sparse       Range.v (imported)
   S: logical (the cells of a sheet as a position-indexed list), expected (documented value
      mapping), value_at.
   E: encode (esheet -> events): every legal physical choice is a field of esheet / erow / ecell.
   legal_sheet: the encoding denotes the logical sheet by the rules of ECMA-376 (explicit or
      implicit references under the cursor rule, ascending rows / columns, references inside the
      scanner's overflow bounds, ignorable content only where the schema allows other elements).
   known_C01_wb: the one class left on which the current code breaks the property (F30; gone
      once rid_fix_applied is flipped). *)
From Calamine Require Import Prelude Col26 Range Range_spec HeaderRow.
From Calamine Require XmlText NumFmt.
From Coq Require Strings.String Strings.Ascii.
Open Scope N_scope.
Set Implicit Arguments.

Notation str := XmlText.str.
Notation attrs := XmlText.attrs.
Notation event := XmlText.event.
Notation Start := XmlText.Start.
Notation End := XmlText.End.
Notation Text := XmlText.Text.
Notation CData := XmlText.CData.
Notation Other := XmlText.Other.
Notation str_eqb := XmlText.str_eqb.
Notation local_name := XmlText.local_name.
Notation get_attribute := XmlText.get_attribute.
Notation qn := XmlText.qn.
Notation no_colon := XmlText.no_colon.
Notation cell_format := NumFmt.cell_format.

(* ------------------------------------------------------------------ literal names *)
Module XL.
Import Coq.Strings.String Coq.Strings.Ascii.
Fixpoint s2l (s : string) : list N :=
  match s with
  | EmptyString => []
  | String a r => N_of_ascii a :: s2l r
  end.
Definition n_worksheet : list N := Eval vm_compute in s2l "worksheet"%string.
Definition n_dimension : list N := Eval vm_compute in s2l "dimension"%string.
Definition n_sheetData : list N := Eval vm_compute in s2l "sheetData"%string.
Definition n_row  : list N := Eval vm_compute in s2l "row"%string.
Definition n_c    : list N := Eval vm_compute in s2l "c"%string.
Definition n_v    : list N := Eval vm_compute in s2l "v"%string.
Definition n_f    : list N := Eval vm_compute in s2l "f"%string.
Definition n_is   : list N := Eval vm_compute in s2l "is"%string.
Definition n_t    : list N := Eval vm_compute in s2l "t"%string.
Definition n_r    : list N := Eval vm_compute in s2l "r"%string.
Definition n_rPh  : list N := Eval vm_compute in s2l "rPh"%string.
Definition a_ref  : list N := Eval vm_compute in s2l "ref"%string.
Definition a_r    : list N := Eval vm_compute in s2l "r"%string.
Definition a_s    : list N := Eval vm_compute in s2l "s"%string.
Definition a_t    : list N := Eval vm_compute in s2l "t"%string.
Definition v_s    : list N := Eval vm_compute in s2l "s"%string.
Definition v_b    : list N := Eval vm_compute in s2l "b"%string.
Definition v_e    : list N := Eval vm_compute in s2l "e"%string.
Definition v_d    : list N := Eval vm_compute in s2l "d"%string.
Definition v_n    : list N := Eval vm_compute in s2l "n"%string.
Definition v_str  : list N := Eval vm_compute in s2l "str"%string.
Definition v_is   : list N := Eval vm_compute in s2l "is"%string.
Definition v_inlineStr : list N := Eval vm_compute in s2l "inlineStr"%string.
Definition v_0    : list N := Eval vm_compute in s2l "0"%string.
Definition v_1    : list N := Eval vm_compute in s2l "1"%string.
Definition e_div0 : list N := Eval vm_compute in s2l "#DIV/0!"%string.
Definition e_na   : list N := Eval vm_compute in s2l "#N/A"%string.
Definition e_name : list N := Eval vm_compute in s2l "#NAME?"%string.
Definition e_null : list N := Eval vm_compute in s2l "#NULL!"%string.
Definition e_num  : list N := Eval vm_compute in s2l "#NUM!"%string.
Definition e_ref  : list N := Eval vm_compute in s2l "#REF!"%string.
Definition e_value : list N := Eval vm_compute in s2l "#VALUE!"%string.
Definition e_getting : list N := Eval vm_compute in s2l "#GETTING_DATA"%string.
(* workbook.xml / workbook.xml.rels *)
Definition n_Relationship  : list N := Eval vm_compute in s2l "Relationship"%string.
Definition n_Relationships : list N := Eval vm_compute in s2l "Relationships"%string.
Definition a_Id     : list N := Eval vm_compute in s2l "Id"%string.
Definition a_Target : list N := Eval vm_compute in s2l "Target"%string.
Definition a_Type   : list N := Eval vm_compute in s2l "Type"%string.
(* relationship types that name a sheet part: ECMA-376 transitional, ISO strict, Microsoft *)
Definition t_ws : list N :=
  Eval vm_compute in s2l "http://schemas.openxmlformats.org/officeDocument/2006/relationships/worksheet"%string.
Definition t_ws_strict : list N :=
  Eval vm_compute in s2l "http://purl.oclc.org/ooxml/officeDocument/relationships/worksheet"%string.
Definition t_cs : list N :=
  Eval vm_compute in s2l "http://schemas.openxmlformats.org/officeDocument/2006/relationships/chartsheet"%string.
Definition t_cs_strict : list N :=
  Eval vm_compute in s2l "http://purl.oclc.org/ooxml/officeDocument/relationships/chartsheet"%string.
Definition t_ds : list N :=
  Eval vm_compute in s2l "http://schemas.openxmlformats.org/officeDocument/2006/relationships/dialogsheet"%string.
Definition t_ds_strict : list N :=
  Eval vm_compute in s2l "http://purl.oclc.org/ooxml/officeDocument/relationships/dialogsheet"%string.
Definition t_xlm : list N :=
  Eval vm_compute in s2l "http://schemas.microsoft.com/office/2006/relationships/xlMacrosheet"%string.
Definition t_xlim : list N :=
  Eval vm_compute in s2l "http://schemas.microsoft.com/office/2006/relationships/xlIntlMacrosheet"%string.
Definition n_workbook   : list N := Eval vm_compute in s2l "workbook"%string.
Definition n_sheets     : list N := Eval vm_compute in s2l "sheets"%string.
Definition n_sheet      : list N := Eval vm_compute in s2l "sheet"%string.
Definition n_workbookPr : list N := Eval vm_compute in s2l "workbookPr"%string.
Definition n_definedName : list N := Eval vm_compute in s2l "definedName"%string.
Definition a_name   : list N := Eval vm_compute in s2l "name"%string.
Definition a_state  : list N := Eval vm_compute in s2l "state"%string.
Definition a_sheetId : list N := Eval vm_compute in s2l "sheetId"%string.
Definition a_rid    : list N := Eval vm_compute in s2l "r:id"%string.
Definition a_relsid : list N := Eval vm_compute in s2l "relationships:id"%string.
Definition a_id     : list N := Eval vm_compute in s2l "id"%string.
Definition a_date1904 : list N := Eval vm_compute in s2l "date1904"%string.
Definition v_true   : list N := Eval vm_compute in s2l "true"%string.
Definition v_false  : list N := Eval vm_compute in s2l "false"%string.
Definition v_visible : list N := Eval vm_compute in s2l "visible"%string.
Definition v_hidden : list N := Eval vm_compute in s2l "hidden"%string.
Definition v_veryHidden : list N := Eval vm_compute in s2l "veryHidden"%string.
Definition p_slash_xl : list N := Eval vm_compute in s2l "/xl/"%string.
Definition p_xl     : list N := Eval vm_compute in s2l "xl/"%string.
Definition p_worksheets  : list N := Eval vm_compute in s2l "worksheets"%string.
Definition p_chartsheets : list N := Eval vm_compute in s2l "chartsheets"%string.
Definition p_dialogsheets : list N := Eval vm_compute in s2l "dialogsheets"%string.
Definition p_macrosheets : list N := Eval vm_compute in s2l "macrosheets"%string.
Definition p_workbook_xml : list N := Eval vm_compute in s2l "xl/workbook.xml"%string.
Definition p_workbook_rels : list N := Eval vm_compute in s2l "xl/_rels/workbook.xml.rels"%string.
Definition r_prefix : list N := Eval vm_compute in s2l "r"%string.
Definition relationships_prefix : list N := Eval vm_compute in s2l "relationships"%string.
End XL.
Export XL.

(* an element test by local name, as in `e.local_name().as_ref() == b"row"` *)
Definition is_local (l n : str) : bool := str_eqb (local_name n) l.

(* ------------------------------------------------------------------ values *)
(* DataRef<'a> as produced by the xlsx cell reader *)
Inductive dref : Type :=
| REmpty
| RFloat (bits : N)
| RString (s : str)
| RShared (s : str)                               (* DataRef::SharedString(&strings[idx]) *)
| RBool (b : bool)
| RDateTime (bits : N) (dur : bool) (d1904 : bool)  (* ExcelDateTime::new(value, type, is_1904) *)
| RDateTimeIso (s : str)
| RError (code : N).                              (* harness numbering: Div0 0, NA 1, Name 2, Null 3,
                                                     Num 4, Ref 5, Value 6, GettingData 7 *)
(* Data, through `impl From<DataRef> for Data` *)
Inductive xdata : Type :=
| DEmpty
| DFloat (bits : N)
| DString (s : str)
| DBool (b : bool)
| DDateTime (bits : N) (dur : bool) (d1904 : bool)
| DDateTimeIso (s : str)
| DError (code : N).

Definition to_data (v : dref) : xdata :=
  match v with
  | REmpty => DEmpty
  | RFloat b => DFloat b
  | RString s => DString s
  | RShared s => DString s
  | RBool b => DBool b
  | RDateTime b d y => DDateTime b d y
  | RDateTimeIso s => DDateTimeIso s
  | RError c => DError c
  end.

Definition is_rempty (v : dref) : bool := match v with REmpty => true | _ => false end.
Definition is_dempty (v : xdata) : bool := match v with DEmpty => true | _ => false end.

(* what Xlsx::new collected before a sheet is read *)
Record env : Type := mkEnv {
  e_strings : list str;                 (* shared string table (C19) *)
  e_formats : list cell_format;         (* cellXfs -> CellFormat (C10) *)
  e_1904 : bool
}.

(* error classes: only the class travels *)
Definition E_EOF : N := 1.
Definition E_NODE : N := 2.             (* UnexpectedNode *)
Definition E_TATTR : N := 3.            (* CellTAttribute / Unexpected("... inlineStr") *)
Definition E_PARSEFLOAT : N := 7.
Definition E_CELLERROR : N := 8.
Definition E_NOT_WORKSHEET : N := 9.
Definition E_REL_NOT_FOUND : N := 10.
Definition E_UNRECOGNIZED : N := 11.
Definition E_FILE_NOT_FOUND : N := 12.
Definition E_WORKSHEET_NOT_FOUND : N := 13.

Inductive sres (S R : Type) : Type :=
| Cont (s : S)
| Ret (r : R)
| Fail (e : N)
| Boom.
Arguments Cont {S R} s.
Arguments Ret {S R} r.
Arguments Fail {S R} e.
Arguments Boom {S R}.

(* slice::get(i) with a machine index: never builds a huge unary number *)
Definition nth_N {A} (l : list A) (i : N) : option A :=
  if i <? N.of_nat (length l) then nth_error l (N.to_nat i) else None.

(* atoi_simd::parse::<usize>: digits only, non-empty, at most 20 of them, <= u64::MAX *)
Definition parse_usize (v : str) : option N :=
  match v with
  | [] => None
  | _ =>
    if forallb is_digit v && (N.of_nat (length v) <=? 20) && (undec v <=? U64MAX)
    then Some (undec v) else None
  end.

(* unescape_xstring (commit 6af5287): one left-to-right pass decoding _xHHHH_; an escape naming a
   surrogate code unit is kept as written.  The Rust code works on bytes; the seven bytes of an
   escape are ASCII, so seven bytes = seven scalars and the scalar-level model is exact.
   [skip] = number of characters of a recognised escape still to drop. *)
Definition hex_val (c : N) : option N :=
  if (48 <=? c) && (c <=? 57) then Some (c - 48)
  else if (65 <=? c) && (c <=? 70) then Some (c - 55)
  else if (97 <=? c) && (c <=? 102) then Some (c - 87)
  else None.
Definition xescape_at (s : str) : option N :=
  match s with
  | 95 :: 120 :: h1 :: h2 :: h3 :: h4 :: 95 :: _ =>
      match hex_val h1, hex_val h2, hex_val h3, hex_val h4 with
      | Some a, Some b, Some c, Some d =>
          let code := ((a * 16 + b) * 16 + c) * 16 + d in
          if (55296 <=? code) && (code <=? 57343) then None else Some code     (* char::from_u32 *)
      | _, _, _, _ => None
      end
  | _ => None
  end.
Fixpoint xun (skip : nat) (s : str) : str :=
  match s with
  | [] => []
  | c :: rest =>
    match skip with
    | S k => xun k rest
    | O => match xescape_at s with
           | Some code => code :: xun 6 rest
           | None => c :: xun 0 rest
           end
    end
  end.
Definition unescape_xstring (s : str) : str := xun 0 s.

(* CellErrorType::from_str *)
Definition err_text (code : N) : str :=
  match code with
  | 0 => e_div0 | 1 => e_na | 2 => e_name | 3 => e_null | 4 => e_num | 5 => e_ref
  | 6 => e_value | 7 => e_getting | _ => []
  end.
Definition parse_cell_error (v : str) : option N :=
  if str_eqb v e_div0 then Some 0 else if str_eqb v e_na then Some 1
  else if str_eqb v e_name then Some 2 else if str_eqb v e_null then Some 3
  else if str_eqb v e_num then Some 4 else if str_eqb v e_ref then Some 5
  else if str_eqb v e_value then Some 6 else if str_eqb v e_getting then Some 7 else None.

(* format_excel_f64_ref(value, format: Option<&CellFormat>, is_1904) *)
Definition format_excel_f64_ref (bits : N) (format : option cell_format) (is_1904 : bool) : dref :=
  match format with
  | Some NumFmt.DateTime => RDateTime bits false is_1904
  | Some NumFmt.TimeDelta => RDateTime bits true is_1904
  | _ => RFloat bits
  end.

(* ====================================================================================== *)
(*      the A1 scanner (Col26.v) and the hardened Range::from_sparse                        *)
(* ====================================================================================== *)
(* get_row_and_optional_column / get_row / get_row_column / get_dimension as of the C06 hardening
   (u64 saturating arithmetic, u32::try_from -> error, no subtraction in get_dimension) are
   Col26.get_row_and_optional_column / get_row / get_row_column / get_dimension: Col26.v was
   resynced to that code, so the local copy (the _x scanner) that stood here is gone; [sat64] is
   Col26's too.
   Range::from_sparse after the hardening is modelled here as [from_sparse_x] (total: bounds =
   min / max over all cells); XlsxSheet_proofs.from_sparse_x_eq ties it to Range.from_sparse on
   row-sorted, bounded cells, which is how C05_from_sparse_spec serves.  (Range.v has been resynced
   to the hardened code as well; this second copy still stands and could be folded into it.) *)
Definition E_OUT_OF_RANGE : N := 14.                            (* Unexpected("… out of range") *)

(* Range::from_sparse: bounds = min / max over all cells; no arithmetic can fail any more
   (max >= min on a non-empty list; usize is 64 bits: (hi - lo) + 1 <= 2^32 and the products of
   two such numbers stay below 2^64 except 2^32 * 2^32, which saturates) *)
Section FromSparseX.
Variable T : Type.
Variable d : T.
Definition row_lo (cells : list (pos * T)) : N :=
  fold_left (fun m c => if fst (fst c) <? m then fst (fst c) else m) cells U32MAX.
Definition row_hi (cells : list (pos * T)) : N :=
  fold_left (fun m c => if m <? fst (fst c) then fst (fst c) else m) cells 0.
Definition col_lo (cells : list (pos * T)) : N :=
  fold_left (fun m c => if snd (fst c) <? m then snd (fst c) else m) cells U32MAX.
Definition col_hi (cells : list (pos * T)) : N :=
  fold_left (fun m c => if m <? snd (fst c) then snd (fst c) else m) cells 0.

Definition fsx_core (rs re cl ch : N) (cells : list (pos * T)) : range T :=
  let cols := ch - cl + 1 in
  let rows := re - rs + 1 in
  let len := sat64 (cols * rows) in
  let v := fold_left (fun v c =>
             let idx := sat64 ((fst (fst c) - rs) * cols) + (snd (fst c) - cl) in
             if idx <? len then list_set v (N.to_nat idx) (snd c) else v)
           cells (repeat d (N.to_nat len)) in
  mkRange (rs, cl) (re, ch) v.

Definition from_sparse_x (cells : list (pos * T)) : range T :=
  match cells with
  | [] => empty
  | _ => fsx_core (row_lo cells) (row_hi cells) (col_lo cells) (col_hi cells) cells
  end.
End FromSparseX.

Section Model.
Variable parse_f64 : str -> option N.      (* str::parse::<f64>() as raw bits; None = Err *)

(* ====================================================================================== *)
(*                                    read_v                                               *)
(* ====================================================================================== *)
Definition cell_format_of (e : env) (cattrs : attrs) : option cell_format :=
  match get_attribute cattrs a_s with
  | Some style =>
      let id := match parse_usize style with Some i => i | None => 0 end in   (* unwrap_or(0) *)
      nth_N (e_formats e) id                                                  (* formats.get(id) *)
  | None => nth_N (e_formats e) 0                                             (* formats.first() *)
  end.

Definition read_v (e : env) (v : str) (cattrs : attrs) : sres dref dref :=
  let fmt := cell_format_of e cattrs in
  match get_attribute cattrs a_t with
  | Some t =>
    if str_eqb t v_s then
      let idx := match parse_usize v with Some i => i | None => 0 end in
      match nth_N (e_strings e) idx with                                      (* strings.get(idx) *)
      | Some s => Cont (RShared s)
      | None => Fail E_OUT_OF_RANGE
      end
    else if str_eqb t v_b then
      Cont (RBool (negb (str_eqb v v_0) && negb (str_eqb v v_false)))         (* v != "0" && v != "false" *)
    else if str_eqb t v_e then
      match parse_cell_error v with Some c => Cont (RError c) | None => Fail E_CELLERROR end
    else if str_eqb t v_d then Cont (RDateTimeIso v)
    else if str_eqb t v_str then Cont (RString (unescape_xstring v))
    else if str_eqb t v_n then
      match v with
      | [] => Cont REmpty
      | _ => match parse_f64 v with
             | Some bits => Cont (format_excel_f64_ref bits fmt (e_1904 e))
             | None => Fail E_PARSEFLOAT
             end
      end
    else Fail E_TATTR                                                          (* "is" or unknown *)
  | None =>
    match v with
    | [] => Cont REmpty                                                        (* default type n: empty cell *)
    | _ =>
      match parse_f64 v with
      | Some bits => Cont (format_excel_f64_ref bits fmt (e_1904 e))
      | None => Cont (RString v)                                               (* .or(Ok(String(v))) *)
      end
    end
  end.

(* ====================================================================================== *)
(*                                   read_string                                           *)
(* ====================================================================================== *)
Inductive rs_state : Type :=
| RsOuter (rich : option str) (phon : bool)
| RsInT (rich : option str) (tname : str) (value : str)
| RsSkip (value : str) (depth : N).                       (* xml.read_to_end_into(closing) *)

Definition rs_step (closing : str) (st : rs_state) (e : event) : sres rs_state (option str) :=
  match st with
  | RsOuter rich phon =>
    match e with
    | Start n _ =>
      if is_local n_r n then
        Cont (RsOuter (Some (match rich with Some b => b | None => [] end)) phon)
      else if is_local n_rPh n then Cont (RsOuter rich true)
      else if is_local n_t n && negb phon then Cont (RsInT rich n [])
      else Cont st
    | End n =>
      if str_eqb n closing then Ret rich                     (* e.name() == closing *)
      else if is_local n_rPh n then Cont (RsOuter rich false)
      else Cont st
    | _ => Cont st
    end
  | RsInT rich tname value =>
    match e with
    | Text s => Cont (RsInT rich tname (value ++ s))
    | CData s => Cont (RsInT rich tname (value ++ s))
    | End n =>
      if str_eqb n tname then
        match rich with
        | Some b => Cont (RsOuter (Some (b ++ unescape_xstring value)) false)
        | None => Cont (RsSkip (unescape_xstring value) 0)
        end
      else Cont st
    | _ => Cont st
    end
  | RsSkip value depth =>
    match e with
    | Start n _ => if str_eqb n closing then Cont (RsSkip value (depth + 1)) else Cont st
    | End n =>
      if str_eqb n closing then
        if depth =? 0 then Ret (Some value) else Cont (RsSkip value (depth - 1))
      else Cont st
    | _ => Cont st
    end
  end.

(* ====================================================================================== *)
(*                       the loop inside <c> (next_cell) and read_value                    *)
(* ====================================================================================== *)
Inductive cc_state : Type :=
| CcOuter (value : dref)                 (* the loop inside <c> *)
| CcIs (closing : str) (st : rs_state)   (* read_string(xml, e.name()) *)
| CcV (vname : str) (acc : str)          (* text accumulation inside <v> *)
| CcF (fname : str) (depth : N).         (* read_to_end_into(e.name()) for <f> *)

Definition cc_step (en : env) (cattrs : attrs) (st : cc_state) (e : event) : sres cc_state dref :=
  match st with
  | CcOuter value =>
    match e with
    | Start n _ =>
      if is_local n_is n then Cont (CcIs n (RsOuter None false))
      else if is_local n_v n then Cont (CcV n [])
      else if is_local n_f n then Cont (CcF n 0)
      else Fail E_NODE
    | End n => if is_local n_c n then Ret value else Cont st
    | _ => Cont st
    end
  | CcIs closing rs =>
    match rs_step closing rs e with
    | Cont rs' => Cont (CcIs closing rs')
    | Ret r => Cont (CcOuter (match r with Some s => RString s | None => REmpty end))
    | Fail c => Fail c
    | Boom => Boom
    end
  | CcV vname acc =>
    match e with
    | Text s => Cont (CcV vname (acc ++ s))
    | CData s => Cont (CcV vname (acc ++ s))
    | End n =>
      if str_eqb n vname then
        match read_v en acc cattrs with
        | Cont v => Cont (CcOuter v)
        | Ret v => Cont (CcOuter v)
        | Fail c => Fail c
        | Boom => Boom
        end
      else Cont st
    | _ => Cont st
    end
  | CcF fname depth =>
    match e with
    | Start n _ => if str_eqb n fname then Cont (CcF fname (depth + 1)) else Cont st
    | End n =>
      if str_eqb n fname then
        if depth =? 0 then Cont (CcOuter REmpty) else Cont (CcF fname (depth - 1))
      else Cont st
    | _ => Cont st
    end
  end.

(* ====================================================================================== *)
(*                               next_cell, all cells of a sheet                           *)
(* ====================================================================================== *)
Inductive sh_state : Type :=
| ShOuter (row col : N)                                       (* row_index, col_index *)
| ShCell (row col : N) (p : pos) (cattrs : attrs) (st : cc_state).

Inductive sh_res : Type :=
| SCont (st : sh_state)
| SCell (st : sh_state) (c : pos * dref)      (* next_cell returned Some(cell) *)
| SDone                                        (* next_cell returned None *)
| SFail (e : N)
| SBoom.

Definition lift_sh (o : outcome sh_state) : sh_res :=
  match o with Ok s => SCont s | Err e => SFail e | Panic => SBoom | OutOfFuel => SBoom end.

Definition cells_step (en : env) (st : sh_state) (e : event) : sh_res :=
  match st with
  | ShOuter row col =>
    match e with
    | Start n a =>
      if is_local n_row n then
        match get_attribute a a_r with
        | Some range => lift_sh (do r <- get_row range; Ok (ShOuter r col))
        | None => SCont st
        end
      else if is_local n_c n then
        match get_attribute a a_r with
        | Some range =>
            lift_sh (do rc <- get_row_column range;
                     Ok (ShCell row (snd rc) rc a (CcOuter REmpty)))      (* self.col_index = col *)
        | None => SCont (ShCell row col (row, col) a (CcOuter REmpty))
        end
      else SCont st
    | End n =>
      if is_local n_row n then
        (if row + 1 <=? U32MAX then SCont (ShOuter (row + 1) 0)          (* checked_add(1); col_index = 0 *)
         else SFail E_OUT_OF_RANGE)
      else if is_local n_sheetData n then SDone
      else SCont st
    | _ => SCont st
    end
  | ShCell row col p a cst =>
    match cc_step en a cst e with
    | Cont cst' => SCont (ShCell row col p a cst')
    | Ret v =>
        if col + 1 <=? U32MAX then SCell (ShOuter row (col + 1)) (p, v)   (* checked_add(1) *)
        else SFail E_OUT_OF_RANGE
    | Fail c => SFail c
    | Boom => SBoom
    end
  end.

(* repeated next_cell until None: the cells in document order *)
Fixpoint cells_run (en : env) (st : sh_state) (racc : list (pos * dref)) (evs : list event)
  : outcome (list (pos * dref)) :=
  match evs with
  | [] => Err E_EOF
  | e :: rest =>
    match cells_step en st e with
    | SCont st' => cells_run en st' racc rest
    | SCell st' c => cells_run en st' (c :: racc) rest
    | SDone => Ok (rev racc)
    | SFail c => Err c
    | SBoom => Panic
    end
  end.

(* ====================================================================================== *)
(*                                 XlsxCellReader::new                                     *)
(* ====================================================================================== *)
Definition dims := ((N * N) * (N * N))%type.
Definition dims0 : dims := ((0, 0), (0, 0)).

Fixpoint reader_new_loop (sh_type : bool) (d : dims) (evs : list event)
  : outcome (dims * list event) :=
  match evs with
  | [] => Err (if sh_type then E_NOT_WORKSHEET else E_EOF)
  | Start n a :: rest =>
      if is_local n_dimension n then
        match get_attribute a a_ref with
        | Some rdim => do d' <- get_dimension rdim; reader_new_loop sh_type d' rest
        | None => Err E_NODE
        end
      else if is_local n_sheetData n then Ok (d, rest)
      else reader_new_loop true d rest
  | _ :: rest => reader_new_loop sh_type d rest
  end.
Definition reader_new (evs : list event) : outcome (dims * list event) :=
  reader_new_loop false dims0 evs.

(* ====================================================================================== *)
(*                        worksheet_range_ref / worksheet_range                            *)
(* ====================================================================================== *)
Definition sheet_cells (en : env) (evs : list event) : outcome (option (list (pos * dref))) :=
  match reader_new evs with
  | Ok (_, rest) => do cs <- cells_run en (ShOuter 0 0) [] rest; Ok (Some cs)
  | Err e => if e =? E_NOT_WORKSHEET then Ok None else Err e
  | Panic => Panic
  | OutOfFuel => OutOfFuel
  end.

Definition nonempty_cells (cs : list (pos * dref)) : list (pos * dref) :=
  filter (fun c => negb (is_rempty (snd c))) cs.

Definition xlsx_range_ref (en : env) (h : header_row) (evs : list event) : outcome (range dref) :=
  do ocs <- sheet_cells en evs;
  match ocs with
  | None => Ok empty                                   (* NotAWorksheet: Range::default() *)
  | Some cs => Ok (from_sparse_x REmpty (lazy_cells REmpty h (nonempty_cells cs)))
  end.

Definition map_range {A B} (f : A -> B) (r : range A) : range B :=
  mkRange (r_start r) (r_end r) (map f (r_inner r)).

Definition xlsx_range (en : env) (h : header_row) (evs : list event) : outcome (range xdata) :=
  do r <- xlsx_range_ref en h evs; Ok (map_range to_data r).

(* the model named in the property: default header row *)
Definition xlsx_sheet_model (en : env) (evs : list event) : outcome (range xdata) :=
  xlsx_range en FirstNonEmptyRow evs.

(* ====================================================================================== *)
(*                    S: logical sheets, E: encoder, legal, known                          *)
(* ====================================================================================== *)
Inductive lvalue : Type :=
| LNumber (text : str)         (* the decimal text of a number *)
| LString (s : str)
| LBool (b : bool)
| LError (code : N)
| LIso (s : str)               (* ISO 8601 date, t="d" *)
| LBlank.                      (* no value: style only, or a formula without cached value *)

Inductive strform : Type := SfShared (idx : N) | SfInline | SfStr.

Record ecell : Type := mkCell {
  ec_col : N;
  ec_explicit : bool;          (* r attribute present *)
  ec_lower : bool;             (* column letters of r in lower case *)
  ec_style : option N;         (* s attribute *)
  ec_val : lvalue;
  ec_sform : strform;          (* storage of a string value *)
  ec_tn : bool;                (* numbers / blanks: write t="n" *)
  ec_alt : bool;               (* booleans: the words true / false; blanks: an empty <v/> *)
  ec_formula : option str;     (* an <f> element before <v> *)
  ec_extra : attrs;            (* other attributes (cm, vm, ph …) *)
  ec_inner : list event;       (* character data / comments between <c> and its first child *)
  ec_junk : list event         (* ignorable events after </c> *)
}.

Record erow : Type := mkRow {
  er_row : N;
  er_explicit : bool;
  er_extra : attrs;            (* spans, ht, customHeight, s … *)
  er_junk0 : list event;       (* ignorable events after <row> *)
  er_cells : list ecell;
  er_junk : list event         (* ignorable events after </row> *)
}.

Inductive edim : Type :=
| DimAbsent
| DimCell (p : pos)
| DimArea (s e : pos).

Record esheet : Type := mkSheet {
  es_pfx : str;                (* namespace prefix on every element ([] = default namespace) *)
  es_dim : edim;               (* may be wrong: any syntactically valid reference *)
  es_pre : list event;         (* declaration, <worksheet>, sheetPr … before the dimension *)
  es_pre2 : list event;        (* sheetViews, sheetFormatPr, cols … *)
  es_junk0 : list event;       (* after <sheetData> *)
  es_rows : list erow;
  es_post : list event         (* everything after </sheetData> *)
}.

Definition text_ev (s : str) : list event := match s with [] => [] | _ => [Text s] end.
Definition elem (pfx l : str) (a : attrs) (body : list event) : list event :=
  Start (qn pfx l) a :: body ++ [End (qn pfx l)].

Definition cell_t (c : ecell) : option str :=
  match ec_val c with
  | LNumber _ => if ec_tn c then Some v_n else None
  | LString _ => Some (match ec_sform c with
                       | SfShared _ => v_s | SfInline => v_inlineStr | SfStr => v_str end)
  | LBool _ => Some v_b
  | LError _ => Some v_e
  | LIso _ => Some v_d
  | LBlank => if ec_tn c then Some v_n else None
  end.

Definition formula_events (pfx : str) (f : option str) : list event :=
  match f with Some t => elem pfx n_f [] (text_ev t) | None => [] end.
Definition v_elem (pfx s : str) : list event := elem pfx n_v [] (text_ev s).

Definition cell_content (pfx : str) (c : ecell) : list event :=
  match ec_val c with
  | LNumber t => formula_events pfx (ec_formula c) ++ v_elem pfx t
  | LString s =>
      match ec_sform c with
      | SfShared idx => v_elem pfx (dec idx)
      | SfInline => elem pfx n_is [] (elem pfx n_t [] (text_ev s))
      | SfStr => formula_events pfx (ec_formula c) ++ v_elem pfx s
      end
  | LBool b =>
      formula_events pfx (ec_formula c) ++
      v_elem pfx (if ec_alt c then (if b then v_true else v_false) else (if b then v_1 else v_0))
  | LError code => formula_events pfx (ec_formula c) ++ v_elem pfx (err_text code)
  | LIso s => v_elem pfx s
  | LBlank => formula_events pfx (ec_formula c) ++ (if ec_alt c then v_elem pfx [] else [])
  end.

Definition cell_ref (row : N) (c : ecell) : str :=
  if ec_lower c then map to_lower (a1_name row (ec_col c)) else a1_name row (ec_col c).

Definition opt_attr (k : str) (v : option str) : attrs :=
  match v with Some x => [(k, x)] | None => [] end.

Definition cell_attrs (row : N) (c : ecell) : attrs :=
  ec_extra c ++
  opt_attr a_r (if ec_explicit c then Some (cell_ref row c) else None) ++
  opt_attr a_s (option_map dec (ec_style c)) ++
  opt_attr a_t (cell_t c).

Definition cell_events (pfx : str) (row : N) (c : ecell) : list event :=
  elem pfx n_c (cell_attrs row c) (ec_inner c ++ cell_content pfx c) ++ ec_junk c.

Definition row_attrs (r : erow) : attrs :=
  er_extra r ++ opt_attr a_r (if er_explicit r then Some (dec (er_row r + 1)) else None).

Definition row_events (pfx : str) (r : erow) : list event :=
  elem pfx n_row (row_attrs r)
       (er_junk0 r ++ flat_map (cell_events pfx (er_row r)) (er_cells r)) ++ er_junk r.

Definition dim_text (d : edim) : option str :=
  match d with
  | DimAbsent => None
  | DimCell p => Some (a1_name (fst p) (snd p))
  | DimArea s e => Some (a1_name (fst s) (snd s) ++ [ch_colon] ++ a1_name (fst e) (snd e))
  end.
Definition dim_events (pfx : str) (d : edim) : list event :=
  match dim_text d with
  | Some t => elem pfx n_dimension [(a_ref, t)] []
  | None => []
  end.

(* E *)
Definition encode (sh : esheet) : list event :=
  es_pre sh ++ dim_events (es_pfx sh) (es_dim sh) ++ es_pre2 sh ++
  Start (qn (es_pfx sh) n_sheetData) [] :: es_junk0 sh ++
  flat_map (row_events (es_pfx sh)) (es_rows sh) ++
  End (qn (es_pfx sh) n_sheetData) :: es_post sh.

(* ---------- S ---------- *)
(* the logical sheet an encoding denotes: position, style, value — nothing else *)
Definition lcell := (pos * (option N * lvalue))%type.
Definition logical_row (r : erow) : list lcell :=
  map (fun c => ((er_row r, ec_col c), (ec_style c, ec_val c))) (er_cells r).
Definition logical (sh : esheet) : list lcell := flat_map logical_row (es_rows sh).

Definition style_format (en : env) (style : option N) : option cell_format :=
  nth_N (e_formats en) (match style with Some id => id | None => 0 end).

(* the documented mapping *)
Definition expected (en : env) (sv : option N * lvalue) : xdata :=
  match snd sv with
  | LNumber t =>
      match parse_f64 t with
      | Some bits => to_data (format_excel_f64_ref bits (style_format en (fst sv)) (e_1904 en))
      | None => DEmpty
      end
  | LString s => DString s
  | LBool b => DBool b
  | LError c => DError c
  | LIso s => DDateTimeIso s
  | LBlank => DEmpty
  end.

Definition spec_cells (en : env) (l : list lcell) : list (pos * xdata) :=
  map (fun c => (fst c, expected en (snd c))) l.
Definition used_cells_spec (en : env) (l : list lcell) : list (pos * xdata) :=
  filter (fun c => negb (is_dempty (snd c))) (spec_cells en l).

(* the value stored in the file at q, Empty where nothing is stored *)
Definition value_at (en : env) (l : list lcell) (q : pos) : xdata :=
  match find (fun c => pos_eqb (fst c) q) l with
  | Some c => expected en (snd c)
  | None => DEmpty
  end.

(* the Range a logical sheet denotes: the tight bounding rectangle of its non-empty cells, every
   cell at its absolute position (C05_from_sparse_spec characterises from_sparse; the theorem
   C01_range_of_spec restates it for sheets) *)
Definition range_of (en : env) (l : list lcell) : range xdata :=
  from_sparse_x DEmpty (used_cells_spec en l).

(* ---------- legal ---------- *)
Definition is_noise (e : event) : bool :=
  match e with XmlText.Start _ _ => false | XmlText.End _ => false | _ => true end.

(* events the outer loop of next_cell ignores *)
Definition junk_ok (e : event) : bool :=
  match e with
  | XmlText.Start n _ => negb (is_local n_row n) && negb (is_local n_c n)
  | XmlText.End n => negb (is_local n_row n) && negb (is_local n_sheetData n)
  | _ => true
  end.
(* events XlsxCellReader::new ignores *)
Definition pre_ok (e : event) : bool :=
  match e with
  | XmlText.Start n _ => negb (is_local n_dimension n) && negb (is_local n_sheetData n)
  | _ => true
  end.

Definition key_free (keys : list str) (a : attrs) : bool :=
  forallb (fun kv => negb (existsb (str_eqb (fst kv)) keys)) a.

Definition ROW_LIMIT : N := 1000000000.     (* r + 1 < 10^9: the row scanner's no-overflow bound *)
Definition COL_LIMIT : N := 308915776.      (* c < 26^6: the column scanner's no-overflow bound *)

Definition pos_ok (p : pos) : bool := (fst p + 1 <? ROW_LIMIT) && (snd p <? COL_LIMIT).

Definition legal_value (en : env) (c : ecell) : bool :=
  match ec_val c with
  | LNumber t => match t with [] => false | _ => match parse_f64 t with Some _ => true | None => false end end
  | LString s =>
      match ec_sform c with
      | SfShared idx =>
          (idx <=? U64MAX) &&
          match nth_N (e_strings en) idx with
          | Some s' => str_eqb s' s
          | None => false
          end
      | _ => str_eqb (unescape_xstring s) s      (* the ST_Xstring layer is C19's: no _xHHHH_ here *)
      end
  | LError code => code <=? 7
  | _ => true
  end.

(* [cur] is col_index when the cell starts *)
Definition legal_cell (en : env) (cur : N) (c : ecell) : bool :=
  (ec_col c <? COL_LIMIT) && (cur <=? ec_col c) &&
  (ec_explicit c || (ec_col c =? cur)) &&
  match ec_style c with Some id => id <=? U64MAX | None => true end &&
  key_free [a_r; a_s; a_t] (ec_extra c) &&
  forallb is_noise (ec_inner c) && forallb junk_ok (ec_junk c) &&
  legal_value en c.

Fixpoint legal_cells (en : env) (cur : N) (cs : list ecell) : bool :=
  match cs with
  | [] => true
  | c :: t => legal_cell en cur c && legal_cells en (ec_col c + 1) t
  end.

(* [cur] is row_index when the row starts *)
Definition legal_row (en : env) (cur : N) (r : erow) : bool :=
  (er_row r + 1 <? ROW_LIMIT) && (cur <=? er_row r) &&
  (er_explicit r || (er_row r =? cur)) &&
  key_free [a_r] (er_extra r) &&
  forallb junk_ok (er_junk0 r) && forallb junk_ok (er_junk r) &&
  legal_cells en 0 (er_cells r).

Fixpoint legal_rows (en : env) (cur : N) (rs : list erow) : bool :=
  match rs with
  | [] => true
  | r :: t => legal_row en cur r && legal_rows en (er_row r + 1) t
  end.

Definition legal_dim (d : edim) : bool :=
  match d with
  | DimAbsent => true
  | DimCell p => pos_ok p
  | DimArea s e => pos_ok e && (fst s <=? fst e) && (snd s <=? snd e)
  end.

Definition legal_sheet (en : env) (sh : esheet) : bool :=
  no_colon (es_pfx sh) && legal_dim (es_dim sh) &&
  forallb pre_ok (es_pre sh) && forallb pre_ok (es_pre2 sh) &&
  forallb junk_ok (es_junk0 sh) && legal_rows en 0 (es_rows sh).

(* the same sheet with every reference written out *)
Definition explicit_cell (c : ecell) : ecell :=
  mkCell (ec_col c) true (ec_lower c) (ec_style c) (ec_val c) (ec_sform c) (ec_tn c) (ec_alt c) (ec_formula c)
         (ec_extra c) (ec_inner c) (ec_junk c).
Definition explicit_row (r : erow) : erow :=
  mkRow (er_row r) true (er_extra r) (er_junk0 r) (map explicit_cell (er_cells r)) (er_junk r).
Definition all_explicit (sh : esheet) : esheet :=
  mkSheet (es_pfx sh) (es_dim sh) (es_pre sh) (es_pre2 sh) (es_junk0 sh) (map explicit_row (es_rows sh))
          (es_post sh).

(* ---------- known classes ---------- *)
(* none at the sheet level: the #GETTING_DATA class of round 1 is fixed (commit "fix: an xlsx error
   cell holding #GETTING_DATA made the whole sheet unreadable") *)

(* ====================================================================================== *)
(*                     workbook level: relationships, workbook.xml, parts                  *)
(* ====================================================================================== *)
Fixpoint starts_with (p s : str) : bool :=
  match p, s with
  | [], _ => true
  | x :: p', y :: s' => (x =? y) && starts_with p' s'
  | _ :: _, [] => false
  end.

(* read_workbook: "target may have pre-prended /xl/ or xl/ path; strip if present" *)
Definition normalize_target (r : str) : str :=
  if starts_with p_slash_xl r then tl r              (* r[1..] *)
  else if starts_with p_xl r then r
  else p_xl ++ r.

Definition SLASH : N := 47.
(* path.split('/').nth(1) *)
Definition second_segment (path : str) : option str :=
  nth_error (split_on SLASH path []) 1.
Definition sheet_type_of (path : str) : option N :=
  match second_segment path with
  | Some seg =>
      if str_eqb seg p_worksheets then Some 0
      else if str_eqb seg p_chartsheets then Some 1
      else if str_eqb seg p_dialogsheets then Some 2
      else if str_eqb seg p_macrosheets then Some 3
      else None
  | None => None
  end.

(* u8::eq_ignore_ascii_case on whole strings *)
Definition lower_ascii (c : N) : N := if (65 <=? c) && (c <=? 90) then c + 32 else c.
Fixpoint eq_ignore_ascii_case (a b : str) : bool :=
  match a, b with
  | [], [] => true
  | x :: a', y :: b' => (lower_ascii x =? lower_ascii y) && eq_ignore_ascii_case a' b'
  | _, _ => false
  end.

(* xml_reader: zip.file_names().find(|n| n.eq_ignore_ascii_case(path)) — central directory order *)
Definition find_part {A} (parts : list (str * A)) (path : str) : option (str * A) :=
  find (fun p => eq_ignore_ascii_case (fst p) path) parts.

(* SheetType::from_relationship_type (lib.rs): the kind of sheet a workbook relationship Type
   names (0 worksheet, 1 chartsheet, 2 dialogsheet, 3 macro sheet); None for any other type *)
Definition sheet_type_of_rel (t : str) : option N :=
  if str_eqb t t_ws || str_eqb t t_ws_strict then Some 0
  else if str_eqb t t_cs || str_eqb t t_cs_strict then Some 1
  else if str_eqb t t_ds || str_eqb t t_ds_strict then Some 2
  else if str_eqb t t_xlm || str_eqb t t_xlim then Some 3
  else None.

(* `match rel_typ { Some(t) => t, None => match path.split('/').nth(1) { .. } }`: the relationship
   type decides; the folder of the part only when the type names no sheet kind *)
Definition sheet_type (rt : option N) (path : str) : option N :=
  match rt with Some k => Some k | None => sheet_type_of path end.

(* read_relationships: BTreeMap<Id bytes, (Target, Option<SheetType>)>; later inserts replace
   earlier ones *)
Definition relmap := list (str * (str * option N)).
Fixpoint rel_attrs (a : attrs) (id target : str) (typ : option N) : str * (str * option N) :=
  match a with
  | [] => (id, (target, typ))
  | (k, v) :: r =>
      if str_eqb k a_Id then rel_attrs r (id ++ v) target typ      (* id.extend_from_slice *)
      else if str_eqb k a_Target then rel_attrs r id v typ
      else if str_eqb k a_Type then rel_attrs r id target (sheet_type_of_rel v)
      else rel_attrs r id target typ
  end.

Fixpoint read_relationships (acc : relmap) (evs : list event) : outcome relmap :=
  match evs with
  | [] => Err E_EOF
  | Start n a :: rest =>
      if is_local n_Relationship n then read_relationships (rel_attrs a [] [] None :: acc) rest
      else read_relationships acc rest
  | End n :: rest =>
      if is_local n_Relationships n then Ok acc else read_relationships acc rest
  | _ :: rest => read_relationships acc rest
  end.
(* [acc] is most-recent-first, so the first hit is the last insert *)
Definition rel_get (rels : relmap) (id : str) : option (str * option N) :=
  match find (fun p => str_eqb (fst p) id) rels with Some p => Some (snd p) | None => None end.

(* THE relationship-id attribute of <sheet>.  [rid_fix_applied] = false models the tree as it is
   (literal names r:id / relationships:id, class F30); true models the fix of branch c16-fixes
   (commit "fix: xlsx workbooks binding the relationships namespace to another prefix than r failed
   to open": key.prefix().is_some() && key.local_name() == "id").  Flip this one line when that
   commit is in the tree. *)
Definition rid_fix_applied : bool := true.
Definition has_prefix (k : str) : bool :=
  match XmlText.after_colon k with Some _ => true | None => false end.
Definition is_rid_attr_gen (fixed : bool) (k : str) : bool :=
  if fixed then has_prefix k && str_eqb (local_name k) a_id
  else str_eqb k a_rid || str_eqb k a_relsid.
Definition sheet_rid_attr (k : str) : bool := is_rid_attr_gen rid_fix_applied k.

(* the attribute loop of the `sheet` arm; rt = rel_typ, the kind the relationship type names *)
Fixpoint sheet_attrs (rels : relmap) (a : attrs) (name path : str) (rt : option N)
  : outcome (str * str * option N) :=
  match a with
  | [] => Ok (name, path, rt)
  | (k, v) :: r =>
      if str_eqb k a_name then sheet_attrs rels r v path rt
      else if str_eqb k a_state then
        if str_eqb v v_visible || str_eqb v v_hidden || str_eqb v v_veryHidden
        then sheet_attrs rels r name path rt else Err E_UNRECOGNIZED
      else if sheet_rid_attr k then
        match rel_get rels v with
        | Some (t, ty) => sheet_attrs rels r name (normalize_target t) ty
        | None => Err E_REL_NOT_FOUND
        end
      else sheet_attrs rels r name path rt
  end.

(* [skip] = Some name while the definedName arm consumes events up to its end tag *)
Fixpoint read_workbook (rels : relmap) (skip : option str) (is1904 : bool)
         (racc : list (str * str)) (evs : list event) : outcome (list (str * str) * bool) :=
  match evs with
  | [] => Err E_EOF
  | e :: rest =>
    match skip with
    | Some dn =>
      match e with
      | XmlText.End n => if str_eqb n dn then read_workbook rels None is1904 racc rest
                 else read_workbook rels skip is1904 racc rest
      | _ => read_workbook rels skip is1904 racc rest
      end
    | None =>
      match e with
      | XmlText.Start n a =>
        if is_local n_sheet n then
          match sheet_attrs rels a [] [] None with
          | Ok (name, path, rt) =>
              match sheet_type rt path with
              | Some _ => read_workbook rels None is1904 ((name, path) :: racc) rest
              | None => Err E_UNRECOGNIZED
              end
          | Err c => Err c
          | Panic => Panic
          | OutOfFuel => OutOfFuel
          end
        else if is_local n_workbookPr n then
          let f := match get_attribute a a_date1904 with
                   | Some c => str_eqb c v_1 || str_eqb c v_true
                   | None => false
                   end in
          read_workbook rels None f racc rest
        else if is_local n_definedName n then
          match get_attribute a a_name with
          | Some _ => read_workbook rels (Some n) is1904 racc rest
          | None => read_workbook rels None is1904 racc rest
          end
        else read_workbook rels None is1904 racc rest
      | XmlText.End n =>
        if is_local n_workbook n then Ok (rev racc, is1904)
        else read_workbook rels None is1904 racc rest
      | _ => read_workbook rels None is1904 racc rest
      end
    end
  end.

(* Xlsx::new restricted to relationships + workbook (shared strings and styles arrive through
   [env]); a package is the list of zip entries in central-directory order *)
Definition package := list (str * list event).

Definition open_sheets (pk : package) : outcome (list (str * str) * bool) :=
  match find_part pk p_workbook_rels with
  | None => Err E_FILE_NOT_FOUND
  | Some (_, revs) =>
    do rels <- read_relationships [] revs;
    match find_part pk p_workbook_xml with
    | None => Ok ([], false)
    | Some (_, wevs) => read_workbook rels None false [] wevs
    end
  end.

(* worksheet_range(name) *)
Definition workbook_range (strings : list str) (formats : list cell_format) (pk : package)
           (sheets : list (str * str)) (is1904 : bool) (name : str) : outcome (range xdata) :=
  match find (fun s => str_eqb (fst s) name) sheets with
  | None => Err E_WORKSHEET_NOT_FOUND
  | Some (_, path) =>
    match find_part pk path with
    | None => Err E_WORKSHEET_NOT_FOUND
    | Some (_, evs) => xlsx_sheet_model (mkEnv strings formats is1904) evs
    end
  end.

(* worksheets(): every sheet whose range could be read, in workbook order *)
Definition workbook_ranges (strings : list str) (formats : list cell_format) (pk : package)
  : outcome (list (str * outcome (range xdata))) :=
  do si <- open_sheets pk;
  Ok (map (fun s => (fst s, workbook_range strings formats pk (fst si) (snd si) (fst s))) (fst si)).

(* worksheets(): filter_map(|n| worksheet_range(&n).ok()) — note that a chartsheet part (no
   sheetData) is NOT an error: worksheet_range_ref answers Range::default() for it *)
Definition worksheets_model (strings : list str) (formats : list cell_format) (pk : package)
  : outcome (list (str * range xdata)) :=
  do l <- workbook_ranges strings formats pk;
  Ok (flat_map (fun nr => match snd nr with Ok r => [(fst nr, r)] | _ => [] end) l).

End Model.

(* ---------- workbook encoder (for the path theorems and the tie) ---------- *)
Inductive spelling : Type := SpRelative | SpAbsolute | SpXl.
Definition spell (sp : spelling) (part : str) : str :=     (* part is relative to xl/ *)
  match sp with
  | SpRelative => part
  | SpAbsolute => p_slash_xl ++ part
  | SpXl => p_xl ++ part
  end.

Inductive sheet_content : Type :=
| SWork (sh : esheet)              (* a worksheet part: encode sh *)
| SOther (evs : list event).       (* a chartsheet / dialogsheet part: no sheetData *)

Record esheetref : Type := mkSheetRef {
  sr_name : str;               (* sheet name *)
  sr_rid : str;                (* relationship id *)
  sr_part : str;               (* part name relative to xl/: ANY name (worksheets/sheet1.xml, sheet1.xml,
                                  ws/a.xml, …) — the folders are a convention, not part of the format *)
  sr_type : str;               (* the Type of the relationship: THIS tells the kind of sheet *)
  sr_spelling : spelling;      (* how the Target attribute spells it *)
  sr_extra : attrs;            (* sheetId, state … *)
  sr_content : sheet_content   (* what the part holds *)
}.

Record eworkbook : Type := mkWorkbook {
  wb_pfx : str;                (* prefix of the elements of workbook.xml *)
  wb_relpfx : str;             (* prefix bound to the relationships namespace (usually r) *)
  wb_relspfx : str;            (* prefix of the elements of workbook.xml.rels *)
  wb_sheets : list esheetref;
  wb_date1904 : option str
}.

Definition rels_events (wb : eworkbook) : list event :=
  Other :: elem (wb_relspfx wb) n_Relationships []
    (flat_map (fun s => elem (wb_relspfx wb) n_Relationship
                          [(a_Id, sr_rid s); (a_Type, sr_type s);
                           (a_Target, spell (sr_spelling s) (sr_part s))] [])
              (wb_sheets wb)).

Definition workbook_events (wb : eworkbook) : list event :=
  Other :: elem (wb_pfx wb) n_workbook []
    (match wb_date1904 wb with
     | Some v => elem (wb_pfx wb) n_workbookPr [(a_date1904, v)] []
     | None => []
     end ++
     elem (wb_pfx wb) n_sheets []
       (flat_map (fun s => elem (wb_pfx wb) n_sheet
                             ((a_name, sr_name s) :: sr_extra s ++ [(qn (wb_relpfx wb) a_id, sr_rid s)]) [])
                 (wb_sheets wb))).

(* class 2 (F30): the relationship-id attribute is recognised by the literal prefixes r and
   relationships only *)
Definition known_C01_wb_gen (fixed : bool) (wb : eworkbook) : option N :=
  if fixed || str_eqb (wb_relpfx wb) r_prefix || str_eqb (wb_relpfx wb) relationships_prefix
  then None else Some 2.
Definition known_C01_wb (wb : eworkbook) : option N := known_C01_wb_gen rid_fix_applied wb.

(* ---------- legal workbook descriptions and packages (for C01_xlsx_workbook_main) ---------- *)
Fixpoint eic_distinct (names : list str) : bool :=
  match names with
  | [] => true
  | n :: t => forallb (fun m => negb (eq_ignore_ascii_case n m)) t && eic_distinct t
  end.
Fixpoint str_distinct (names : list str) : bool :=
  match names with
  | [] => true
  | n :: t => forallb (fun m => negb (str_eqb n m)) t && str_distinct t
  end.

Definition is_start (e : event) : bool :=
  match e with XmlText.Start _ _ => true | _ => false end.

(* the relationship types of sheet parts (ECMA-376 Part 1 12.3.24 / 12.3.2 / 12.3.7, transitional
   and strict; MS-OFFMACRO2 2.2.1.4 / 2.2.1.5) *)
Definition sheet_rel_types : list str :=
  [t_ws; t_ws_strict; t_cs; t_cs_strict; t_ds; t_ds_strict; t_xlm; t_xlim].
(* a part name written as a relative Target must not itself begin with xl/ or /xl/ (the reader
   takes such a Target for one of the other two spellings); otherwise any name *)
Definition part_ok (sp : spelling) (part : str) : bool :=
  match sp with
  | SpRelative => negb (starts_with p_xl part) && negb (starts_with p_slash_xl part)
  | _ => true
  end.

(* other attributes of <sheet>: not name, not a relationship id, a state only with a legal value *)
Definition sheet_attr_ok (kv : str * str) : bool :=
  negb (str_eqb (fst kv) a_name) && negb (sheet_rid_attr (fst kv)) &&
  (negb (str_eqb (fst kv) a_state) ||
   str_eqb (snd kv) v_visible || str_eqb (snd kv) v_hidden || str_eqb (snd kv) v_veryHidden).

Definition content_events (c : sheet_content) : list event :=
  match c with SWork sh => encode sh | SOther evs => evs end.

Definition legal_content (parse_f64 : str -> option N) (en : env) (c : sheet_content) : bool :=
  match c with
  | SWork sh => legal_sheet parse_f64 en sh
  | SOther evs => forallb pre_ok evs && existsb is_start evs
  end.

(* what worksheet_range must answer for a sheet *)
Definition sheet_spec (parse_f64 : str -> option N) (en : env) (c : sheet_content)
  : outcome (range xdata) :=
  match c with
  | SWork sh => Ok (range_of parse_f64 en (logical sh))
  | SOther _ => Ok empty
  end.

Definition date_flag (wb : eworkbook) : bool :=
  match wb_date1904 wb with
  | Some c => str_eqb c v_1 || str_eqb c v_true
  | None => false
  end.

Definition legal_workbook (wb : eworkbook) : bool :=
  no_colon (wb_pfx wb) && no_colon (wb_relspfx wb) && no_colon (wb_relpfx wb) &&
  match wb_relpfx wb with [] => false | _ => true end &&
  forallb (fun s => part_ok (sr_spelling s) (sr_part s) && existsb (str_eqb (sr_type s)) sheet_rel_types
                    && forallb sheet_attr_ok (sr_extra s)) (wb_sheets wb) &&
  str_distinct (map sr_name (wb_sheets wb)) && str_distinct (map sr_rid (wb_sheets wb)).

(* the zip package holds the two workbook parts and one part per sheet, under any ASCII casing of
   their names, in any order, among any other entries; names are distinct up to ASCII case *)
Definition package_holds (parse_f64 : str -> option N) (strings : list str)
           (formats : list cell_format) (wb : eworkbook) (pk : package) : Prop :=
  eic_distinct (map fst pk) = true /\
  (exists n, In (n, rels_events wb) pk /\ eq_ignore_ascii_case n p_workbook_rels = true) /\
  (exists n, In (n, workbook_events wb) pk /\ eq_ignore_ascii_case n p_workbook_xml = true) /\
  (forall s, In s (wb_sheets wb) ->
     exists n, In (n, content_events (sr_content s)) pk /\
               eq_ignore_ascii_case n (p_xl ++ sr_part s) = true /\
               legal_content parse_f64 (mkEnv strings formats (date_flag wb)) (sr_content s) = true).
