(* Password_proofs.v — proofs for property C20: xls (byte level: record framing + globals loop)
   and ods (event level). *)
From Calamine Require Import Prelude Password.
Open Scope N_scope.

(* ================================================================== xls: framing *)
Lemma u16_lo_hi : forall n, u16 (lo n) (hi n) = n.
Proof. intros n. unfold u16, lo, hi. lia. Qed.

Lemma lenN_cons : forall (x : N) b, lenN (x :: b) = lenN b + 1.
Proof. intros. unfold lenN. cbn [length]. lia. Qed.

Lemma take_n_app : forall b rest, take_n (b ++ rest) (lenN b) = Some (b, rest).
Proof.
  induction b as [|x b IH]; intros rest.
  - change (lenN (@nil N)) with 0. destruct rest; reflexivity.
  - cbn [app take_n]. rewrite lenN_cons.
    destruct (lenN b + 1 =? 0) eqn:E; [lia|].
    replace (lenN b + 1 - 1) with (lenN b) by lia. rewrite IH. reflexivity.
Qed.

(* a stream position where a record other than CONTINUE begins *)
Definition tail_ok (s : list N) : Prop :=
  exists t b r, s = rec_bytes t b ++ r /\ t <> CONTINUE.

Lemma tail_ok_cons : forall s, tail_ok s -> exists x s', s = x :: s'.
Proof. intros s (t & b & r & -> & _). unfold rec_bytes. cbn [app]. eauto. Qed.

Lemma starts_cont_tail : forall s, tail_ok s -> starts_cont s = false.
Proof.
  intros s (t & b & r & -> & Ht). unfold rec_bytes. cbn [app starts_cont].
  destruct (b ++ r); [reflexivity|]. rewrite u16_lo_hi. apply N.eqb_neq. exact Ht.
Qed.

Lemma collect_cont_tail : forall s fuel acc, tail_ok s ->
  collect_cont (S fuel) s acc = Ok (acc, s).
Proof.
  intros s fuel acc (t & b & r & -> & Ht). unfold rec_bytes. cbn [app collect_cont].
  destruct (b ++ r); [reflexivity|]. rewrite u16_lo_hi.
  destruct (t =? CONTINUE) eqn:E; [apply N.eqb_eq in E; contradiction|reflexivity].
Qed.

Definition conts_bytes (conts : list (list N)) : list N :=
  concat (map (rec_bytes CONTINUE) conts).

Lemma collect_cont_conts : forall conts s fuel acc, tail_ok s ->
  (length conts < fuel)%nat ->
  collect_cont fuel (conts_bytes conts ++ s) acc = Ok (acc ++ conts, s).
Proof.
  induction conts as [|c cs IH]; intros s fuel acc Hs Hf.
  - destruct fuel as [|f]; [cbn in Hf; lia|]. unfold conts_bytes. cbn [map concat app].
    rewrite app_nil_r. apply collect_cont_tail. exact Hs.
  - destruct fuel as [|f]; [cbn in Hf; lia|].
    unfold conts_bytes. cbn [map concat]. fold (conts_bytes cs). rewrite <- app_assoc.
    unfold rec_bytes at 1. cbn [app].
    destruct (c ++ conts_bytes cs ++ s) as [|y ys] eqn:E.
    + apply app_eq_nil in E. destruct E as [_ E]. apply app_eq_nil in E. destruct E as [_ E].
      destruct (tail_ok_cons _ Hs) as (x & s' & Hx). congruence.
    + cbn [collect_cont]. rewrite u16_lo_hi, N.eqb_refl, u16_lo_hi, <- E, take_n_app.
      rewrite IH; [|exact Hs|cbn [length] in Hf; lia].
      rewrite <- app_assoc. reflexivity.
Qed.

Lemma conts_bytes_length : forall conts, (length conts <= length (conts_bytes conts))%nat.
Proof.
  induction conts as [|c cs IH]; [cbn; lia|].
  unfold conts_bytes in *. cbn [map concat]. rewrite app_length. unfold rec_bytes at 1.
  cbn [length]. lia.
Qed.

Lemma starts_cont_conts : forall c cs s, tail_ok s ->
  starts_cont (conts_bytes (c :: cs) ++ s) = true.
Proof.
  intros c cs s Hs. unfold conts_bytes. cbn [map concat]. fold (conts_bytes cs).
  rewrite <- app_assoc. unfold rec_bytes at 1. cbn [app].
  destruct (c ++ conts_bytes cs ++ s) as [|y ys] eqn:E.
  - apply app_eq_nil in E. destruct E as [_ E]. apply app_eq_nil in E. destruct E as [_ E].
    destruct (tail_ok_cons _ Hs) as (x & s' & Hx). congruence.
  - cbn [starts_cont]. rewrite u16_lo_hi. apply N.eqb_refl.
Qed.

(* RecordIter::next gives back exactly the logical record the writer laid out *)
Lemma next_record_item : forall it s, tail_ok s ->
  next_record (item_bytes it ++ s) = Some (Ok (item_rec it, s)).
Proof.
  intros it s Hs. unfold item_bytes. fold (conts_bytes (i_conts it)). rewrite <- app_assoc.
  unfold rec_bytes at 1. cbn [app next_record]. rewrite !u16_lo_hi, take_n_app.
  unfold item_rec. destruct (i_conts it) as [|c cs].
  - unfold conts_bytes. cbn [map concat app]. rewrite (starts_cont_tail _ Hs). reflexivity.
  - rewrite (starts_cont_conts c cs _ Hs).
    rewrite collect_cont_conts; [reflexivity|exact Hs|].
    rewrite app_length. pose proof (conts_bytes_length (c :: cs)).
    destruct (tail_ok_cons _ Hs) as (x & s' & ->). cbn [length] in *. lia.
Qed.

Lemma tail_ok_item : forall it s, i_typ it <> CONTINUE -> tail_ok (item_bytes it ++ s).
Proof.
  intros it s H. unfold item_bytes. rewrite <- app_assoc.
  exists (i_typ it), (i_body it), (concat (map (rec_bytes CONTINUE) (i_conts it)) ++ s).
  split; [reflexivity|exact H].
Qed.

Lemma item_ok_typ : forall it, item_ok it = true -> i_typ it <> CONTINUE.
Proof.
  intros it H. unfold item_ok in H. apply andb_prop in H. destruct H as [H _].
  apply andb_prop in H. destruct H as [H _]. apply andb_prop in H. destruct H as [_ H].
  apply negb_true_iff in H. apply N.eqb_neq. exact H.
Qed.

(* whatever follows a record, RecordIter::next reports its type *)
Lemma next_record_typ : forall t b s, exists o,
  next_record (rec_bytes t b ++ s) = Some o /\
  forall r rest, o = Ok (r, rest) -> f_typ r = t.
Proof.
  intros t b s. unfold rec_bytes. cbn [app next_record]. rewrite !u16_lo_hi, take_n_app.
  destruct (starts_cont s).
  - eexists. split; [reflexivity|]. intros r rest H.
    destruct (collect_cont (length s) s []) as [[a b']| | |]; cbn [obind] in H;
      inversion H; reflexivity.
  - eexists. split; [reflexivity|]. intros r rest H. inversion H. reflexivity.
Qed.

(* the only error RecordIter produces is EoStream *)
Lemma collect_cont_err : forall fuel s acc e, collect_cont fuel s acc = Err e -> e = E_OTHER.
Proof.
  induction fuel as [|f IH]; intros s acc e H; [discriminate|].
  cbn [collect_cont] in H.
  destruct s as [|c0 [|c1 [|l0 [|l1 [|x body]]]]]; try discriminate.
  destruct (u16 c0 c1 =? CONTINUE); [|discriminate].
  destruct (take_n (x :: body) (u16 l0 l1)) as [[d r']|].
  - apply (IH _ _ _ H).
  - inversion H. reflexivity.
Qed.

Lemma next_record_err : forall s e, next_record s = Some (Err e) -> e = E_OTHER.
Proof.
  intros s e H. unfold next_record in H.
  destruct s as [|t0 [|t1 [|l0 [|l1 body]]]]; try discriminate; try (inversion H; reflexivity).
  destruct (take_n body (u16 l0 l1)) as [[d next]|]; [|inversion H; reflexivity].
  destruct (starts_cont next); [|discriminate].
  inversion H as [Hc].
  destruct (collect_cont (length next) next []) as [[a b]|e'| |] eqn:Ec; cbn [obind] in Hc;
    try discriminate.
  inversion Hc. subst. apply (collect_cont_err _ _ _ _ Ec).
Qed.

(* plain records after it: the CONTINUE collection never fails *)
Lemma raw_bytes_cons : forall t b rs, raw_bytes ((t, b) :: rs) = rec_bytes t b ++ raw_bytes rs.
Proof. reflexivity. Qed.

Lemma collect_cont_raw : forall rs fuel acc, (length rs < fuel)%nat ->
  exists acc' rest, collect_cont fuel (raw_bytes rs) acc = Ok (acc', rest).
Proof.
  induction rs as [|[t b] rs IH]; intros fuel acc Hf; (destruct fuel as [|f]; [cbn in Hf; lia|]).
  - eexists; eexists; reflexivity.
  - rewrite raw_bytes_cons. unfold rec_bytes. cbn [app].
    destruct (b ++ raw_bytes rs) as [|y ys] eqn:E.
    + eexists; eexists; reflexivity.
    + cbn [collect_cont]. destruct (u16 (lo t) (hi t) =? CONTINUE).
      * rewrite u16_lo_hi, <- E, take_n_app. apply IH. cbn [length] in Hf. lia.
      * eexists; eexists; reflexivity.
Qed.

Lemma raw_bytes_length : forall rs, (length rs <= length (raw_bytes rs))%nat.
Proof.
  induction rs as [|[t b] rs IH]; [cbn; lia|].
  rewrite raw_bytes_cons, app_length. unfold rec_bytes. cbn [length]. lia.
Qed.

Lemma next_record_then_raw : forall t b post, exists r rest,
  next_record (rec_bytes t b ++ raw_bytes post) = Some (Ok (r, rest)) /\ f_typ r = t.
Proof.
  intros t b post. unfold rec_bytes. cbn [app next_record]. rewrite !u16_lo_hi, take_n_app.
  destruct (starts_cont (raw_bytes post)) eqn:Es.
  - destruct post as [|[t' b'] post].
    + cbn in Es. discriminate.
    + destruct (@collect_cont_raw ((t', b') :: post) (length (raw_bytes ((t', b') :: post))) [])
        as (acc' & rest & Hc).
      { pose proof (raw_bytes_length post). rewrite raw_bytes_cons, app_length.
        unfold rec_bytes. cbn [length]. lia. }
      rewrite Hc. cbn [obind fst snd]. eexists; eexists. split; reflexivity.
  - eexists; eexists. split; reflexivity.
Qed.

(* ================================================================== xls: the globals loop *)
Definition items_bytes (its : list item) : list N := concat (map item_bytes its).

Section XlsGlobals.
Variable interp : frec -> outcome unit.

(* the records in front are passed over *)
Lemma globals_loop_pre : forall pre s fuel,
  forallb item_ok pre = true ->
  (forall it, In it pre ->
     i_typ it <> FILEPASS /\ i_typ it <> EOF_REC /\ interp (item_rec it) = Ok tt) ->
  tail_ok s ->
  globals_loop interp (length pre + fuel) (items_bytes pre ++ s) = globals_loop interp fuel s.
Proof.
  induction pre as [|it pre IH]; intros s fuel Hok Hpre Hs.
  - reflexivity.
  - cbn [forallb] in Hok. apply andb_prop in Hok. destruct Hok as [Hit Hok].
    destruct (Hpre it (or_introl eq_refl)) as (H1 & H2 & H3).
    unfold items_bytes. cbn [map concat length plus]. fold (items_bytes pre).
    rewrite <- app_assoc. cbn [globals_loop].
    assert (Ht : tail_ok (items_bytes pre ++ s)).
    { destruct pre as [|it2 pre2]; [exact Hs|].
      unfold items_bytes. cbn [map concat]. rewrite <- app_assoc. apply tail_ok_item.
      cbn [forallb] in Hok. apply andb_prop in Hok. apply item_ok_typ. apply Hok. }
    rewrite (next_record_item it _ Ht). cbn [obind fst snd].
    change (f_typ (item_rec it)) with (i_typ it).
    destruct (i_typ it =? FILEPASS) eqn:E1; [apply N.eqb_eq in E1; contradiction|].
    destruct (i_typ it =? EOF_REC) eqn:E2; [apply N.eqb_eq in E2; contradiction|].
    rewrite H3. cbn [obind].
    apply IH; [exact Hok| |exact Hs]. intros it' Hin. apply Hpre. right. exact Hin.
Qed.

Lemma items_bytes_length : forall its, (length its <= length (items_bytes its))%nat.
Proof.
  induction its as [|it its IH]; [cbn; lia|].
  unfold items_bytes in *. cbn [map concat]. rewrite app_length. unfold item_bytes at 1.
  rewrite app_length. unfold rec_bytes at 1. cbn [length]. lia.
Qed.

(* MAIN (xls, positive): a FILEPASS record of any body — any encryption type, any header —
   after any records the loop passes over, followed by any well-framed records with any bodies
   (the ciphertext), makes the loop return Password *)
Theorem filepass_is_password : forall pre body post,
  forallb item_ok pre = true ->
  (forall it, In it pre ->
     i_typ it <> FILEPASS /\ i_typ it <> EOF_REC /\ interp (item_rec it) = Ok tt) ->
  body_ok body = true -> forallb raw_ok post = true ->
  xls_globals interp (items_bytes pre ++ rec_bytes FILEPASS body ++ raw_bytes post)
  = Err E_PASSWORD.
Proof.
  intros pre body post Hok Hpre _ _. unfold xls_globals.
  set (s := rec_bytes FILEPASS body ++ raw_bytes post).
  assert (Hs : tail_ok s).
  { exists FILEPASS, body, (raw_bytes post). split; [reflexivity|discriminate]. }
  pose proof (items_bytes_length pre) as Hl.
  replace (S (length (items_bytes pre ++ s)))
    with (length pre + S (length (items_bytes pre ++ s) - length pre))%nat
    by (rewrite app_length; lia).
  rewrite (globals_loop_pre pre s _ Hok Hpre Hs).
  cbn [globals_loop]. subst s.
  destruct (next_record_then_raw FILEPASS body post) as (r & rest & Hn & Ht).
  rewrite Hn. cbn [obind fst]. rewrite Ht. reflexivity.
Qed.

(* the same through Xls::new: no VBA storage (or one that loads), the stream found under either
   name *)
Corollary xls_new_filepass_workbook : forall vba book pre body post,
  forallb item_ok pre = true ->
  (forall it, In it pre ->
     i_typ it <> FILEPASS /\ i_typ it <> EOF_REC /\ interp (item_rec it) = Ok tt) ->
  body_ok body = true -> forallb raw_ok post = true ->
  xls_new interp false vba
          (Ok (items_bytes pre ++ rec_bytes FILEPASS body ++ raw_bytes post)) book
  = Err E_PASSWORD.
Proof. intros. unfold xls_new. cbn [obind or_else]. apply filepass_is_password; assumption. Qed.

Corollary xls_new_filepass_book : forall vba e pre body post,
  forallb item_ok pre = true ->
  (forall it, In it pre ->
     i_typ it <> FILEPASS /\ i_typ it <> EOF_REC /\ interp (item_rec it) = Ok tt) ->
  body_ok body = true -> forallb raw_ok post = true ->
  xls_new interp false vba (Err e)
          (Ok (items_bytes pre ++ rec_bytes FILEPASS body ++ raw_bytes post))
  = Err E_PASSWORD.
Proof. intros. unfold xls_new. cbn [obind or_else]. apply filepass_is_password; assumption. Qed.

(* a FILEPASS record behind the EOF record of the globals is not in a legal position: the loop
   has already ended *)
Theorem scan_stops_at_eof : forall pre body post,
  forallb item_ok pre = true ->
  (forall it, In it pre ->
     i_typ it <> FILEPASS /\ i_typ it <> EOF_REC /\ interp (item_rec it) = Ok tt) ->
  xls_globals interp (items_bytes pre ++ rec_bytes EOF_REC body ++ raw_bytes post) = Ok tt.
Proof.
  intros pre body post Hok Hpre. unfold xls_globals.
  set (s := rec_bytes EOF_REC body ++ raw_bytes post).
  assert (Hs : tail_ok s).
  { exists EOF_REC, body, (raw_bytes post). split; [reflexivity|discriminate]. }
  pose proof (items_bytes_length pre) as Hl.
  replace (S (length (items_bytes pre ++ s)))
    with (length pre + S (length (items_bytes pre ++ s) - length pre))%nat
    by (rewrite app_length; lia).
  rewrite (globals_loop_pre pre s _ Hok Hpre Hs).
  cbn [globals_loop]. subst s.
  destruct (next_record_then_raw EOF_REC body post) as (r & rest & Hn & Ht).
  rewrite Hn. cbn [obind fst]. rewrite Ht. reflexivity.
Qed.

(* ---- converse ---- *)
Hypothesis interp_never_password : forall r, interp r <> Err E_PASSWORD.

(* Password can only come from a record that RecordIter reports with type 0x002F *)
Lemma password_only_from_filepass : forall fuel s,
  globals_loop interp fuel s = Err E_PASSWORD ->
  exists s' r rest, next_record s' = Some (Ok (r, rest)) /\ f_typ r = FILEPASS.
Proof.
  induction fuel as [|f IH]; intros s H; [discriminate|].
  cbn [globals_loop] in H. destruct (next_record s) as [o|] eqn:En; [|discriminate].
  destruct o as [[r rest]|e| |]; cbn [obind fst snd] in H; try discriminate.
  - destruct (f_typ r =? FILEPASS) eqn:E1.
    + apply N.eqb_eq in E1. exists s, r, rest. split; assumption.
    + destruct (f_typ r =? EOF_REC); [discriminate|].
      destruct (interp r) as [[]|e| |] eqn:Ei; cbn [obind] in H; try discriminate.
      * apply (IH rest). exact H.
      * exfalso. apply (interp_never_password r). rewrite Ei. exact H.
  - rewrite (next_record_err _ _ En) in H. discriminate.
Qed.

(* MAIN (xls, converse): a globals substream made of records none of which is FILEPASS, closed
   by its EOF record, followed by anything (the sheet substreams), never yields Password —
   whatever the records do to the loop otherwise *)
Theorem no_filepass_no_password : forall items eofbody rest fuel,
  forallb item_ok items = true ->
  (forall it, In it items -> i_typ it <> FILEPASS) ->
  globals_loop interp fuel (items_bytes items ++ rec_bytes EOF_REC eofbody ++ rest)
  <> Err E_PASSWORD.
Proof.
  induction items as [|it items IH]; intros eofbody rest fuel Hok Hno.
  - unfold items_bytes. cbn [map concat app]. destruct fuel as [|f]; [discriminate|].
    cbn [globals_loop].
    destruct (next_record_typ EOF_REC eofbody rest) as (o & Hn & Ht). rewrite Hn.
    destruct o as [[r rest']|e| |]; cbn [obind fst snd]; try discriminate.
    + rewrite (Ht r rest' eq_refl). change (EOF_REC =? FILEPASS) with false.
      rewrite N.eqb_refl. discriminate.
    + rewrite (next_record_err _ _ Hn). discriminate.
  - cbn [forallb] in Hok. apply andb_prop in Hok. destruct Hok as [Hit Hok].
    unfold items_bytes. cbn [map concat]. fold (items_bytes items). rewrite <- app_assoc.
    destruct fuel as [|f]; [discriminate|]. cbn [globals_loop].
    assert (Ht : tail_ok (items_bytes items ++ rec_bytes EOF_REC eofbody ++ rest)).
    { destruct items as [|it2 items2].
      - exists EOF_REC, eofbody, rest. split; [reflexivity|discriminate].
      - unfold items_bytes. cbn [map concat]. rewrite <- app_assoc. apply tail_ok_item.
        cbn [forallb] in Hok. apply andb_prop in Hok. apply item_ok_typ. apply Hok. }
    rewrite (next_record_item it _ Ht). cbn [obind fst snd].
    change (f_typ (item_rec it)) with (i_typ it).
    destruct (i_typ it =? FILEPASS) eqn:E1.
    { apply N.eqb_eq in E1. exfalso. exact (Hno it (or_introl eq_refl) E1). }
    destruct (i_typ it =? EOF_REC); [discriminate|].
    destruct (interp (item_rec it)) as [[]|e| |] eqn:Ei; cbn [obind]; try discriminate.
    + apply IH; [exact Hok|]. intros it' Hin. apply Hno. right. exact Hin.
    + intros H. apply (interp_never_password (item_rec it)). rewrite Ei. exact H.
Qed.
End XlsGlobals.

(* the executable instance never produces Password by itself *)
Lemma interp_real_never_password : forall r, interp_real r <> Err E_PASSWORD.
Proof.
  intros r. unfold interp_real.
  destruct (f_typ r =? 66).
  { destruct (f_data r) as [|a [|b l]]; try discriminate. destruct (existsb _ _); discriminate. }
  destruct (f_typ r =? 34). { destruct (f_data r) as [|a [|b l]]; discriminate. }
  destruct (f_typ r =? 2057). { destruct (f_data r) as [|a [|b l]]; discriminate. }
  destruct (f_typ r =? 224). { destruct (f_data r) as [|a [|b [|c [|d l]]]]; discriminate. }
  destruct (unmodelled_typ (f_typ r)); discriminate.
Qed.

Corollary no_filepass_no_password_real : forall items eofbody rest,
  forallb item_ok items = true ->
  (forall it, In it items -> i_typ it <> FILEPASS) ->
  xls_globals interp_real (items_bytes items ++ rec_bytes EOF_REC eofbody ++ rest)
  <> Err E_PASSWORD.
Proof.
  intros. unfold xls_globals.
  apply no_filepass_no_password; [exact interp_real_never_password|assumption|assumption].
Qed.

(* ================================================================== xls: totality *)
Lemma take_n_length : forall s n d rest, take_n s n = Some (d, rest) ->
  length s = (length d + length rest)%nat.
Proof.
  induction s as [|x s IH]; intros n d rest H; cbn [take_n] in H.
  - destruct (n =? 0); [inversion H; reflexivity|discriminate].
  - destruct (n =? 0); [inversion H; reflexivity|].
    destruct (take_n s (n - 1)) as [[a b]|] eqn:E; [|discriminate].
    inversion H. subst. cbn [length]. rewrite (IH _ _ _ E). reflexivity.
Qed.

Lemma collect_cont_never_panics : forall fuel s acc, collect_cont fuel s acc <> Panic.
Proof.
  induction fuel as [|f IH]; intros s acc; cbn [collect_cont]; [discriminate|].
  destruct s as [|c0 [|c1 [|l0 [|l1 [|x body]]]]]; try discriminate.
  destruct (u16 c0 c1 =? CONTINUE); [|discriminate].
  destruct (take_n (x :: body) (u16 l0 l1)) as [[d r']|]; [apply IH|discriminate].
Qed.

(* fuel strictly above the length of the stream is never exhausted, and what is left over is
   not longer than the stream *)
Lemma collect_cont_fuel : forall fuel s acc, (length s < fuel)%nat ->
  collect_cont fuel s acc <> OutOfFuel /\ forall a rest, collect_cont fuel s acc = Ok (a, rest) -> (length rest <= length s)%nat.
Proof.
  induction fuel as [|f IH]; intros s acc Hl; [lia|]. cbn [collect_cont].
  destruct s as [|c0 [|c1 [|l0 [|l1 [|x body]]]]];
    try (split; [discriminate|intros a rest H; inversion H; subst; lia]).
  destruct (u16 c0 c1 =? CONTINUE);
    [|split; [discriminate|intros a rest H; inversion H; subst; lia]].
  destruct (take_n (x :: body) (u16 l0 l1)) as [[d r']|] eqn:E;
    [|split; [discriminate|intros a rest H; discriminate]].
  pose proof (take_n_length _ _ _ _ E) as Hlen. cbn [length] in *.
  destruct (IH r' (acc ++ [d])) as [H1 H2]; [lia|]. split; [exact H1|].
  intros a rest H. specialize (H2 a rest H). lia.
Qed.

(* RecordIter::next never panics, its internal fuel (the length of what follows the record) is
   never exhausted, and every record consumes at least its four header bytes *)
Lemma next_record_total : forall s o, next_record s = Some o ->
  o <> Panic /\ o <> OutOfFuel /\ forall r rest, o = Ok (r, rest) -> (length rest + 4 <= length s)%nat.
Proof.
  intros s o H. unfold next_record in H.
  destruct s as [|t0 [|t1 [|l0 [|l1 body]]]]; try discriminate;
    try (inversion H; subst; repeat split; try discriminate; intros r rest H'; discriminate).
  destruct (take_n body (u16 l0 l1)) as [[d next]|] eqn:E;
    [|inversion H; subst; repeat split; try discriminate; intros r rest H'; discriminate].
  pose proof (take_n_length _ _ _ _ E) as Hlen. cbn [length].
  destruct (starts_cont next) eqn:Es.
  - inversion H as [Ho]. clear H.
    (* the first turn of the loop consumes at least four bytes: fuel = length next suffices *)
    assert (Hc : collect_cont (length next) next [] <> OutOfFuel /\ forall a rest, collect_cont (length next) next [] = Ok (a, rest) ->
                                (length rest <= length next)%nat).
    { destruct next as [|c0 [|c1 [|l0' [|l1' [|x body']]]]]; try discriminate.
      cbn [length collect_cont]. cbn [starts_cont] in Es. rewrite Es.
      destruct (take_n (x :: body') (u16 l0' l1')) as [[d' r']|] eqn:E';
        [|split; [discriminate|intros a rest H; discriminate]].
      pose proof (take_n_length _ _ _ _ E') as Hlen'. cbn [length] in Hlen'.
      destruct (collect_cont_fuel (S (S (S (S (length body'))))) r' ([] ++ [d'])) as [H1 H2]; [lia|].
      split; [exact H1|]. intros a rest H. specialize (H2 a rest H). lia. }
    destruct Hc as [Hc1 Hc2]. pose proof (collect_cont_never_panics (length next) next []) as Hp.
    destruct (collect_cont (length next) next []) as [[a b]|e| |]; cbn [obind];
      repeat split; try discriminate; try contradiction.
    intros r rest H'. inversion H'. subst. cbn [snd]. specialize (Hc2 a rest eq_refl). lia.
  - inversion H. subst. repeat split; try discriminate.
    intros r rest H'. inversion H'. subst. lia.
Qed.

Section XlsTotal.
Variable interp : frec -> outcome unit.
Hypothesis interp_total : forall r, interp r <> Panic /\ interp r <> OutOfFuel.

Lemma globals_loop_total : forall fuel s, (length s < fuel)%nat ->
  globals_loop interp fuel s <> Panic /\ globals_loop interp fuel s <> OutOfFuel.
Proof.
  induction fuel as [|f IH]; intros s Hl; [lia|]. cbn [globals_loop].
  destruct (next_record s) as [o|] eqn:En; [|split; discriminate].
  destruct (next_record_total s o En) as (Hp & Hf & Hsh).
  destruct o as [[r rest]|e| |]; cbn [obind fst snd]; try (split; discriminate); try contradiction.
  destruct (f_typ r =? FILEPASS); [split; discriminate|].
  destruct (f_typ r =? EOF_REC); [split; discriminate|].
  destruct (interp_total r) as [Hi1 Hi2].
  destruct (interp r) as [[]|e| |]; cbn [obind]; try (split; discriminate); try contradiction.
  apply IH. specialize (Hsh r rest eq_refl). lia.
Qed.

(* MAIN (totality, xls): on ANY bytes the globals loop neither panics nor runs out of the fuel
   xls_globals gives it *)
Theorem xls_globals_total : forall s,
  xls_globals interp s <> Panic /\ xls_globals interp s <> OutOfFuel.
Proof. intros s. unfold xls_globals. apply globals_loop_total. lia. Qed.
End XlsTotal.

Lemma interp_real_total : forall r, interp_real r <> Panic /\ interp_real r <> OutOfFuel.
Proof.
  intros r. unfold interp_real.
  destruct (f_typ r =? 66).
  { destruct (f_data r) as [|a [|b l]]; try (split; discriminate).
    destruct (existsb _ _); split; discriminate. }
  destruct (f_typ r =? 34). { destruct (f_data r) as [|a [|b l]]; split; discriminate. }
  destruct (f_typ r =? 2057). { destruct (f_data r) as [|a [|b l]]; split; discriminate. }
  destruct (f_typ r =? 224). { destruct (f_data r) as [|a [|b [|c [|d l]]]]; split; discriminate. }
  destruct (unmodelled_typ (f_typ r)); split; discriminate.
Qed.

Corollary xls_globals_real_total : forall s,
  xls_globals interp_real s <> Panic /\ xls_globals interp_real s <> OutOfFuel.
Proof. exact (xls_globals_total interp_real interp_real_total). Qed.

(* ================================================================== ods manifest *)
Lemma str_eqb_refl : forall a, str_eqb a a = true.
Proof.
  intros a. unfold str_eqb. rewrite Nat.eqb_refl. cbn [andb].
  induction a as [|x a IH]; cbn; [reflexivity|]. rewrite N.eqb_refl. exact IH.
Qed.

Lemma after_colon_free : forall l, colon_free l = true -> after_colon l = None.
Proof.
  induction l as [|c l IH]; intros H; [reflexivity|].
  cbn [colon_free forallb] in H. apply andb_prop in H. destruct H as [Hc Hl].
  cbn [after_colon]. apply negb_true_iff in Hc. rewrite Hc. apply IH. exact Hl.
Qed.

Lemma after_colon_prefix : forall p l, colon_free p = true ->
  after_colon (p ++ COLON :: l) = Some l.
Proof.
  induction p as [|c p IH]; intros l H.
  - cbn [app after_colon]. rewrite N.eqb_refl. reflexivity.
  - cbn [colon_free forallb] in H. apply andb_prop in H. destruct H as [Hc Hp].
    cbn [app after_colon]. apply negb_true_iff in Hc. rewrite Hc. apply IH. exact Hp.
Qed.

(* any prefix spelling — or none — leaves the local name *)
Lemma local_name_qn : forall p l, prefix_ok p = true -> colon_free l = true ->
  local_name (qn p l) = l.
Proof.
  intros [p|] l Hp Hl; unfold local_name, qn.
  - rewrite after_colon_prefix; [reflexivity|exact Hp].
  - rewrite after_colon_free; [reflexivity|exact Hl].
Qed.

Lemma FE_colon_free : colon_free FILE_ENTRY = true. Proof. reflexivity. Qed.
Lemma ED_colon_free : colon_free ENCRYPTION_DATA = true. Proof. reflexivity. Qed.
Lemma MF_colon_free : colon_free MANIFEST = true. Proof. reflexivity. Qed.

Definition seq (o k : outcome unit) : outcome unit := match o with Ok _ => k | _ => o end.

Lemma inner_scan_app : forall a b, inner_scan (a ++ b) = seq (inner_scan a) (inner_scan b).
Proof.
  induction a as [|e a IH]; intros b; cbn [app inner_scan]; [reflexivity|].
  destruct e as [q|q| |]; try apply IH; [|reflexivity].
  destruct (str_eqb (local_name q) ENCRYPTION_DATA); [reflexivity|apply IH].
Qed.

Lemma inner_scan_neutral_elems : forall ns, forallb neutral_name ns = true ->
  inner_scan (concat (map render_elem ns)) = Ok tt.
Proof.
  induction ns as [|n ns IH]; cbn [map concat forallb]; [reflexivity|].
  intros H. apply andb_prop in H. destruct H as [Hn Hns].
  unfold render_elem at 1. cbn [app inner_scan].
  unfold neutral_name in Hn. apply andb_prop in Hn. destruct Hn as [_ Hn].
  apply negb_true_iff in Hn. rewrite Hn. apply IH. exact Hns.
Qed.

Lemma FE_not_ED : str_eqb FILE_ENTRY ENCRYPTION_DATA = false.
Proof. reflexivity. Qed.

Lemma entry_ok_parts : forall e, entry_ok e = true ->
  prefix_ok (e_prefix e) = true /\ prefix_ok (e_enc_prefix e) = true /\
  forallb neutral_name (e_children_before e) = true /\
  forallb neutral_name (e_algo_children e) = true.
Proof.
  intros e H. unfold entry_ok in H. repeat (apply andb_prop in H; destruct H as [H ?]).
  repeat split; assumption.
Qed.

(* one entry under the inner scan *)
Lemma inner_scan_entry : forall e rest, entry_ok e = true ->
  inner_scan (render_entry e ++ rest) = if e_encrypted e then Err E_PASSWORD else inner_scan rest.
Proof.
  intros e rest He. destruct (entry_ok_parts e He) as (Hp & Hq & Hb & Ha).
  unfold render_entry. rewrite <- !app_assoc. cbn [app inner_scan].
  rewrite (local_name_qn _ _ Hp FE_colon_free), FE_not_ED.
  rewrite inner_scan_app, (inner_scan_neutral_elems _ Hb). cbn [seq].
  destruct (e_encrypted e); cbn [app inner_scan].
  - rewrite (local_name_qn _ _ Hq ED_colon_free), str_eqb_refl. reflexivity.
  - reflexivity.
Qed.

Lemma inner_scan_entries : forall es rest, forallb entry_ok es = true ->
  inner_scan (concat (map (fun e => MOther :: render_entry e) es) ++ rest)
  = if existsb e_encrypted es then Err E_PASSWORD else inner_scan rest.
Proof.
  induction es as [|e es IH]; intros rest H; cbn [map concat forallb existsb app]; [reflexivity|].
  apply andb_prop in H. destruct H as [He Hes].
  cbn [inner_scan]. rewrite <- app_assoc, (inner_scan_entry _ _ He), (IH _ Hes).
  destruct (e_encrypted e); reflexivity.
Qed.

(* one entry under the outer scan: from its start tag on, the inner loop takes over *)
Lemma manifest_scan_entry : forall e rest, entry_ok e = true ->
  manifest_scan (render_entry e ++ rest)
  = if e_encrypted e then Err E_PASSWORD else inner_scan rest.
Proof.
  intros e rest He. pose proof (inner_scan_entry e rest He) as Hi.
  destruct (entry_ok_parts e He) as (Hp & _).
  unfold render_entry in *. rewrite <- !app_assoc in *. cbn [app manifest_scan inner_scan] in *.
  rewrite (local_name_qn _ _ Hp FE_colon_free) in *. rewrite str_eqb_refl.
  rewrite FE_not_ED in Hi. exact Hi.
Qed.

(* MAIN (ods, structured): Password iff some entry declares encryption data, for any number of
   entries, any prefix spelling on every element *)
Theorem manifest_scan_spec : forall rp es,
  prefix_ok rp = true -> forallb entry_ok es = true ->
  manifest_scan (render_manifest rp es) = spec_ods es.
Proof.
  intros rp es Hrp H. unfold render_manifest, spec_ods, declares_encryption.
  cbn [app manifest_scan]. rewrite (local_name_qn _ _ Hrp MF_colon_free).
  change (str_eqb MANIFEST FILE_ENTRY) with false. cbn iota.
  destruct es as [|e es]; cbn [map concat forallb existsb app manifest_scan].
  - reflexivity.
  - apply andb_prop in H. destruct H as [He Hes].
    rewrite <- app_assoc, (manifest_scan_entry _ _ He), (inner_scan_entries es _ Hes).
    cbn [inner_scan]. destruct (e_encrypted e); reflexivity.
Qed.

Corollary ods_new_spec : forall m rp es,
  (46 <= length m)%nat -> firstn 46 m = MIMETYPE ->
  prefix_ok rp = true -> forallb entry_ok es = true ->
  ods_new (Some m) (Some (render_manifest rp es)) = spec_ods es.
Proof.
  intros m rp es Hl Hm Hrp H. unfold ods_new.
  destruct (length m <? 46)%nat eqn:E; [apply Nat.ltb_lt in E; lia|].
  rewrite Hm, str_eqb_refl. cbn [negb]. apply manifest_scan_spec; assumption.
Qed.

(* MAIN (ods, event level): an encryption-data start tag — under any prefix — anywhere after a
   file-entry start tag — under any prefix —, among any other events the reader accepts, is
   reported as Password *)
Definition no_err (evs : list mevent) : Prop := ~ In MErr evs.

Lemma inner_scan_finds : forall b q c, no_err b ->
  str_eqb (local_name q) ENCRYPTION_DATA = true ->
  inner_scan (b ++ MStart q :: c) = Err E_PASSWORD.
Proof.
  induction b as [|e b IH]; intros q c Hb Hq; cbn [app inner_scan].
  - rewrite Hq. reflexivity.
  - assert (Hb' : no_err b) by (intros Hin; apply Hb; right; exact Hin).
    destruct e as [q'|q'| |].
    + destruct (str_eqb (local_name q') ENCRYPTION_DATA); [reflexivity|]. apply IH; assumption.
    + apply IH; assumption.
    + apply IH; assumption.
    + exfalso. apply Hb. left. reflexivity.
Qed.

Theorem encryption_data_is_password : forall a q1 b q2 c,
  no_err a -> no_err b ->
  str_eqb (local_name q1) FILE_ENTRY = true ->
  str_eqb (local_name q2) ENCRYPTION_DATA = true ->
  manifest_scan (a ++ MStart q1 :: b ++ MStart q2 :: c) = Err E_PASSWORD.
Proof.
  induction a as [|e a IH]; intros q1 b q2 c Ha Hb H1 H2; cbn [app manifest_scan].
  - rewrite H1. apply inner_scan_finds; assumption.
  - assert (Ha' : no_err a) by (intros Hin; apply Ha; right; exact Hin).
    destruct e as [q'|q'| |].
    + destruct (str_eqb (local_name q') FILE_ENTRY).
      * replace (a ++ MStart q1 :: b ++ MStart q2 :: c)
          with ((a ++ MStart q1 :: b) ++ MStart q2 :: c)
          by (rewrite <- app_assoc; reflexivity).
        apply inner_scan_finds; [|exact H2].
        intros Hin. apply in_app_or in Hin. destruct Hin as [Hin|Hin]; [exact (Ha' Hin)|].
        destruct Hin as [Hin|Hin]; [discriminate|exact (Hb Hin)].
      * apply IH; assumption.
    + apply IH; assumption.
    + apply IH; assumption.
    + exfalso. apply Ha. left. reflexivity.
Qed.

(* MAIN (ods, converse): an event list without an encryption-data start tag is never reported,
   whatever else it holds *)
Theorem no_encryption_data_no_password : forall evs,
  (forall q, In (MStart q) evs -> str_eqb (local_name q) ENCRYPTION_DATA = false) ->
  manifest_scan evs <> Err E_PASSWORD.
Proof.
  assert (Hin : forall evs,
             (forall q, In (MStart q) evs -> str_eqb (local_name q) ENCRYPTION_DATA = false) ->
             inner_scan evs <> Err E_PASSWORD).
  { induction evs as [|e evs IH]; intros H; cbn [inner_scan]; [discriminate|].
    destruct e as [q|q| |]; try (apply IH; intros m Hm; apply H; right; exact Hm);
      [|discriminate].
    rewrite (H q (or_introl eq_refl)). apply IH. intros m Hm. apply H. right; exact Hm. }
  induction evs as [|e evs IH]; intros H; cbn [manifest_scan]; [discriminate|].
  destruct e as [q|q| |]; try (apply IH; intros m Hm; apply H; right; exact Hm);
    [|discriminate].
  destruct (str_eqb (local_name q) FILE_ENTRY).
  - apply Hin. intros m Hm. apply H. right; exact Hm.
  - apply IH. intros m Hm. apply H. right; exact Hm.
Qed.

Corollary ods_new_no_false_positive : forall mt mf,
  (forall evs, mf = Some evs ->
     forall q, In (MStart q) evs -> str_eqb (local_name q) ENCRYPTION_DATA = false) ->
  ods_new mt mf <> Err E_PASSWORD.
Proof.
  intros mt mf H. unfold ods_new. destruct mt as [m|]; [|discriminate].
  destruct (length m <? 46)%nat; [discriminate|].
  destruct (negb (str_eqb (firstn 46 m) MIMETYPE)); [discriminate|].
  destruct mf as [evs|]; [|discriminate].
  apply no_encryption_data_no_password. apply H. reflexivity.
Qed.

(* MAIN (totality, ods): the manifest scan and the gate in front of it never panic, on any
   mimetype bytes and any event list (they have no fuel) *)
Theorem manifest_scan_total : forall evs,
  manifest_scan evs <> Panic /\ manifest_scan evs <> OutOfFuel.
Proof.
  assert (Hin : forall evs, inner_scan evs <> Panic /\ inner_scan evs <> OutOfFuel).
  { induction evs as [|e evs IH]; cbn [inner_scan]; [split; discriminate|].
    destruct e as [q|q| |]; try exact IH; [|split; discriminate].
    destruct (str_eqb (local_name q) ENCRYPTION_DATA); [split; discriminate|exact IH]. }
  induction evs as [|e evs IH]; cbn [manifest_scan]; [split; discriminate|].
  destruct e as [q|q| |]; try exact IH; [|split; discriminate].
  destruct (str_eqb (local_name q) FILE_ENTRY); [apply Hin|exact IH].
Qed.

Theorem ods_new_total : forall mt mf, ods_new mt mf <> Panic /\ ods_new mt mf <> OutOfFuel.
Proof.
  intros mt mf. unfold ods_new. destruct mt as [m|]; [|split; discriminate].
  destruct (length m <? 46)%nat; [split; discriminate|].
  destruct (negb (str_eqb (firstn 46 m) MIMETYPE)); [split; discriminate|].
  destruct mf as [evs|]; [apply manifest_scan_total|split; discriminate].
Qed.
