(* SharedFmla — xlsx shared formulas (property C15).  Definitions only: model and spec (no known
   class is left).  Proofs are in SharedFmla_proofs.v.

   Modelled Rust functions (/repo after the fix: commits 7595189 0817afa 2d75670 and the two
   commits of branch c15-fixes: 3-D sheet prefix look-ahead, offset_whole_range):
     src/xlsx/mod.rs           replace_cell_names, offset_cell_name, offset_whole_range,
                               is_formula_word_char
                               (column_number_to_name is modelled in Col26.v, written by agent c14)
     src/xlsx/mod.rs           get_row_and_optional_column, get_row_column, get_dimension as of the
                               C06 hardening (u64 saturating accumulators, u32::try_from -> Err,
                               saturating_sub in get_dimension): modelled in Col26.v (resynced)
     src/lib.rs                Dimensions::contains
     src/xlsx/cells_reader.rs  next_formula: the shared-formula part (the `formulas` map keyed by
                               si, a group = master text + declared ref + master position, the
                               lookup for member cells with the offset computed at lookup time)
     src/xlsx/mod.rs           worksheet_formula: the filter on empty strings (Range::from_sparse is
                               Range.v)
   A formula text (Rust `&str` / `Vec<char>` / `String`) is a [list N] of Unicode scalar values,
   on input and on output.

   char::is_alphanumeric is Unicode-aware (Alphabetic or Numeric, tables of the Rust standard
   library).  It is NOT modelled: it is the Section variable [is_alnum], an oracle about which
   the proofs assume only its values on ASCII ([ascii_alnum], hypothesis of the theorems).  The
   OCaml driver instantiates it, per case, with the ASCII definition plus the list of non-ASCII
   alphanumeric scalars that the Python driver obtained from the Rust harness
   (`sharedfmla alnum`, i.e. from char::is_alphanumeric itself).

   The harness is built with overflow checks, so i64 arithmetic that overflows is [Panic]
   (a release build wraps instead). *)
From Calamine Require Import Prelude Col26.
Open Scope N_scope.
Set Implicit Arguments.

(* ------------------------------------------------------------------ characters *)
Definition ch_dquote : N := 34.     (* dquote *)
Definition ch_apos : N := 39.       (* ''' *)
Definition ch_bang : N := 33.       (* '!' *)
Definition ch_lparen : N := 40.     (* '(' *)
Definition ch_dot : N := 46.
Definition ch_E : N := 69.
Definition ch_plus : N := 43.
Definition ch_minus : N := 45.
Definition ch_lbrack : N := 91.     (* '[' *)
Definition ch_rbrack : N := 93.     (* ']' *)
Definition ch_uscore : N := 95.     (* '_' *)
Definition ch_bslash : N := 92.     (* '\' *)
Definition ch_qmark : N := 63.      (* '?' *)

(* char::is_ascii_alphabetic / to_ascii_uppercase; is_digit (= is_ascii_digit) is in Col26 *)
Definition is_alpha (c : N) : bool := is_upper c || is_lower c.
Definition ascii_alnum (c : N) : bool := is_alpha c || is_digit c.
Definition to_upper (c : N) : N := if is_lower c then c - 32 else c.
Definition is_nil (l : list N) : bool := match l with [] => true | _ => false end.
Definition nonempty (l : list N) : bool := negb (is_nil l).

(* the longest prefix whose characters satisfy p, and the rest *)
Fixpoint span (p : N -> bool) (l : list N) : list N * list N :=
  match l with
  | c :: t => if p c then (let ar := span p t in (c :: fst ar, snd ar)) else ([], l)
  | [] => ([], [])
  end.

(* ------------------------------------------------------------------ i64 *)
Definition I64MIN : Z := (-9223372036854775808)%Z.
Definition I64MAX : Z := 9223372036854775807%Z.
Definition add_i64 (a b : Z) : outcome Z :=          (* i64 + with overflow checks *)
  let s := (a + b)%Z in
  if ((I64MIN <=? s) && (s <=? I64MAX))%Z then Ok s else Panic.
Definition as_u32 (z : Z) : N := Z.to_N (z mod 4294967296)%Z.   (* `as u32` of an i64 *)
(* i64::to_string *)
Definition i64_to_string (z : Z) : list N :=
  if (z <? 0)%Z then ch_minus :: dec (Z.to_N (- z)) else dec (Z.to_N z).

(* ------------------------------------------------------------------ MODEL: offset_cell_name *)
(*  while i < name.len() && name[i].is_ascii_alphabetic() {
        if i - letters >= 3 { return None; }
        col = col * 26 + (name[i].to_ascii_uppercase() as i64 - 'A' as i64 + 1);  i += 1; }
   [l] is name[i..], [k] is i - letters.  Result: None = `return None`, else (i - letters, col,
   name[i..]) at loop exit.  At most 3 iterations accumulate, so the i64 arithmetic cannot
   overflow (col <= 18278). *)
Fixpoint ocn_letters (l : list N) (k : nat) (col : Z) : option (nat * Z * list N) :=
  match l with
  | c :: t =>
      if is_alpha c then
        if (3 <=? k)%nat then None
        else ocn_letters t (S k) (col * 26 + (Z.of_N (to_upper c) - 65 + 1))%Z
      else Some (k, col, l)
  | [] => Some (k, col, l)
  end.

(*  while i < name.len() && name[i].is_ascii_digit() {
        if i - digits >= 7 { return None; }
        row = row * 10 + (name[i] as i64 - '0' as i64);  i += 1; }      (row <= 9999999) *)
Fixpoint ocn_digits (l : list N) (k : nat) (row : Z) : option (nat * Z * list N) :=
  match l with
  | c :: t =>
      if is_digit c then
        if (7 <=? k)%nat then None
        else ocn_digits t (S k) (row * 10 + (Z.of_N c - 48))%Z
      else Some (k, row, l)
  | [] => Some (k, row, l)
  end.

Definition starts_dollar (l : list N) : bool :=
  match l with c :: _ => c =? ch_dollar | [] => false end.

Definition ZROWS : Z := 1048576%Z.      (* MAX_ROWS as i64 *)
Definition ZCOLS : Z := 16384%Z.        (* MAX_COLUMNS as i64 *)

(* First half of offset_cell_name, up to `if row >= MAX_ROWS as i64 || col >= MAX_COLUMNS as i64`:
   the part that does not look at the offset.  Some (col_abs, col, row_abs, row) with the 0-based
   position, or None where the function returns None.  Index sites: name[i] under i < len;
   name[digits] is evaluated only when i != digits, i.e. digits < len: none can panic. *)
Definition ocn_parse (name : list N) : option (bool * Z * bool * Z) :=
  let col_abs := starts_dollar name in                       (* name.first() == Some(&'$') *)
  let l0 := if col_abs then tl name else name in
  match ocn_letters l0 0 0 with
  | None => None
  | Some (nl, col, l1) =>
    if (nl =? 0)%nat then None else                          (* if i == letters *)
    let row_abs := starts_dollar l1 in                       (* name.get(i) == Some(&'$') *)
    let l2 := if row_abs then tl l1 else l1 in
    match ocn_digits l2 0 0 with
    | None => None
    | Some (nd, row, l3) =>
      (* if i == digits || i != name.len() || name[digits] == '0' *)
      if (nd =? 0)%nat || negb (is_nil l3) || (hd 0 l2 =? ch_0) then None else
      let row := (row - 1)%Z in let col := (col - 1)%Z in
      if ((ZROWS <=? row) || (ZCOLS <=? col))%Z then None
      else Some (col_abs, col, row_abs, row)
    end
  end.

(* Second half: apply the offset (row first, then column: the order of the two `let`s), reject a
   result outside the sheet, render.  `row + offset.0` is i64 arithmetic: Panic on overflow. *)
Definition in_sheet (row col : Z) : bool :=
  ((0 <=? row) && (row <? ZROWS) && (0 <=? col) && (col <? ZCOLS))%Z.
Definition ocn_apply (p : bool * Z * bool * Z) (off : Z * Z) : outcome (option (list N)) :=
  let '(col_abs, col, row_abs, row) := p in
  do row' <- (if row_abs then Ok row else add_i64 row (fst off));
  do col' <- (if col_abs then Ok col else add_i64 col (snd off));
  if negb (in_sheet row' col') then Ok None else
  match column_number_to_name (as_u32 col') with          (* .ok()? *)
  | Ok cs =>
      Ok (Some ((if col_abs then [ch_dollar] else []) ++ cs ++
                (if row_abs then [ch_dollar] else []) ++ i64_to_string (row' + 1)))
  | Err _ => Ok None
  | Panic => Panic
  | OutOfFuel => OutOfFuel
  end.

Definition offset_cell_name (name : list N) (off : Z * Z) : outcome (option (list N)) :=
  match ocn_parse name with
  | None => Ok None
  | Some p => ocn_apply p off
  end.

(* ------------------------------------------------------------------ MODEL: offset_whole_range *)
(*  fn end(word) -> Option<(bool, bool, i64)>   (is a column, has a `$`, 0-based index)
      let abs = word.first() == Some(&'$');  let body = if abs { &word[1..] } else { word };
      if body.is_empty() { None }
      else if body.len() <= 3 && body.iter().all(|c| c.is_ascii_alphabetic()) { col = fold .. - 1;
              if col < MAX_COLUMNS as i64 { Some((true, abs, col)) } else { None } }
      else if body.len() <= 7 && body[0] != '0' && body.iter().all(|c| c.is_ascii_digit()) { row = fold .. - 1;
              if row < MAX_ROWS as i64 { Some((false, abs, row)) } else { None } }
      else { None }
   The folds run over at most 3 / 7 characters: no i64 overflow; body[0] under a non-empty body. *)
Definition owr_end (w : list N) : option (bool * bool * Z) :=
  let abs := starts_dollar w in
  let body := if abs then tl w else w in
  if is_nil body then None
  else if (length body <=? 3)%nat && forallb is_alpha body then
    let col := (fold_left (fun a c => a * 26 + (Z.of_N (to_upper c) - 65 + 1)) body 0 - 1)%Z in
    if (col <? ZCOLS)%Z then Some (true, abs, col) else None
  else if (length body <=? 7)%nat && negb (hd 0 body =? ch_0) && forallb is_digit body then
    let row := (fold_left (fun a c => a * 10 + (Z.of_N c - 48)) body 0 - 1)%Z in
    if (row <? ZROWS)%Z then Some (false, abs, row) else None
  else None.

Definition checked_add_i64 (a b : Z) : option Z :=          (* i64::checked_add *)
  let s := (a + b)%Z in
  if ((I64MIN <=? s) && (s <=? I64MAX))%Z then Some s else None.

(* one iteration of `for (k, (_, abs, index)) in [a, b]`: the text pushed for that end, or
   None where the function returns None *)
Definition owr_one (is_col abs : bool) (index delta max : Z) : outcome (option (list N)) :=
  match (if abs then Some index else checked_add_i64 index delta) with
  | None => Ok None                                         (* checked_add(delta)? *)
  | Some i =>
    if negb ((0 <=? i) && (i <? max))%Z then Ok None else
    do body <- (if is_col then
                  match column_number_to_name (as_u32 i) with      (* .ok()? *)
                  | Ok cs => Ok (Some cs)
                  | Err _ => Ok None
                  | Panic => Panic
                  | OutOfFuel => OutOfFuel
                  end
                else Ok (Some (i64_to_string (i + 1))));
    Ok (match body with
        | Some b => Some ((if abs then [ch_dollar] else []) ++ b)
        | None => None
        end)
  end.

Definition offset_whole_range (first second : list N) (off : Z * Z) : outcome (option (list N)) :=
  match owr_end first, owr_end second with
  | Some (k1, a1, i1), Some (k2, a2, i2) =>
      if negb (Bool.eqb k1 k2) then Ok None else
      let delta := if k1 then snd off else fst off in
      let max := if k1 then ZCOLS else ZROWS in
      do e1 <- owr_one k1 a1 i1 delta max;
      match e1 with
      | None => Ok None
      | Some t1 =>
          do e2 <- owr_one k1 a2 i2 delta max;
          Ok (match e2 with None => None | Some t2 => Some (t1 ++ [ch_colon] ++ t2) end)
      end
  | _, _ => Ok None
  end.

(* ------------------------------------------------------------------ MODEL: replace_cell_names *)
(*  res.push(c); i += 1;
    while i < chars.len() { res.push(chars[i]); i += 1; if chars[i - 1] == c { break; } }
   [l] is chars[i..] after the opening quote; result (pushed, chars[i..] at exit) *)
Fixpoint scan_quote (q : N) (l : list N) : list N * list N :=
  match l with
  | [] => ([], [])
  | x :: t => if x =? q then ([x], t) else (let ar := scan_quote q t in (x :: fst ar, snd ar))
  end.

(*  let mut depth = 0usize;
    while i < chars.len() {
        match chars[i] { '[' => depth += 1, ']' => depth -= 1, _ => () }
        res.push(chars[i]); i += 1;
        if depth == 0 { break; } }
   `depth -= 1` on a usize 0 would panic; `depth += 1` cannot overflow (depth <= length). *)
Fixpoint scan_bracket (l : list N) (depth : N) : outcome (list N * list N) :=
  match l with
  | [] => Ok ([], [])
  | x :: t =>
      do d <- (if x =? ch_lbrack then Ok (depth + 1)
               else if x =? ch_rbrack then (if depth =? 0 then Panic else Ok (depth - 1))
               else Ok depth);
      if d =? 0 then Ok ([x], t)
      else do r <- scan_bracket t d; Ok (x :: fst r, snd r)
  end.

(* ------------------------------------------------------------------ MODEL: get_row_column, get_dimension *)
(* get_row_and_optional_column / get_row_column / get_dimension as of the C06 hardening (u64
   saturating accumulators, u32::try_from -> Err, an inverted range "B2:A1" returned as it stands)
   are Col26.get_row_and_optional_column / Col26.get_row_column / Col26.get_dimension: Col26.v was
   resynced to that code, so the local copy (sf_...) that stood here is gone. *)

Section Model.
(* char::is_alphanumeric — an oracle, see the header *)
Variable is_alnum : N -> bool.

(*  c.is_alphanumeric() || matches!(c, '_' | '.' | '$' | '\\' | '?') *)
Definition is_formula_word_char (c : N) : bool :=
  is_alnum c || (c =? ch_uscore) || (c =? ch_dot) || (c =? ch_dollar) || (c =? ch_bslash) ||
  (c =? ch_qmark).

(* the word branch of the loop body: [word] = chars[start..i], [r] = chars[i..];
   (text pushed on res, chars[i..] after the iteration) *)
Definition word_step (off : Z * Z) (word r : list N) : outcome (list N * list N) :=
  (*  let mut j = i; if chars.get(i) == Some(&':') { j = i + 1; while .. word char .. { j += 1 } }
      let second = if j > i { &chars[i + 1..j] } else { &[] };   sr = (second, chars[j..]) *)
  let sr := match r with
            | x :: r' => if x =? ch_colon then span is_formula_word_char r' else ([], r)
            | [] => ([], r)
            end in
  let second := fst sr in
  let r2 := snd sr in
  (*  match chars.get(j) { _ if second.is_empty() => None, Some('(') | Some('!') => None,
                           _ => offset_whole_range(word, second, offset) } *)
  do whole <- (if is_nil second then Ok None
               else match r2 with
                    | x :: _ => if (x =? ch_lparen) || (x =? ch_bang) then Ok None
                                else offset_whole_range word second off
                    | [] => offset_whole_range word second off
                    end);
  match whole with
  | Some range => Ok (range, r2)                       (* res.push_str(&range); i = j; continue *)
  | None =>
    (*  match chars.get(i) { Some('(') | Some('!') => None,
                             Some(':') if !second.is_empty() && chars.get(j) == Some(&'!') => None,
                             _ => offset_cell_name(word, offset) } *)
    do translated <- (match r with
                      | x :: _ =>
                          if (x =? ch_lparen) || (x =? ch_bang) then Ok None
                          else if (x =? ch_colon) && nonempty second &&
                                  (match r2 with y :: _ => y =? ch_bang | [] => false end)
                               then Ok None
                          else offset_cell_name word off
                      | [] => offset_cell_name word off
                      end);
    Ok (match translated with Some name => name | None => word end, r)
  end.

(* one iteration of `while i < chars.len()` with c = chars[i], t = chars[i+1..]:
   (text pushed on res, chars[i..] after the iteration) *)
Definition rcn_step (off : Z * Z) (c : N) (t : list N) : outcome (list N * list N) :=
  if (c =? ch_dquote) || (c =? ch_apos) then
    let ar := scan_quote c t in Ok (c :: fst ar, snd ar)
  else if c =? ch_lbrack then scan_bracket (c :: t) 0
  else if is_formula_word_char c then
    let wr := span is_formula_word_char (c :: t) in
    word_step off (fst wr) (snd wr)
  else Ok ([c], t).

(* the outer loop; one unit of fuel per iteration, every iteration consumes at least one char *)
Fixpoint rcn_loop (fuel : nat) (off : Z * Z) (l : list N) (res : list N) : outcome (list N) :=
  match fuel with
  | O => OutOfFuel
  | S f =>
    match l with
    | [] => Ok res
    | c :: t => do er <- rcn_step off c t; rcn_loop f off (snd er) (res ++ fst er)
    end
  end.

(* fuel: length + 1 always suffices (rcn_fuel_enough in the proofs) *)
Definition replace_cell_names (s : list N) (off : Z * Z) : outcome (list N) :=
  rcn_loop (S (length s)) off s [].

(* ------------------------------------------------------------------ MODEL: next_formula (shared part) *)
(* Dimensions::contains *)
Definition contains (d : (N * N) * (N * N)) (p : N * N) : bool :=
  (fst (fst d) <=? fst p) && (fst p <=? fst (snd d)) &&
  (snd (fst d) <=? snd p) && (snd p <=? snd (snd d)).

(* HashMap<usize, (String, (Dimensions, (u32, u32)))>: an association list, newest binding
   first; `insert` = cons, `get` = first match (observationally the same as replacing) *)
Definition group_entry := (list N * (((N * N) * (N * N)) * (N * N)))%type.
Definition fmap := list (N * group_entry).
Fixpoint fm_get (m : fmap) (si : N) : option group_entry :=
  match m with
  | [] => None
  | (k, v) :: t => if k =? si then Some v else fm_get t si
  end.
Definition fm_insert (m : fmap) (si : N) (v : group_entry) : fmap := (si, v) :: m.

(* what the <f> element of a cell looks like *)
Inductive fkind :=
| FNone                                            (* no <f> *)
| FPlain (f : list N)                              (* <f>text</f> *)
| FMaster (si : N) (ref : list N) (f : list N)     (* <f t=shared ref=.. si=..>text</f> *)
| FMember (si : N) (own : list N)                  (* <f t=shared si=..>own</f>, own usually empty *)
| FSharedBad.                                      (* t=shared without a numeric si *)

Definition E_SI : N := 11.
(* one <c> element: (formulas map afterwards, the String reported for the cell) *)
Definition cell_step (fs : fmap) (pos : N * N) (k : fkind) : outcome (fmap * list N) :=
  match k with
  | FNone => Ok (fs, [])
  | FPlain f => Ok (fs, f)
  | FSharedBad => Err E_SI
  | FMaster si ref f =>
      do d <- get_dimension ref;                    (* errors propagate; an inverted ref is kept:
                                                       it contains no cell *)
      Ok (fm_insert fs si (f, (d, pos)), f)
  | FMember si own =>
      match fm_get fs si with
      | Some (f, (dims, master)) =>
          if contains dims pos then
            (* pos.0 as i64 - master.0 as i64: both are u32, no overflow *)
            let off := ((Z.of_N (fst pos) - Z.of_N (fst master))%Z,
                        (Z.of_N (snd pos) - Z.of_N (snd master))%Z) in
            do v <- replace_cell_names f off; Ok (fs, v)
          else Ok (fs, own)
      | None => Ok (fs, own)
      end
  end.

Definition fcell := ((N * N) * fkind)%type.
Fixpoint run_cells (fs : fmap) (cells : list fcell) : outcome (list ((N * N) * list N)) :=
  match cells with
  | [] => Ok []
  | (pos, k) :: t =>
      do r <- cell_step fs pos k;
      do rest <- run_cells (fst r) t;
      Ok ((pos, snd r) :: rest)
  end.

(* worksheet_formula: every cell in document order, then `if !cell.val.is_empty()` *)
Definition sheet_formulas (cells : list fcell) : outcome (list ((N * N) * list N)) :=
  do vs <- run_cells [] cells;
  Ok (filter (fun pv => nonempty (snd pv)) vs).
End Model.

(* ------------------------------------------------------------------ SPEC: token grammar *)
(* A formula is a list of tokens.  An area is [TRef; TSym ':'; TRef]; a sheet-qualified
   reference is [TSheet ..; TRef ..]; a function call is [TFunc name; args…; TSym ')'] (the
   opening parenthesis belongs to TFunc); multi-character operators are sequences of TSym;
   a structured reference is [TName table; TBrack ..], an external one [TBrack "[1]"; TSheet ..]. *)
Inductive token :=
| TRef (cabs : bool) (col : N) (rabs : bool) (row : N)   (* 0-based column / row, $ flags *)
| TColRange (a1 : bool) (c1 : N) (a2 : bool) (c2 : N)    (* whole columns  A:B  $A:$B *)
| TRowRange (a1 : bool) (r1 : N) (a2 : bool) (r2 : N)    (* whole rows     1:3  $1:$3 *)
| TSheet (quoted : bool) (name : list N)                 (* Sheet1!   'My sheet'!  *)
| TSheetRange (n1 n2 : list N)                           (* Sheet1:Sheet3!  (unquoted 3-D prefix) *)
| TFunc (name : list N)                                  (* SUM(  LOG10(  _xlfn.STDEV.S( *)
| TName (name : list N)                                  (* defined name, table name, TRUE, FALSE *)
| TNum (ip : list N) (fp : option (list N)) (ex : option (option bool * list N))
                                                         (* 12  1.5  1E+20  2.5E-3  1E5 *)
| TStr (s : list N)                                      (* text with  doubled *)
| TBrack (s : list N)                                    (* [..] with balanced brackets, verbatim *)
| TSym (c : N)                                           (* operator or punctuation character *)
| TErr (k : N).                                          (* #REF! … *)

Definition error_texts : list (list N) :=
  [ [35;78;85;76;76;33]            (* #NULL! *)
  ; [35;68;73;86;47;48;33]         (* #DIV/0! *)
  ; [35;86;65;76;85;69;33]         (* #VALUE! *)
  ; [35;82;69;70;33]               (* #REF! *)
  ; [35;78;65;77;69;63]            (* #NAME? *)
  ; [35;78;85;77;33]               (* #NUM! *)
  ; [35;78;47;65] ].               (* #N/A *)

(* doubling of a delimiter character inside a quoted item *)
Fixpoint double_ch (q : N) (s : list N) : list N :=
  match s with
  | [] => []
  | c :: t => if c =? q then q :: q :: double_ch q t else c :: double_ch q t
  end.

Definition render_ref (ca : bool) (c : N) (ra : bool) (r : N) : list N :=
  a1_ref r c (negb ra) (negb ca).      (* Col26: [$]letters[$]digits *)
Definition dollar (a : bool) : list N := if a then [ch_dollar] else [].

Definition render (t : token) : list N :=
  match t with
  | TRef ca c ra r => render_ref ca c ra r
  | TColRange a1 c1 a2 c2 => dollar a1 ++ letters c1 ++ [ch_colon] ++ dollar a2 ++ letters c2
  | TRowRange a1 r1 a2 r2 => dollar a1 ++ dec (r1 + 1) ++ [ch_colon] ++ dollar a2 ++ dec (r2 + 1)
  | TSheet false n => n ++ [ch_bang]
  | TSheet true n => [ch_apos] ++ double_ch ch_apos n ++ [ch_apos; ch_bang]
  | TSheetRange n1 n2 => n1 ++ [ch_colon] ++ n2 ++ [ch_bang]
  | TFunc n => n ++ [ch_lparen]
  | TName n => n
  | TNum ip fp ex =>
      ip ++ (match fp with Some f => ch_dot :: f | None => [] end)
         ++ (match ex with
             | Some (Some neg, e) => ch_E :: (if neg then ch_minus else ch_plus) :: e
             | Some (None, e) => ch_E :: e
             | None => []
             end)
  | TStr s => [ch_dquote] ++ double_ch ch_dquote s ++ [ch_dquote]
  | TBrack s => s
  | TSym c => [c]
  | TErr k => nth (N.to_nat k) error_texts []
  end.

Definition render_all (ts : list token) : list N := concat (map render ts).

(* translation by (drow, dcol): exactly the relative components of references move *)
Definition move (abs : bool) (x : N) (d : Z) : N :=
  if abs then x else Z.to_N (Z.of_N x + d).
Definition translate (off : Z * Z) (t : token) : token :=
  match t with
  | TRef ca c ra r => TRef ca (move ca c (snd off)) ra (move ra r (fst off))
  | TColRange a1 c1 a2 c2 => TColRange a1 (move a1 c1 (snd off)) a2 (move a2 c2 (snd off))
  | TRowRange a1 r1 a2 r2 => TRowRange a1 (move a1 r1 (fst off)) a2 (move a2 r2 (fst off))
  | _ => t
  end.

(* ------------------------------------------------------------------ SPEC: names that are cell names *)
(* [n], read case-insensitively, is the A1 name of a cell of the sheet: one to three letters
   giving a column <= XFD, then one to seven digits without a leading zero giving a row
   <= 1048576.  Excel refuses such defined / table names, and quotes such sheet names. *)
Definition is_cell_name (n : list N) : bool :=
  let ls := fst (span is_alpha n) in
  let ds := snd (span is_alpha n) in
  nonempty ls && (length ls <=? 3)%nat &&
  nonempty ds && forallb is_digit ds && (length ds <=? 7)%nat && negb (hd 0 ds =? ch_0) &&
  (col1_of_letters (map to_upper ls) <=? MAX_COLUMNS) && (undec ds <=? MAX_ROWS).

(* ------------------------------------------------------------------ SPEC: well-formedness *)
Definition sym_chars : list N :=
  [43;45;42;47;94;38;61;60;62;37;40;41;44;59;58;32;123;125;64].
                             (* + - * / ^ & = < > % ( ) , ; : space { } @ *)
Definition sheet_forbidden : list N := [58;92;47;63;42;91;93].    (* : \ / ? * [ ] *)
Definition digits_ok (l : list N) : bool := nonempty l && forallb is_digit l.

(* [TBrack s]: s starts with '[' and its bracket depth returns to 0 exactly at its last char *)
Fixpoint brack_span (l : list N) (depth : N) : bool :=
  match l with
  | [] => false
  | x :: t =>
      if (x =? ch_rbrack) && (depth =? 0) then false else
      let d := if x =? ch_lbrack then depth + 1 else if x =? ch_rbrack then depth - 1 else depth in
      if d =? 0 then is_nil t else brack_span t d
  end.
Definition brack_ok (s : list N) : bool :=
  match s with c :: _ => (c =? ch_lbrack) && brack_span s 0 | [] => false end.

Section Wf.
(* "letter or digit" in names is the Unicode notion, i.e. the same oracle *)
Variable is_alnum : N -> bool.
(* characters of function names and unquoted sheet names; of defined names *)
Definition uname_char (c : N) : bool := is_alnum c || (c =? ch_uscore) || (c =? ch_dot).
Definition dname_char (c : N) : bool := uname_char c || (c =? ch_bslash) || (c =? ch_qmark).
Definition word_char (c : N) : bool := dname_char c || (c =? ch_dollar).

Definition tok_valid (t : token) : bool :=
  match t with
  | TRef _ c _ r => (c <? MAX_COLUMNS) && (r <? MAX_ROWS)
  | TColRange _ c1 _ c2 => (c1 <? MAX_COLUMNS) && (c2 <? MAX_COLUMNS)
  | TRowRange _ r1 _ r2 => (r1 <? MAX_ROWS) && (r2 <? MAX_ROWS)
  | TSheet false n => nonempty n && forallb uname_char n
  | TSheet true n => nonempty n && forallb (fun c => negb (existsb (N.eqb c) sheet_forbidden)) n
  | TSheetRange n1 n2 => nonempty n1 && forallb uname_char n1 && nonempty n2 && forallb uname_char n2
  | TFunc n => nonempty n && forallb uname_char n
  | TName n => nonempty n && forallb dname_char n && negb (is_cell_name n)
  | TNum ip fp ex =>
      digits_ok ip && (match fp with Some f => digits_ok f | None => true end)
      && (match ex with Some (_, e) => digits_ok e | None => true end)
  | TStr _ => true
  | TBrack s => brack_ok s
  | TSym c => existsb (N.eqb c) sym_chars
  | TErr k => k <? 7
  end.

(* adjacency: a token whose text ends with a word character (letter, digit, _ . $ \ ?) must be
   followed by a token whose text starts with something else, and not with '(' or '!' (which
   would make it a function or sheet name: those are TFunc / TSheet) *)
Definition ends_word (u : list N) : bool :=
  match rev u with c :: _ => word_char c | [] => false end.
Definition starts_sep (u : list N) : bool :=
  match u with
  | c :: _ => negb (word_char c) && negb (c =? ch_lparen) && negb (c =? ch_bang)
  | [] => false
  end.
Fixpoint adjacent_ok (ts : list token) : bool :=
  match ts with
  | a :: ((b :: _) as rest) =>
      (if ends_word (render a) then starts_sep (render b) else true) && adjacent_ok rest
  | _ => true
  end.
(* the ':' : a word directly before a ':' and the word directly after it are the two ends of a
   whole-column / whole-row range only inside a TColRange / TRowRange token, and the two names of
   a 3-D sheet prefix only inside a TSheetRange token.  So, where a token ends with a word w and
   the rest of the formula is ':' v .., w and v must not both have the shape of a range end
   ([$] then one to three letters, or one to seven digits), and v must not be followed by '!'. *)
Definition last_word (u : list N) : list N := rev (fst (span word_char (rev u))).
Definition is_range_end (w : list N) : bool :=
  let body := if starts_dollar w then tl w else w in
  nonempty body &&
  (((length body <=? 3)%nat && forallb is_alpha body) || ((length body <=? 7)%nat && forallb is_digit body)).
Definition colon_free (w s : list N) : bool :=
  match s with
  | x :: s' =>
      if x =? ch_colon then
        let v := fst (span word_char s') in
        let r := snd (span word_char s') in
        is_nil w || is_nil v ||
        (negb (match r with y :: _ => y =? ch_bang | [] => false end) &&
         negb (is_range_end w && is_range_end v))
      else true
  | [] => true
  end.
Fixpoint colon_ok (ts : list token) : bool :=
  match ts with
  | a :: rest => colon_free (last_word (render a)) (render_all rest) && colon_ok rest
  | [] => true
  end.
Definition wf_formula (ts : list token) : bool :=
  forallb tok_valid ts && adjacent_ok ts && colon_ok ts.
End Wf.

(* every reference lies on the sheet before and after translation, and the offset is the
   difference of two positions of the sheet *)
Definition off_ok (off : Z * Z) : bool :=
  ((- Z.of_N MAX_ROWS <? fst off) && (fst off <? Z.of_N MAX_ROWS) &&
   (- Z.of_N MAX_COLUMNS <? snd off) && (snd off <? Z.of_N MAX_COLUMNS))%Z.
Definition comp_in_range (abs : bool) (x : N) (d : Z) (lim : N) : bool :=
  (x <? lim) && (abs || ((0 <=? Z.of_N x + d) && (Z.of_N x + d <? Z.of_N lim))%Z).
Definition tok_in_range (off : Z * Z) (t : token) : bool :=
  match t with
  | TRef ca c ra r => comp_in_range ca c (snd off) MAX_COLUMNS && comp_in_range ra r (fst off) MAX_ROWS
  | TColRange a1 c1 a2 c2 =>
      comp_in_range a1 c1 (snd off) MAX_COLUMNS && comp_in_range a2 c2 (snd off) MAX_COLUMNS
  | TRowRange a1 r1 a2 r2 =>
      comp_in_range a1 r1 (fst off) MAX_ROWS && comp_in_range a2 r2 (fst off) MAX_ROWS
  | _ => true
  end.
Definition in_rangeb (ts : list token) (off : Z * Z) : bool :=
  off_ok off && forallb (tok_in_range off) ts.
Definition in_range (ts : list token) (off : Z * Z) : Prop := in_rangeb ts off = true.

(* ------------------------------------------------------------------ behaviour outside in_range *)
(* NOT part of the property (no translated reference exists there): what the code documents —
   "a reference that would leave the sheet is left unchanged" — stated so that the theorem
   translate_total covers every offset of the sheet.  A reference (cell, whole-column or
   whole-row range) is moved as a whole or not at all. *)
Definition translate_clip (off : Z * Z) (t : token) : token :=
  match t with
  | TRef _ _ _ _ | TColRange _ _ _ _ | TRowRange _ _ _ _ =>
      if tok_in_range off t then translate off t else t
  | _ => t
  end.

(* ------------------------------------------------------------------ KNOWN classes *)
(* None.  F22-mixed, -lookalike, -nonascii, -quote, -overflow, -block, -si-order, -edge were
   repaired in /repo by 7595189, 0817afa, 2d75670; F22-sheet3d and F22-whole-range by the two
   commits of branch c15-fixes (3-D prefix look-ahead, offset_whole_range). *)

(* ------------------------------------------------------------------ SPEC: groups *)
(* a shared-formula group as the file declares it *)
Record group := mkGroup {
  g_si : N;
  g_master : N * N;                 (* position of the cell that carries the text (anywhere) *)
  g_start : N * N; g_end : N * N;   (* the declared ref, start <= end componentwise *)
  g_tokens : list token
}.
Definition in_box (s e p : N * N) : bool :=
  (fst s <=? fst p) && (fst p <=? fst e) && (snd s <=? snd p) && (snd p <=? snd e).
Definition member_offset (g : group) (p : N * N) : Z * Z :=
  ((Z.of_N (fst p) - Z.of_N (fst (g_master g)))%Z, (Z.of_N (snd p) - Z.of_N (snd (g_master g)))%Z).
(* the text the property demands for the cell at p of group g *)
Definition member_formula (g : group) (p : N * N) : list N :=
  render_all (map (translate (member_offset g p)) (g_tokens g)).
Definition ref_text (s e : N * N) : list N :=
  a1_name (fst s) (snd s) ++ [ch_colon] ++ a1_name (fst e) (snd e).

(* a sheet as the property sees it: cells in document order *)
Inductive scell :=
| SNone (p : N * N)                              (* a cell without formula *)
| SPlain (p : N * N) (f : list N)                (* an ordinary formula *)
| SMaster (g : group)                            (* the cell that declares group g *)
| SMember (p : N * N) (si : N) (own : list N).   (* a cell that refers to shared index si *)

Definition encode_cell (c : scell) : fcell :=
  match c with
  | SNone p => (p, FNone)
  | SPlain p f => (p, FPlain f)
  | SMaster g => (g_master g,
                  FMaster (g_si g) (ref_text (g_start g) (g_end g)) (render_all (g_tokens g)))
  | SMember p si own => (p, FMember si own)
  end.

(* the group a shared index denotes at some point of the document: the latest master with that
   index seen so far, whatever the order of the indices *)
Definition find_group (seen : list group) (si : N) : option group :=
  find (fun g => g_si g =? si) seen.
Definition seen_after (seen : list group) (c : scell) : list group :=
  match c with SMaster g => g :: seen | _ => seen end.

(* SPEC: the formula the property demands for each cell.  A member inside the declared ref of
   the group with its shared index gets the master formula translated by its own offset (in one
   or two dimensions); every other cell keeps its own text. *)
Definition spec_value (seen : list group) (c : scell) : list N :=
  match c with
  | SNone _ => []
  | SPlain _ f => f
  | SMaster g => render_all (g_tokens g)
  | SMember p si own =>
      match find_group seen si with
      | Some g => if in_box (g_start g) (g_end g) p then member_formula g p else own
      | None => own
      end
  end.
Fixpoint spec_cells (seen : list group) (cs : list scell) : list ((N * N) * list N) :=
  match cs with
  | [] => []
  | c :: t => (fst (encode_cell c), spec_value seen c) :: spec_cells (seen_after seen c) t
  end.

Section SheetOk.
Variable is_alnum : N -> bool.
Definition group_okb (g : group) : bool :=
  (fst (g_start g) <=? fst (g_end g)) && (snd (g_start g) <=? snd (g_end g)) &&
  (fst (g_end g) <? MAX_ROWS) && (snd (g_end g) <? MAX_COLUMNS) &&
  (fst (g_master g) <? MAX_ROWS) && (snd (g_master g) <? MAX_COLUMNS).
Definition member_okb (g : group) (p : N * N) : bool :=
  wf_formula is_alnum (g_tokens g) && in_rangeb (g_tokens g) (member_offset g p).

(* the sheets covered by the group theorem: well-formed groups (any shape, any master
   position, shared indices in any order, repeated or not), and every member inside a declared
   ref has a formula of the grammar that stays on the sheet *)
Fixpoint sheet_okb (seen : list group) (cs : list scell) : bool :=
  match cs with
  | [] => true
  | c :: t =>
      (match c with
       | SMaster g => group_okb g
       | SMember p si _ =>
           match find_group seen si with
           | Some g => if in_box (g_start g) (g_end g) p then member_okb g p else true
           | None => true
           end
       | _ => true
       end) && sheet_okb (seen_after seen c) t
  end.
End SheetOk.
