"""fmlagen — file writers and independent expansions (the spec side) for the end-to-end tier of
C14: real .xlsb / .xlsx / .ods packages (and the Lbl / SHRFMLA records of .xls, used by
props/c14_xlsfile.py) that carry formulas and defined names.

Every writer takes a *semantic* description (cells at absolute positions, names in record order)
plus an rng for the purely syntactic choices (escaping style, implicit positions, repeats) and
returns the bytes of the package.  The expectation is never read back from the written bytes:
`expected_range` expands the same semantic description into the rectangle Reader::worksheet_formula
must return (tight bounding box of the formula cells, each text at its absolute position, "" on
every other cell).

Written from MS-XLSB 2.4 / 2.5.97, ECMA-376 part 1 18.3.1, ODF 1.2 part 1 9.1 / 19; only what
calamine's readers look at is produced."""
import io, struct, zipfile

# ----------------------------------------------------------------------------- shared helpers

def col_letters(c):
    s, c = "", c + 1
    while c > 0:
        c, r = divmod(c - 1, 26)
        s = chr(65 + r) + s
    return s


def a1(r, c):
    return col_letters(c) + str(r + 1)


def hx(s):
    return s.encode("utf-8").hex()


def expected_range(cells, keep_empty=False):
    """cells: iterable of (row, col, text).  The rectangle worksheet_formula must return, in the
    canonical form of the harness command `open … formula`: R[r0,c0,r1,c1|hex,hex/hex,…] or R[-].
    keep_empty: xls keeps formula cells whose text is "" inside the bounding box (model of
    parse_workbook); the other readers drop them before Range::from_sparse."""
    cs = [(r, c, t) for (r, c, t) in cells if keep_empty or t != ""]
    if not cs:
        return "R[-]"
    r0, r1 = min(x[0] for x in cs), max(x[0] for x in cs)
    c0, c1 = min(x[1] for x in cs), max(x[1] for x in cs)
    m = {}
    for (r, c, t) in cs:
        m[(r, c)] = t                       # later cell wins, as in from_sparse
    rows = []
    for r in range(r0, r1 + 1):
        rows.append(",".join(hx(m.get((r, c), "")) for c in range(c0, c1 + 1)))
    return "R[%d,%d,%d,%d|%s]" % (r0, c0, r1, c1, "/".join(rows))


def expected_names(names):
    """names: list of (name, text) in record order -> canonical form of `open … names`"""
    return ",".join("%s=%s" % (hx(n), hx(t)) for n, t in names)


def esc_text(s, rng, quotes=True):
    """character data: & and < must be escaped; everything else is the writer's choice"""
    out = []
    for i, ch in enumerate(s):
        p = rng.random()
        if ch == "&":
            out.append("&amp;" if p < 0.8 else "&#38;")
        elif ch == "<":
            out.append("&lt;" if p < 0.8 else "&#x3C;")
        elif ch == ">":
            out.append("&gt;" if (p < 0.7 or s[max(0, i - 2):i] == "]]") else ">")
        elif ch == '"' and quotes:
            out.append("&quot;" if p < 0.5 else '"')
        elif ch == "'" and quotes:
            out.append("&apos;" if p < 0.5 else "'")
        elif p < 0.03 and ch not in "\r":
            out.append(("&#%d;" % ord(ch)) if p < 0.015 else ("&#x%X;" % ord(ch)))
        else:
            out.append(ch)
    return "".join(out)


def esc_attr(s, rng):
    """attribute value inside double quotes"""
    out = []
    for ch in s:
        p = rng.random()
        if ch == "&":
            out.append("&amp;")
        elif ch == "<":
            out.append("&lt;")
        elif ch == '"':
            out.append("&quot;" if p < 0.8 else "&#34;")
        elif ch == ">":
            out.append("&gt;" if p < 0.6 else ">")
        elif ch == "'":
            out.append("&apos;" if p < 0.4 else "'")
        elif ch in "\n\t":
            out.append("&#%d;" % ord(ch))   # a literal one would be normalised to a space
        elif p < 0.02:
            out.append("&#x%X;" % ord(ch))
        else:
            out.append(ch)
    return "".join(out)


def zip_pack(rng, parts, first_stored=None):
    bio = io.BytesIO()
    with zipfile.ZipFile(bio, "w") as z:
        if first_stored:
            zi = zipfile.ZipInfo(first_stored[0], date_time=(2020, 1, 1, 0, 0, 0))
            zi.compress_type = zipfile.ZIP_STORED
            z.writestr(zi, first_stored[1])
        for name, body in parts:
            zi = zipfile.ZipInfo(name, date_time=(2020, 1, 1, 0, 0, 0))
            zi.compress_type = zipfile.ZIP_DEFLATED if rng.random() < 0.6 else zipfile.ZIP_STORED
            z.writestr(zi, body if isinstance(body, bytes) else body.encode("utf-8"))
    return bio.getvalue()


# ----------------------------------------------------------------------------- XLSB

def brec(t, data=b""):
    tb = bytes([t]) if t < 0x80 else bytes([(t & 0x7F) | 0x80, t >> 7])
    n, lb = len(data), b""
    while True:
        b = n & 0x7F
        n >>= 7
        if n:
            lb += bytes([b | 0x80])
        else:
            lb += bytes([b])
            break
    return tb + lb + data


def wide(s):
    u = s.encode("utf-16le")
    return struct.pack("<I", len(u) // 2) + u


# BrtName flag bits (MS-XLSB 2.4.711)
NF_HIDDEN, NF_FUNC, NF_OB, NF_PROC, NF_CALCEXP, NF_BUILTIN = 1, 2, 4, 8, 16, 32
NF_PUBLISHED, NF_WBPARAM, NF_FUTURE = 0x8000, 0x10000, 0x20000


def brt_name_payload(flags, itab, name, rgce, chkey=0, comment=None, extra=b""):
    return (struct.pack("<IBI", flags, chkey, itab) + wide(name) +
            struct.pack("<I", len(rgce)) + rgce + struct.pack("<I", 0) +          # cce rgce cb
            (struct.pack("<I", 0xFFFFFFFF) if comment is None else wide(comment)) + extra)


def brt_externsheet_payload(xtis, cxti=None):
    return struct.pack("<I", len(xtis) if cxti is None else cxti) + \
        b"".join(struct.pack("<Iii", s, f, l) for (s, f, l) in xtis)


def sheet_text(name):
    """a sheet name as formula text writes it in front of '!' (formula grammar, sheet-name): bare
    when it is a word — first character a letter, '_' or non-ASCII, then the same, digits or '.' —
    else between apostrophes with its apostrophes doubled.  Independent reading of the grammar
    (cross-checked against Coq's Ptg.sheet_text by props/c14.py)."""
    def start(ch):
        return ch.isascii() and (ch.isalpha() or ch == "_") or not ch.isascii()
    def inner(ch):
        return start(ch) or (ch.isascii() and ch.isdigit()) or ch == "."
    if name and start(name[0]) and all(inner(ch) for ch in name[1:]):
        return name
    return "'" + name.replace("'", "''") + "'"


def span_text(first, last):
    """a span of sheets in front of '!' (formula grammar: sheet-range): First:Last when both names are
    words, else one pair of apostrophes around the span with the apostrophes inside doubled"""
    if sheet_text(first) == first and sheet_text(last) == last:
        return first + ":" + last
    return "'" + first.replace("'", "''") + ":" + last.replace("'", "''") + "'"


def xlsb_resolve_xti(first, sheets, last=None):
    """independent reading of MS-XLSB 2.5.172 Xti (firstSheet, lastSheet; the supporting link is this
    workbook): the sheet, or the span First:Last when lastSheet names another sheet of the workbook;
    -2 = workbook-level, -1 = deleted sheet (calamine's placeholders)"""
    if first == -2:
        return "#ThisWorkbook"
    if first == -1:
        return "#InvalidWorkSheet"
    if 0 <= first < len(sheets):
        if last is not None and last != first and 0 <= last < len(sheets):
            return span_text(sheets[first], sheets[last])
        return sheet_text(sheets[first])
    return "#Unknown"


def xlsb_cell_record(c, kind, rgce, rng, value=None, rgcb=b""):
    """one cell record; kind: fnum fstr fbool ferr (formula cells), num str bool err blank;
    rgcb: the extra data of the CellParsedFormula (cb = its size)"""
    head = struct.pack("<I", c) + struct.pack("<I", rng.choice([0, 0, 1, 5]) | (rng.choice([0, 0, 0x01]) << 24))
    tail = lambda: (struct.pack("<H", rng.choice([0, 0, 2, 0x0A])) + struct.pack("<I", len(rgce)) + rgce +
                    struct.pack("<I", len(rgcb)) + rgcb)
    if kind == "fnum":
        return brec(0x0009, head + struct.pack("<d", rng.choice([0.0, 1.5, -2.0, 1e10])) + tail())
    if kind == "fstr":
        s = value if value is not None else rng.choice(["", "a", "résumé", "数", "abc def", "\U0001F600x"])
        return brec(0x0008, head + wide(s) + tail())
    if kind == "fbool":
        return brec(0x000A, head + bytes([rng.randrange(2)]) + tail())
    if kind == "ferr":
        return brec(0x000B, head + bytes([rng.choice([0x00, 0x07, 0x0F, 0x17, 0x1D, 0x24, 0x2A])]) + tail())
    if kind == "num":
        return brec(0x0005, head + struct.pack("<d", 3.25))
    if kind == "str":
        return brec(0x0006, head + wide("v"))
    if kind == "bool":
        return brec(0x0004, head + b"\x01")
    if kind == "err":
        return brec(0x0003, head + b"\x07")
    return brec(0x0001, head)


def xlsb_ptgexp(first):
    """(rgce, rgcb) of a cell of a shared / array formula: PtgExp with the row of the group's first
    cell in the token and its column in rgcb (PtgExtraCol), MS-XLSB 2.5.97.46 / 2.5.97.16"""
    return b"\x01" + struct.pack("<I", first[0]), struct.pack("<I", first[1])


def brt_shrfmla_payload(r0, r1, c0, c1, rgce, tail=None):
    """BrtShrFmla 0x01AB: rfx (UncheckedRfX: rwFirst, rwLast, colFirst, colLast, u32 each), then
    SharedParsedFormula (cce u32 + rgce [+ cb])"""
    return struct.pack("<IIII", r0, r1, c0, c1) + struct.pack("<I", len(rgce)) + rgce + (struct.pack("<I", 0) if tail is None else tail)


def brt_arrfmla_payload(r0, r1, c0, c1, rgce, flags=0, tail=None):
    """BrtArrFmla 0x01AA: rfx, one byte (fAlwaysCalc), ArrayParsedFormula (cce u32 + rgce + cb + rgcb)"""
    return (struct.pack("<IIII", r0, r1, c0, c1) + bytes([flags]) + struct.pack("<I", len(rgce)) + rgce +
            (struct.pack("<I", 0) if tail is None else tail))


def shared_ref_text_b(p, corner):
    """independent reading of MS-XLSB PtgRefN / RgceLocRel for a cell p = (row, col) using a shared formula:
    corner = (row_rel, d_or_row, col_rel, d_or_col) with SIGNED offsets; rows wrap around 1048576, columns 16384"""
    rr, r, cr, c = corner
    row = (p[0] + r) % 1048576 if rr else r
    col = (p[1] + c) % 16384 if cr else c
    return ("" if cr else "$") + col_letters(col) + ("" if rr else "$") + str(row + 1)


def xlsb_table_records(cells, rng):
    """the records between BrtBeginSheetData and BrtEndSheetData as (type, payload).
    cells: (row, col, kind, rgce[, rgcb[, after]]) sorted by (row, col); after: records that follow the cell
    (BrtShrFmla / BrtArrFmla, anything else); a legacy "ptgexp" cell is (row, col, kind, b"\x01" + row) without
    rgcb: it names no cell (no column) and is followed, 7 times out of 10, by a BrtShrFmla nobody can use"""
    rows = sorted(set(x[0] for x in cells))
    out = []
    for r in rows:
        out.append((0x0000, struct.pack("<IIHBBBI", r, 0, 300, 0, 0, 0, 0)))
        for x in cells:
            (rr, c, kind, rgce), more = x[:4], x[4:]
            if rr != r:
                continue
            rgcb = more[0] if more else b""
            raw = xlsb_cell_record(c, kind, rgce, rng, rgcb=rgcb)
            t, i = raw[0], 1
            while raw[i] & 0x80:
                i += 1
            out.append((t, raw[i + 1:]))
            if len(more) > 1:
                out += list(more[1])
            elif kind.startswith("f") and rgce[:1] == b"\x01" and not rgcb and rng.random() < 0.7:
                out.append((0x01AB, struct.pack("<IIII", r, r, c, c) + struct.pack("<I", 3) + b"\x1e\x07\x00" + struct.pack("<I", 0)))
    return out


def xlsb_sheet_part(cells, rng, table=None, dim=None):
    """cells: list of (row, col, kind, rgce[, rgcb[, after]]) sorted by (row, col); table: the records of
    the cell table when they were built by the caller (xlsb_table_records)"""
    rows = sorted(set(x[0] for x in cells))
    if dim is not None:
        dim = struct.pack("<IIII", *dim)
    elif cells:
        dim = struct.pack("<IIII", rows[0], rows[-1], min(x[1] for x in cells), max(x[1] for x in cells))
    else:
        dim = struct.pack("<IIII", 0, 0, 0, 0)
    out = brec(0x0081)
    if rng.random() < 0.5:
        out += brec(0x0093, struct.pack("<HBI", 0x00C9, 0, 0x40) + struct.pack("<I", 0xFFFFFFFF) + struct.pack("<I", 0) * 2)  # BrtWsProp
    out += brec(0x0094, dim)
    if rng.random() < 0.4:                                       # BrtBeginWsViews … BrtEndWsViews
        out += brec(0x0085) + brec(0x0089, b"\0" * 30) + brec(0x008A) + brec(0x0086)
    if rng.random() < 0.4:
        out += brec(0x01E5, struct.pack("<IHHI", 0xFFFFFFFF, 8, 300, 0))   # BrtWsFmtInfo
    out += brec(0x0091)
    for (t, p) in (xlsb_table_records(cells, rng) if table is None else table):
        out += brec(t, p)
    out += brec(0x0092) + brec(0x0082)
    return out


NS_PR = "http://schemas.openxmlformats.org/package/2006/relationships"
NS_R = "http://schemas.openxmlformats.org/officeDocument/2006/relationships"
DECL = '<?xml version="1.0" encoding="UTF-8" standalone="yes"?>'


# ---- supporting links (what XTI.iSupBook indexes): ("self",) this workbook; ("same",) the sheet using it (xlsb
# only); ("addin",) the add-in functions; ("ext", path, [sheet names]) another workbook
EXT_TABS = ["Data", "Other Sheet", "Sheet1", "2023", "Übersicht", "a'b", "S"]


def random_links(rng, fmt):
    """a list of supporting links in file order — at least one of them this workbook — and, for the XTIs, the
    indices of the links that stand for this workbook"""
    ext = lambda: ("ext", rng.choice(["other.xls", "C:\\data\\[b.xls]", "b"]), rng.sample(EXT_TABS, rng.randrange(0, 4)))
    p = rng.random()
    if p < 0.4:
        links = [("self",)]
    else:
        links = [("self",)]
        for _ in range(rng.randrange(1, 4)):
            q = rng.random()
            links.append(ext() if q < 0.55 else ("addin",) if q < 0.85 else ("same",) if fmt == "xlsb" else ("self",))
        if rng.random() < 0.75:
            rng.shuffle(links)
    local = [i for i, l in enumerate(links) if l[0] in ("self", "same")]
    return links, local


def links_arg(links):
    """LINKS argument of the model's ptg_ast command"""
    out = []
    for l in links:
        if l[0] == "ext":
            out.append("ext:" + "/".join((x.encode("utf-8").hex() or ".") for x in l[2]))
        else:
            out.append(l[0])
    return ",".join(out) or "-"


def links_tag(links):
    """for the input histogram: the kinds of links present and where the first link to this workbook stands"""
    first = min(i for i, l in enumerate(links) if l[0] in ("self", "same"))
    return "%s;first_link_to_this_workbook_at_%d" % ("+".join(sorted(set(l[0] for l in links))), first)


def xlsb_sup_records(links):
    """the supporting-link records of the EXTERNALS block: BrtSupBookSrc (the relationship of the externalLink
    part), BrtSupSelf, BrtSupSame, BrtSupAddin"""
    out = []
    for i, l in enumerate(links):
        if l[0] == "ext":
            out.append((0x0163, wide("rIdX%d" % (i + 1))))
        else:
            out.append(({"self": 0x0165, "same": 0x0166, "addin": 0x029B}[l[0]], b""))
    return out


def xlsb_tail_records(xtis, names, junk=None, cxti=None, links=None):
    """the records of workbook.bin after BrtEndBundleShs as (type, payload): the externals block
    (xtis None = no block) — BrtBeginExternals, the supporting links (links: see random_links; default this
    workbook only), BrtExternSheet, BrtEndExternals —, the BrtName records, BrtCalcProp, BrtEndBook.
    junk: payload of an unknown record placed right before BrtExternSheet (it stays in the reader's buffer);
    cxti: declared count when it is to differ from len(xtis)"""
    recs = []
    if xtis is not None:
        recs += [(0x0161, b"")] + xlsb_sup_records(links or [("self",)])
        if junk is not None:
            recs.append((0x0813, junk))
        recs += [(0x016A, brt_externsheet_payload(xtis, cxti)), (0x0162, b"")]
    recs += [(0x0027, p) for p in names]
    recs += [(0x009D, struct.pack("<IdB", 0, 0.001, 0)), (0x0084, b"")]
    return recs


def xlsb_workbook_part(sheets, tail, rng, states=None):
    """sheets: names; tail: xlsb_tail_records(...)"""
    wb = brec(0x0083)
    if rng.random() < 0.5:
        wb += brec(0x0080, struct.pack("<II", 0, 0) + wide("xl") + wide("7") + wide("7") + wide("1"))   # BrtFileVersion
    wb += brec(0x0099, struct.pack("<II", 0, 0) + wide(""))
    if rng.random() < 0.3:
        wb += brec(0x0087) + brec(0x009E, struct.pack("<iiiiIII", 0, 0, 1000, 1000, 600, 0, 0) + b"\x78") + brec(0x0088)
    wb += brec(0x008F)
    for i, s in enumerate(sheets):
        st = states[i] if states else 0
        wb += brec(0x009C, struct.pack("<II", st, i + 1) + wide("rId%d" % (i + 1)) + wide(s))
    wb += brec(0x0090)
    for t, p in tail:
        wb += brec(t, p)
    return wb


def xlsb_bytes(sheets, sheet_cells, tail, rng, states=None, tables=None, charts=()):
    """tables: per sheet, the records of the cell table when the caller built them (else None);
    charts: indices of sheets written as CHART sheets (relationship type chartsheet, a part without
    sheet data): they keep their place in the BrtBundleSh list, which is what XTIs index"""
    n = len(sheets)
    rels = [DECL, '<Relationships xmlns="%s">' % NS_PR]
    for i in range(n):
        if i in charts:
            rels.append('<Relationship Id="rId%d" Type="%s/chartsheet" Target="chartsheets/sheet%d.bin"/>' % (i + 1, NS_R, i + 1))
            continue
        rels.append('<Relationship Id="rId%d" Type="%s/worksheet" Target="worksheets/sheet%d.bin"/>' % (i + 1, NS_R, i + 1))
    rels.append("</Relationships>")
    ct = (DECL + '<Types xmlns="http://schemas.openxmlformats.org/package/2006/content-types">'
          '<Default Extension="bin" ContentType="application/vnd.ms-excel.sheet.binary.macroEnabled.main"/>'
          '<Default Extension="rels" ContentType="application/vnd.openxmlformats-package.relationships+xml"/></Types>')
    root = (DECL + '<Relationships xmlns="%s"><Relationship Id="rId1" Type="%s/officeDocument" Target="xl/workbook.bin"/></Relationships>' % (NS_PR, NS_R))
    parts = [("[Content_Types].xml", ct), ("_rels/.rels", root),
             ("xl/workbook.bin", xlsb_workbook_part(sheets, tail, rng, states)),
             ("xl/_rels/workbook.bin.rels", "".join(rels))]
    for i in range(n):
        if i in charts:
            parts.append(("xl/chartsheets/sheet%d.bin" % (i + 1), brec(0x0081) + brec(0x0082)))
            continue
        parts.append(("xl/worksheets/sheet%d.bin" % (i + 1),
                      xlsb_sheet_part(sheet_cells[i], rng, table=tables[i] if tables else None)))
    return zip_pack(rng, parts)


# ----------------------------------------------------------------------------- XLS records (Lbl, SHRFMLA)

# Lbl flag bits (MS-XLS 2.4.150)
LF_HIDDEN, LF_FUNC, LF_OB, LF_PROC, LF_CALCEXP, LF_BUILTIN = 1, 2, 4, 8, 16, 32
LF_PUBLISHED, LF_WBPARAM = 0x2000, 0x4000


# built-in defined names, MS-XLS 2.5.114 (id -> name); xlsx / xlsb store them as "_xlnm." + name
XLS_BUILTIN = ["Consolidate_Area", "Auto_Open", "Auto_Close", "Extract", "Database", "Criteria", "Print_Area",
               "Print_Titles", "Recorder", "Data_Form", "Auto_Activate", "Auto_Deactivate", "Sheet_Title",
               "_FilterDatabase"]


def lbl_logical(flags, name):
    """the name a Lbl record defines: with fBuiltin the stored string is the one-character id of a
    built-in name; an unknown id or any other string is the name as stored"""
    if flags & LF_BUILTIN and len(name) == 1 and ord(name) < len(XLS_BUILTIN):
        return "_xlnm." + XLS_BUILTIN[ord(name)]
    return name


def lbl_payload(flags, itab, name, wide16, rgce, chkey=0, rgcb=b""):
    """name: str (for a built-in name: the one-character code); wide16: store 16-bit characters;
    rgcb: the extra data of the formula (NameParsedFormula = rgce ++ rgcb: array constants, the areas of a
    PtgMemArea), which follows the rgce inside the record"""
    if wide16:
        u = name.encode("utf-16le")
        cch, nb = len(u) // 2, b"\x01" + u
    else:
        b = name.encode("latin-1")
        cch, nb = len(b), b"\x00" + b
    assert cch <= 255
    return struct.pack("<HBBHHH", flags, chkey, cch, len(rgce), 0, itab) + b"\0" * 4 + nb + rgce + rgcb


def externsheet_payload(xtis):
    return struct.pack("<H", len(xtis)) + b"".join(struct.pack("<HHH", *x) for x in xtis)


def shrfmla_record_payload(r0, r1, c0, c1, rgce):
    """SHRFMLA 0x04BC: RefU (rwFirst u16, rwLast u16, colFirst u8, colLast u8), reserved u8,
    cUse u8, SharedParsedFormula (cce u16 + rgce)"""
    return struct.pack("<HHBBBB", r0, r1, c0, c1, 0, r1 - r0 + 1) + struct.pack("<H", len(rgce)) + rgce


def array_record_payload(r0, r1, c0, c1, rgce, flags=0):
    """ARRAY 0x0221: Ref (rwFirst u16, rwLast u16, colFirst u8, colLast u8), flags u16 (fAlwaysCalc),
    unused u32, ArrayParsedFormula (cce u16 + rgce)"""
    return struct.pack("<HHBBHI", r0, r1, c0, c1, flags, 0) + struct.pack("<H", len(rgce)) + rgce


def xls_formula_payload(r, c, cpf, ixfe=0, value=0.0, grbit=0):
    """body of a FORMULA record (0x0006): cell, ixfe, cached number, grbit, chn, CellParsedFormula"""
    return struct.pack("<HHH", r, c, ixfe) + struct.pack("<d", value) + struct.pack("<HI", grbit, 0) + cpf


def ptgexp_cpf(r, c):
    """CellParsedFormula of a cell of a shared / array formula: PtgExp(row, col) of the first cell"""
    return struct.pack("<H", 5) + b"\x01" + struct.pack("<HH", r, c)


def shared_ref_text(p, corner):
    """independent reading of MS-XLS PtgRefN / RgceLocRel for a cell p = (row, col) using a shared formula:
    corner = (row_rel, d_or_row, col_rel, d_or_col) with SIGNED offsets; rows wrap around 65536, columns 256"""
    rr, r, cr, c = corner
    row = (p[0] + r) % 65536 if rr else r
    col = (p[1] + c) % 256 if cr else c
    return ("" if cr else "$") + col_letters(col) + ("" if rr else "$") + str(row + 1)


# ----------------------------------------------------------------------------- XLSX

NS_MAIN = "http://schemas.openxmlformats.org/spreadsheetml/2006/main"


def xlsx_f_element(q, cell, rng):
    """cell["f"]: stored text; cell["fa"]: attribute string; the character data is escaped in a
    random legal way (entities, numeric references, CDATA sections)"""
    txt = cell["f"]
    attrs = cell.get("fa", "")
    if txt == "" and rng.random() < 0.5:
        return "<%sf%s/>" % (q, attrs)
    if txt and "]]>" not in txt and rng.random() < 0.12:
        k = rng.randrange(0, len(txt) + 1)
        body = esc_text(txt[:k], rng) + "<![CDATA[" + txt[k:] + "]]>"
    elif txt and rng.random() < 0.06:
        k = rng.randrange(0, len(txt) + 1)
        body = esc_text(txt[:k], rng) + "<!-- c -->" + esc_text(txt[k:], rng)
    else:
        body = esc_text(txt, rng)
    return "<%sf%s>%s</%sf>" % (q, attrs, body, q)


def xlsx_value_xml(q, v, rng):
    """v: None | ("n", text) | ("str", text) | ("b", "0"/"1") | ("e", text) | ("is", text) | ("s", index)"""
    if v is None:
        return "", ""
    k, t = v
    if k == "n":
        return (' t="n"' if rng.random() < 0.3 else ""), "<%sv>%s</%sv>" % (q, t, q)
    if k == "is":
        return ' t="inlineStr"', "<%sis><%st>%s</%st></%sis>" % (q, q, esc_text(t, rng), q, q)
    return ' t="%s"' % k, "<%sv>%s</%sv>" % (q, esc_text(str(t), rng), q)


def xlsx_sheet_xml(cells, rng, prefix=""):
    """cells: {(row, col): {"f": text or None, "fa": attrs, "v": value}}; positions are written with
    or without the r attributes (the reader's implicit counters are simulated so that every cell
    lands on its intended position)."""
    q = prefix + ":" if prefix else ""
    xmlns = ('xmlns:%s="%s"' % (prefix, NS_MAIN)) if prefix else ('xmlns="%s"' % NS_MAIN)
    out = [DECL, "<%sworksheet %s>" % (q, xmlns)]
    if cells and rng.random() < 0.6:
        r0, r1 = min(p[0] for p in cells), max(p[0] for p in cells)
        c0, c1 = min(p[1] for p in cells), max(p[1] for p in cells)
        out.append('<%sdimension ref="%s"/>' % (q, a1(r0, c0) if (r0, c0) == (r1, c1) and rng.random() < 0.5 else a1(r0, c0) + ":" + a1(r1, c1)))
    if rng.random() < 0.3:
        out.append('<%ssheetViews><%ssheetView workbookViewId="0"/></%ssheetViews>' % (q, q, q))
    out.append("<%ssheetData>" % q)
    row_index = 0                         # the reader's counters
    for r in sorted(set(p[0] for p in cells)):
        if r == row_index and rng.random() < 0.3:
            out.append("<%srow>" % q)
            row_attr = False
        else:
            out.append('<%srow r="%d"%s>' % (q, r + 1, ' spans="1:3"' if rng.random() < 0.3 else ""))
            row_attr = True
        row_index = r
        col_index = 0
        for c in sorted(p[1] for p in cells if p[0] == r):
            cell = cells[(r, c)]
            if c == col_index and (cell.get("imp") or rng.random() < (0.35 if row_attr else 1.0)):
                rattr = ""                # implicit position = (row_index, col_index)
            else:
                name = a1(r, c)
                if rng.random() < 0.1:
                    name = name.lower()
                rattr = ' r="%s"' % name
            col_index = c + 1
            tattr, vxml = xlsx_value_xml(q, cell.get("v"), rng)
            sattr = ' s="0"' if rng.random() < 0.2 else ""
            fxml = xlsx_f_element(q, cell, rng) if cell.get("f") is not None else ""
            inner = (vxml + fxml) if (fxml and vxml and rng.random() < 0.08 and 'inlineStr' not in tattr) else (fxml + vxml)
            if not inner and rng.random() < 0.5:
                out.append("<%sc%s%s%s/>" % (q, rattr, sattr, tattr))
            else:
                out.append("<%sc%s%s%s>%s</%sc>" % (q, rattr, sattr, tattr, inner, q))
        out.append("</%srow>" % q)
        row_index += 1
    out.append("</%ssheetData>" % q)
    if rng.random() < 0.2:
        out.append('<%spageMargins left="0.7" right="0.7" top="0.75" bottom="0.75" header="0.3" footer="0.3"/>' % q)
    out.append("</%sworksheet>" % q)
    return "".join(out)


def xlsx_bytes(sheets, sheet_cells, names, rng, sst=("s0", "s1")):
    """sheets: names; sheet_cells[i]: see xlsx_sheet_xml; names: list of (attrs, name, text[, k])"""
    ct = [DECL, '<Types xmlns="http://schemas.openxmlformats.org/package/2006/content-types">',
          '<Default Extension="rels" ContentType="application/vnd.openxmlformats-package.relationships+xml"/>',
          '<Default Extension="xml" ContentType="application/xml"/>',
          '<Override PartName="/xl/workbook.xml" ContentType="application/vnd.openxmlformats-officedocument.spreadsheetml.sheet.main+xml"/>']
    wbx = [DECL, '<workbook xmlns="%s" xmlns:r="%s"><sheets>' % (NS_MAIN, NS_R)]
    rels = [DECL, '<Relationships xmlns="%s">' % NS_PR]
    parts = []
    for i, sh in enumerate(sheets):
        wbx.append('<sheet name="%s" sheetId="%d" r:id="rId%d"/>' % (esc_attr(sh, rng), i + 1, i + 1))
        rels.append('<Relationship Id="rId%d" Type="%s/worksheet" Target="worksheets/sheet%d.xml"/>' % (i + 1, NS_R, i + 1))
        ct.append('<Override PartName="/xl/worksheets/sheet%d.xml" ContentType="application/vnd.openxmlformats-officedocument.spreadsheetml.worksheet+xml"/>' % (i + 1))
        parts.append(("xl/worksheets/sheet%d.xml" % (i + 1), xlsx_sheet_xml(sheet_cells[i], rng, prefix="x" if rng.random() < 0.15 else "")))
    wbx.append("</sheets>")
    if names or rng.random() < 0.2:
        wbx.append("<definedNames>")
        for item in names:
            attrs, n, t = item[0], item[1], item[2]
            k = item[3] if len(item) > 3 else None       # from index k on, the text sits in a CDATA section
            body = esc_text(t, rng) if k is None else esc_text(t[:k], rng) + "<![CDATA[" + t[k:] + "]]>"
            wbx.append('<definedName name="%s"%s>%s</definedName>' % (esc_attr(n, rng), attrs, body))
        wbx.append("</definedNames>")
    wbx.append("</workbook>")
    rels.append('<Relationship Id="rId%d" Type="%s/sharedStrings" Target="sharedStrings.xml"/>' % (len(sheets) + 1, NS_R))
    rels.append("</Relationships>")
    ct.append("</Types>")
    sstx = [DECL, '<sst xmlns="%s" count="%d" uniqueCount="%d">' % (NS_MAIN, len(sst), len(sst))]
    for s in sst:
        sstx.append("<si><t>%s</t></si>" % s)
    sstx.append("</sst>")
    top = DECL + '<Relationships xmlns="%s"><Relationship Id="rId1" Type="%s/officeDocument" Target="xl/workbook.xml"/></Relationships>' % (NS_PR, NS_R)
    allparts = [("[Content_Types].xml", "".join(ct)), ("_rels/.rels", top), ("xl/workbook.xml", "".join(wbx)),
                ("xl/_rels/workbook.xml.rels", "".join(rels)), ("xl/sharedStrings.xml", "".join(sstx))] + parts
    return zip_pack(rng, allparts)


# ----------------------------------------------------------------------------- ODS

NS_T = "urn:oasis:names:tc:opendocument:xmlns:table:1.0"
NS_O = "urn:oasis:names:tc:opendocument:xmlns:office:1.0"
NS_X = "urn:oasis:names:tc:opendocument:xmlns:text:1.0"


def ods_cell_xml(cell, repeat, rng):
    """cell: {"f": formula text or None, "v": None | ("float", txt) | ("string", txt) |
    ("boolean", "true"/"false") | ("strattr", txt)}; an empty description is a blank cell"""
    tag = "table:covered-table-cell" if (cell.get("covered")) else "table:table-cell"
    attrs = []
    if repeat > 1:
        attrs.append('table:number-columns-repeated="%d"' % repeat)
    if cell.get("f") is not None:
        attrs.append('table:formula="%s"' % esc_attr(cell["f"], rng))
    v = cell.get("v")
    body = ""
    if v is not None:
        k, t = v
        if k == "float":
            attrs += ['office:value-type="float"', 'office:value="%s"' % t]
            body = "<text:p>%s</text:p>" % t
        elif k == "boolean":
            attrs += ['office:value-type="boolean"', 'office:boolean-value="%s"' % t]
            body = "<text:p>%s</text:p>" % t.upper()
        elif k == "strattr":
            attrs += ['office:value-type="string"', 'office:string-value="%s"' % esc_attr(t, rng)]
            body = "<text:p>%s</text:p>" % esc_text(t, rng)
        else:
            attrs += ['office:value-type="string"']
            body = "<text:p>%s</text:p>" % esc_text(t, rng)
    if cell.get("style"):
        attrs.insert(rng.randrange(0, len(attrs) + 1), 'table:style-name="ce1"')
    if len(attrs) > 1 and rng.random() < 0.3:
        rng.shuffle(attrs)
        # the value type must precede the value attributes for the reader's string detection
        attrs.sort(key=lambda a: 0 if a.startswith("office:value-type") else 1)
        if rng.random() < 0.5:
            fa = [a for a in attrs if a.startswith("table:formula")]
            attrs = [a for a in attrs if not a.startswith("table:formula")] + fa
    a = (" " + " ".join(attrs)) if attrs else ""
    if not body and rng.random() < 0.7:
        return "<%s%s/>" % (tag, a)
    return "<%s%s>%s</%s>" % (tag, a, body, tag)


def ods_content(sheets, sheet_rows, names, rng):
    """sheet_rows[i]: list of (row_repeat, [(col_repeat, cell), …]) in document order;
    names: list of (kind, name, text) with kind "range" | "expr" """
    out = ['<?xml version="1.0" encoding="UTF-8"?>',
           '<office:document-content xmlns:office="%s" xmlns:table="%s" xmlns:text="%s" office:version="1.2">' % (NS_O, NS_T, NS_X),
           "<office:body><office:spreadsheet>"]
    for name, rows in zip(sheets, sheet_rows):
        out.append('<table:table table:name="%s">' % esc_attr(name, rng))
        if rng.random() < 0.5:
            out.append('<table:table-column table:number-columns-repeated="%d"/>' % rng.choice([1, 3, 1024, 16384]))
        for (rrep, rcells) in rows:
            ra = (' table:number-rows-repeated="%d"' % rrep) if (rrep != 1 or rng.random() < 0.1) else ""
            out.append("<table:table-row%s>" % ra)
            for (crep, cell) in rcells:
                out.append(ods_cell_xml(cell, crep, rng))
            out.append("</table:table-row>")
        out.append("</table:table>")
    if names or rng.random() < 0.2:
        out.append("<table:named-expressions>")
        for kind, n, t in names:
            if kind == "range":
                x = '<table:named-range table:name="%s" table:base-cell-address="$S.$A$1" table:cell-range-address="%s"' % (esc_attr(n, rng), esc_attr(t, rng))
                out.append(x + ("/>" if rng.random() < 0.6 else "></table:named-range>"))
            else:
                x = '<table:named-expression table:name="%s" table:base-cell-address="$S.$A$1" table:expression="%s"' % (esc_attr(n, rng), esc_attr(t, rng))
                out.append(x + ("/>" if rng.random() < 0.6 else "></table:named-expression>"))
        out.append("</table:named-expressions>")
    out.append("</office:spreadsheet></office:body></office:document-content>")
    return "".join(out)


def ods_expand(rows):
    """independent expansion of the repeat attributes: list of (row, col, formula text) of every
    cell that carries a table:formula attribute (empty text included)"""
    cells = []
    r = 0
    for (rrep, rcells) in rows:
        for k in range(rrep if any(cell.get("f") is not None for _, cell in rcells) else 0):
            c = 0
            for (crep, cell) in rcells:
                if cell.get("f") is not None:
                    for j in range(crep):
                        cells.append((r + k, c + j, cell["f"]))
                c += crep
        r += rrep
    return cells


def ods_bytes(sheets, sheet_rows, names, rng):
    manifest = ('<?xml version="1.0" encoding="UTF-8"?><manifest:manifest xmlns:manifest="urn:oasis:names:tc:opendocument:xmlns:manifest:1.0">'
                '<manifest:file-entry manifest:full-path="/" manifest:media-type="application/vnd.oasis.opendocument.spreadsheet"/>'
                '<manifest:file-entry manifest:full-path="content.xml" manifest:media-type="text/xml"/></manifest:manifest>')
    return zip_pack(rng, [("content.xml", ods_content(sheets, sheet_rows, names, rng)), ("META-INF/manifest.xml", manifest)],
                    first_stored=("mimetype", "application/vnd.oasis.opendocument.spreadsheet"))
