#!/bin/bash
# usage: tools/merge_agent.sh <agent-name>   — copies an agent's owned files from /tmp/ag/<name>/verif
# (OWN=<regex> restricts copying to the files the agent owns; others are only reported)
# into /verif (never the shared framework files) and lists what was copied / what differs.
set -e
A=/tmp/ag/$1/verif
cd /verif
SHARED='^(tools/vlib.py|check|setup.sh|coq/build.sh|coq/theories/(Prelude|Range|Range_spec|Range_proofs|HeaderRow|HeaderRow_proofs|Reader|Reader_proofs|Password|Password_proofs)\.v|coq/theories/Properties/C0[578]\.v|coq/theories/Properties/C20\.v|coq/extract/(base|range|headerrow|reader)\.list|ocaml/(conv|vm|registry|cmd_range|cmd_hdr|cmd_reader)\.ml|ocaml/dune.*|ocaml/gen_all_cmds.sh|harness/(Cargo.toml|build.rs|Cargo.lock)|harness/src/(main|util)\.rs|harness/src/cmds/(open|range)\.rs|tools/props/(c05|c06|c07|c08|__init__)\.py|tools/(gen_manifest|gen_extract|mutate)\.py|tools/merge_agent.sh|known_findings.json|MANIFEST.json|DESIGN.md|CONVENTIONS.md|AGENT_BRIEF.md|properties.jsonl|\.gitignore)$'
cd $A
find coq/theories coq/extract coq/gen ocaml harness/src tools notes corpus -type f \
  \( -name '*.v' -o -name '*.list' -o -name '*.ml' -o -name '*.rs' -o -name '*.py' -o -name '*.md' -o -name '*.json' -o -name '*.txt' \) 2>/dev/null \
  | grep -v '_build\|/gen/.*\.ml\|__pycache__\|coq/extract/Extract.v' | sort | while read f; do
  if echo "$f" | grep -Eq "$SHARED"; then
    if ! cmp -s "$f" "/verif/$f" 2>/dev/null; then echo "SHARED-DIFFERS $f"; fi
    continue
  fi
  if [ -n "${OWN:-}" ] && ! echo "$f" | grep -Eq "$OWN"; then
    if [ -e "/verif/$f" ] && ! cmp -s "$f" "/verif/$f"; then echo "NOT-OWNED-DIFFERS $f"; fi
    continue
  fi
  if [ ! -e "/verif/$f" ]; then
    mkdir -p "/verif/$(dirname $f)"; cp "$f" "/verif/$f"; echo "NEW $f"
  elif ! cmp -s "$f" "/verif/$f"; then
    if [ "$2" = "--force" ]; then cp "$f" "/verif/$f"; echo "UPDATED $f"; else echo "DIFFERS(not copied) $f"; fi
  fi
done
