// C15: hook-level access to the xlsx shared-formula rewriting functions.
//   args[0] = sub-command:
//     rcn  <hex utf8 text> <drow> <dcol>   -> replace_cell_names      ok:<hex> | err
//     tok  <token text> <drow> <dcol>      -> the same, on the rendering of a token list
//                                             (rendering is done on the Python side and passed
//                                             as args[4] = hex utf8; args[1] is ignored here)
//     c2n  <row> <col>                     -> coordinate_to_name      ok:<hex> | err
//     cn2n <n>                             -> column_number_to_name   ok:<hex> | err
//     grc  <hex>                           -> get_row_column          ok:<r>,<c> | err
//     gdim <hex>                           -> get_dimension           ok:<r>,<c>,<r>,<c> | err
//     alnum <cp,cp,...>                    -> one '1'/'0' per code point: char::is_alphanumeric
//                                             (the oracle the Coq model is parameterised by; the
//                                             Python driver hands the answer to the model side)
//   rcn / tok / sheet accept one more trailing argument (the list of non-ASCII alphanumeric
//   scalars, used by the model side only).
//   a panic (arithmetic overflow in the checked build) is answered "panic" by main.rs.
//   The end-to-end route (worksheet_formula on a generated file) goes through the generic
//   `open` command; `sheet` here reads the file named by args[2] and prints the same canonical
//   text as the model side (args[1] = the abstract sheet description, ignored here).
use crate::util::*;
use calamine::verif_hooks::xlsx as h;

fn bytes_res(r: Result<Vec<u8>, String>) -> String {
    match r {
        Ok(v) => format!("ok:{}", hex(&v)),
        Err(_) => "err".to_string(),
    }
}

fn rcn(text_hex: &str, dr: &str, dc: &str) -> String {
    let bytes = unhex(text_hex);
    let s = match String::from_utf8(bytes) {
        Ok(s) => s,
        Err(_) => return "badinput".to_string(),
    };
    let dr: i64 = dr.parse().unwrap();
    let dc: i64 = dc.parse().unwrap();
    match h::replace_cell_names(&s, (dr, dc)) {
        Ok(v) => format!("ok:{}", hexstr(&v)),
        Err(_) => "err".to_string(),
    }
}

pub fn run(args: &[&str]) -> String {
    match args[0] {
        "rcn" => rcn(args[1], args[2], args[3]),
        "tok" => rcn(args[4], args[2], args[3]),
        "c2n" => {
            let r: u32 = args[1].parse().unwrap();
            let c: u32 = args[2].parse().unwrap();
            bytes_res(h::coordinate_to_name((r, c)))
        }
        "cn2n" => {
            let n: u32 = args[1].parse().unwrap();
            bytes_res(h::column_number_to_name(n))
        }
        "grc" => match h::get_row_column(&unhex(args[1])) {
            Ok((r, c)) => format!("ok:{},{}", r, c),
            Err(_) => "err".to_string(),
        },
        "gdim" => match h::get_dimension(&unhex(args[1])) {
            Ok(((a, b), (c, d))) => format!("ok:{},{},{},{}", a, b, c, d),
            Err(_) => "err".to_string(),
        },
        "alnum" => args[1]
            .split(',')
            .filter(|x| !x.is_empty())
            .map(|x| {
                let cp: u32 = x.parse().unwrap();
                match char::from_u32(cp) {
                    Some(c) if c.is_alphanumeric() => '1',
                    _ => '0',
                }
            })
            .collect(),
        "sheet" => {
            // args[1] = abstract description (model side), args[2] = path of the generated xlsx,
            // args[3] = hex of the sheet name
            let call = format!("formula {}", args[3]);
            crate::cmds::open::run(&["xlsx", args[2], &call])
        }
        other => format!("badsub:{}", other),
    }
}
