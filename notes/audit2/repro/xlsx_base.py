# shared helper for xlsx_*.py repro scripts (read-only use of /verif harness)
import sys, os, zipfile
sys.path.insert(0, '/tmp/ag/audit2')
from vhrun import vh, hx, mkzip
OUT = '/tmp/ag/audit2/repro/out/'
NS = 'http://schemas.openxmlformats.org/spreadsheetml/2006/main'
RNS = 'http://schemas.openxmlformats.org/officeDocument/2006/relationships'
PR = 'http://schemas.openxmlformats.org/package/2006/relationships'
DECL = '<?xml version="1.0" encoding="UTF-8" standalone="yes"?>\n'
CT = DECL + '''<Types xmlns="http://schemas.openxmlformats.org/package/2006/content-types"><Default Extension="rels" ContentType="application/vnd.openxmlformats-package.relationships+xml"/><Default Extension="xml" ContentType="application/xml"/><Override PartName="/xl/workbook.xml" ContentType="application/vnd.openxmlformats-officedocument.spreadsheetml.sheet.main+xml"/><Override PartName="/xl/worksheets/sheet1.xml" ContentType="application/vnd.openxmlformats-officedocument.spreadsheetml.worksheet+xml"/></Types>'''
ROOTRELS = DECL + '<Relationships xmlns="%s"><Relationship Id="rId1" Type="%s/officeDocument" Target="xl/workbook.xml"/></Relationships>' % (PR, RNS)
def workbook(sheets=(('Sheet1','rId1'),), pr='', extra='', names=''):
    s = ''.join('<sheet name="%s" sheetId="%d" r:id="%s"/>' % (n, i+1, r) for i,(n,r) in enumerate(sheets))
    return DECL + '<workbook xmlns="%s" xmlns:r="%s">%s<sheets>%s</sheets>%s%s</workbook>' % (NS, RNS, pr, s, names, extra)
def wbrels(targets=(('rId1','worksheet','worksheets/sheet1.xml'),), extra=''):
    return DECL + '<Relationships xmlns="%s">%s%s</Relationships>' % (PR, ''.join('<Relationship Id="%s" Type="%s/%s" Target="%s"/>' % (i, RNS, t, tg) for i,t,tg in targets), extra)
def sheet(data, pre='', post=''):
    return DECL + '<worksheet xmlns="%s" xmlns:r="%s">%s<sheetData>%s</sheetData>%s</worksheet>' % (NS, RNS, pre, data, post)
def styles(numfmts='', xfs='<xf numFmtId="0"/>'):
    nf = '<numFmts count="1">%s</numFmts>' % numfmts if numfmts else ''
    return DECL + '<styleSheet xmlns="%s">%s<fonts count="1"><font/></fonts><fills count="1"><fill/></fills><borders count="1"><border/></borders><cellStyleXfs count="1"><xf numFmtId="0"/></cellStyleXfs><cellXfs count="1">%s</cellXfs></styleSheet>' % (NS, nf, xfs)
def build(name, sheetxml, wb=None, rels=None, more=(), sst=None, sty=None):
    parts = [('[Content_Types].xml', CT), ('_rels/.rels', ROOTRELS), ('xl/workbook.xml', wb or workbook()),
             ('xl/_rels/workbook.xml.rels', rels or wbrels()), ('xl/worksheets/sheet1.xml', sheetxml)]
    if sst: parts.append(('xl/sharedStrings.xml', sst))
    if sty: parts.append(('xl/styles.xml', sty))
    parts += list(more)
    p = OUT + name
    mkzip(p, parts)
    return p
CALLS = ['sheets', 'meta', 'names', 'range ' + hx('Sheet1'), 'formula ' + hx('Sheet1')]
def run(p, calls=None):
    out = vh('xlsx', p, calls or CALLS)
    print(os.path.basename(p), '=>', out)
    return out
