(* Merge.v — property C17: merged regions (xlsx, xls) and xlsx tables.
   Definitions only: the model M of the Rust functions, the specification S, the encoders E with
   their [legal] predicates, and the computable known-class predicate.  Proofs: Merge_proofs.v.

   Modelled Rust functions (the tree with the fix: commits of branch c17-fixes — both table
   relationship type URIs, absolute targets, unescaped names, xsd:boolean insertRow, tables
   without data rows — on top of c06's c10d910 / 9d7bade / 33ac026 and ff3c85e):
     src/xlsx/mod.rs  xml_reader (name lookup only), get_attribute, read_merge_cells,
                      read_merged_regions, load_merged_regions / merged_regions,
                      merged_regions_by_sheet, worksheet_merge_cells(_at),
                      read_table_metadata (rels path, Relationship scan, "../" resolution, table
                      part scan, geometry arithmetic), load_tables, table_names,
                      table_names_in_sheet, get_table_meta, table_by_name / table_by_name_ref
                      (get_dimension / get_row_column: Col26.v, the hardened scanner;
                      Range::range from Range.v)
     src/xls.rs       parse_merge_cells (with the length checks of c8fd2d5), the substream-depth
                      match and the MergeCells / EOF arms of the sheet-substream loop of
                      parse_workbook, the BTreeMap of sheets, worksheet_merge_cells(_at)

   Input level.  XML parts enter as the list of quick-xml events that calamine's loops see
   (expand_empty_elements is on: <x/> arrives as Start, End).  Attribute values are the RAW bytes
   between the quotes: the functions modelled here read them with `decoder().decode` or compare
   them as bytes; the table display name and the column names go through
   `decode_and_unescape_value`, modelled by [unescape] (quick-xml 0.37 escape::unescape_with over
   the predefined entities); a column name then goes through `unescape_xstring` (the ST_Xstring
   layer _xHHHH_, fix "xlsx table column names were returned with their _xHHHH_ escapes";
   model [unescape_xstring], spec [xs_decode], writer [xs_escape]).  Strings are
   byte lists (UTF-8); the zip archive is an association list name -> event list in
   central-directory order (inflate, tokenisation: trusted base).  The xls side starts at the
   list of (type, data) records of a sheet substream (record framing: C02/C12). *)
From Calamine Require Import Prelude Col26 Range.
Open Scope N_scope.
Set Implicit Arguments.

Definition str := list N.
Definition dims := (pos * pos)%type.          (* Dimensions { start, end } *)

Fixpoint str_eqb (a b : str) : bool :=
  match a, b with
  | [], [] => true
  | x :: a', y :: b' => (x =? y) && str_eqb a' b'
  | _, _ => false
  end.

Fixpoint starts_with (p s : str) : bool :=       (* s.starts_with(p) *)
  match p, s with
  | [], _ => true
  | x :: p', y :: s' => (x =? y) && starts_with p' s'
  | _ :: _, [] => false
  end.

(* str::eq_ignore_ascii_case *)
Definition eq_ignore_ascii_case (a b : str) : bool := str_eqb (map to_lower a) (map to_lower b).

(* ------------------------------------------------------------------ string constants *)
Definition s_mergeCell : str := [109; 101; 114; 103; 101; 67; 101; 108; 108].  (* "mergeCell" *)
Definition s_mergeCells : str := [109; 101; 114; 103; 101; 67; 101; 108; 108; 115].  (* "mergeCells" *)
Definition s_ref : str := [114; 101; 102].  (* "ref" *)
Definition s_count : str := [99; 111; 117; 110; 116].  (* "count" *)
Definition s_Relationship : str := [82; 101; 108; 97; 116; 105; 111; 110; 115; 104; 105; 112].  (* "Relationship" *)
Definition s_Relationships : str := [82; 101; 108; 97; 116; 105; 111; 110; 115; 104; 105; 112; 115].  (* "Relationships" *)
Definition s_Id : str := [73; 100].  (* "Id" *)
Definition s_Target : str := [84; 97; 114; 103; 101; 116].  (* "Target" *)
Definition s_Type : str := [84; 121; 112; 101].  (* "Type" *)
Definition s_table_type : str := [104; 116; 116; 112; 58; 47; 47; 115; 99; 104; 101; 109; 97; 115; 46; 111; 112; 101; 110; 120; 109; 108; 102; 111; 114; 109; 97; 116; 115; 46; 111; 114; 103; 47; 111; 102; 102; 105; 99; 101; 68; 111; 99; 117; 109; 101; 110; 116; 47; 50; 48; 48; 54; 47; 114; 101; 108; 97; 116; 105; 111; 110; 115; 104; 105; 112; 115; 47; 116; 97; 98; 108; 101].  (* "http://schemas.openxmlformats.org/officeDocument/2006/relationships/table" *)
Definition s_table_type_strict : str := [104; 116; 116; 112; 58; 47; 47; 112; 117; 114; 108; 46; 111; 99; 108; 99; 46; 111; 114; 103; 47; 111; 111; 120; 109; 108; 47; 111; 102; 102; 105; 99; 101; 68; 111; 99; 117; 109; 101; 110; 116; 47; 114; 101; 108; 97; 116; 105; 111; 110; 115; 104; 105; 112; 115; 47; 116; 97; 98; 108; 101].  (* "http://purl.oclc.org/ooxml/officeDocument/relationships/table" *)
Definition s_dotdotslash : str := [46; 46; 47].  (* "../" *)
Definition s_slash_rels : str := [47; 95; 114; 101; 108; 115].  (* "/_rels" *)
Definition s_dot_rels : str := [46; 114; 101; 108; 115].  (* ".rels" *)
Definition s_table : str := [116; 97; 98; 108; 101].  (* "table" *)
Definition s_tableColumn : str := [116; 97; 98; 108; 101; 67; 111; 108; 117; 109; 110].  (* "tableColumn" *)
Definition s_tableColumns : str := [116; 97; 98; 108; 101; 67; 111; 108; 117; 109; 110; 115].  (* "tableColumns" *)
Definition s_displayName : str := [100; 105; 115; 112; 108; 97; 121; 78; 97; 109; 101].  (* "displayName" *)
Definition s_headerRowCount : str := [104; 101; 97; 100; 101; 114; 82; 111; 119; 67; 111; 117; 110; 116].  (* "headerRowCount" *)
Definition s_insertRow : str := [105; 110; 115; 101; 114; 116; 82; 111; 119].  (* "insertRow" *)
Definition s_totalsRowCount : str := [116; 111; 116; 97; 108; 115; 82; 111; 119; 67; 111; 117; 110; 116].  (* "totalsRowCount" *)
Definition s_name : str := [110; 97; 109; 101].  (* "name" *)
Definition s_zero : str := [48].  (* "0" *)
Definition s_one : str := [49].  (* "1" *)
Definition s_false : str := [102; 97; 108; 115; 101].  (* "false" *)
Definition s_true : str := [116; 114; 117; 101].  (* "true" *)
Definition s_id : str := [105; 100].  (* "id" *)
Definition s_rId : str := [114; 73; 100].  (* "rId" *)
Definition s_xl_worksheets : str := [120; 108; 47; 119; 111; 114; 107; 115; 104; 101; 101; 116; 115; 47].  (* "xl/worksheets/" *)
Definition s_xl_worksheets_dir : str := [120; 108; 47; 119; 111; 114; 107; 115; 104; 101; 101; 116; 115].  (* "xl/worksheets" *)
Definition s_xl : str := [120; 108].  (* "xl" *)
Definition s_slash_tables : str := [47; 116; 97; 98; 108; 101; 115; 47].  (* "/tables/" *)
Definition s_xl_tables : str := [120; 108; 47; 116; 97; 98; 108; 101; 115; 47].  (* "xl/tables/" *)
Definition s_dd_tables : str := [46; 46; 47; 116; 97; 98; 108; 101; 115; 47].  (* "../tables/" *)
Definition s_abs_tables : str := [47; 120; 108; 47; 116; 97; 98; 108; 101; 115; 47].  (* "/xl/tables/" *)
Definition s_xl_worksheets_rels : str := [120; 108; 47; 119; 111; 114; 107; 115; 104; 101; 101; 116; 115; 47; 95; 114; 101; 108; 115; 47].  (* "xl/worksheets/_rels/" *)
Definition n_amp : str := [97; 109; 112].  (* "amp" *)
Definition n_lt : str := [108; 116].  (* "lt" *)
Definition n_gt : str := [103; 116].  (* "gt" *)
Definition n_quot : str := [113; 117; 111; 116].  (* "quot" *)
Definition n_apos : str := [97; 112; 111; 115].  (* "apos" *)
Definition ch_amp : N := 38.     (* & *)
Definition ch_semi : N := 59.    (* ; *)
Definition ch_hash : N := 35.    (* # *)
Definition ch_x : N := 120.      (* x *)
Definition s_tableStyleInfo : str := [116; 97; 98; 108; 101; 83; 116; 121; 108; 101; 73; 110; 102; 111].  (* "tableStyleInfo" *)
Definition s_style_name : str := [84; 97; 98; 108; 101; 83; 116; 121; 108; 101; 77; 101; 100; 105; 117; 109; 50].  (* "TableStyleMedium2" *)
Definition ch_slash : N := 47.

(* error classes (never compared beyond "err") *)
Definition E_XML_EOF : N := 10.
Definition E_TABLE_NOT_FOUND : N := 11.
Definition E_PARSE_INT : N := 12.
Definition E_ESCAPE : N := 14.           (* quick_xml::escape::EscapeError *)
Definition E_UNEXPECTED : N := 15.       (* XlsxError::Unexpected *)

(* ------------------------------------------------------------------ XML events, zip *)
Inductive event : Type :=
| EStart (name : str) (attrs : list (str * str))   (* qualified name; (key, raw value) in document order *)
| EEnd (name : str)
| EText (s : str)                                  (* character data (ignored by every loop here) *)
| ERaw (s : str).                                  (* comment / PI / declaration markup, verbatim *)

(* QName::local_name: the part after the first ':' *)
Fixpoint after_colon (s : str) : option str :=
  match s with
  | [] => None
  | c :: t => if c =? ch_colon then Some t else after_colon t
  end.
Definition local_name (s : str) : str :=
  match after_colon s with Some t => t | None => s end.

(* get_attribute(atts, QName(k)): the first attribute whose whole key equals k *)
Fixpoint first_attr (attrs : list (str * str)) (k : str) : option str :=
  match attrs with
  | [] => None
  | (k', v) :: t => if str_eqb k' k then Some v else first_attr t k
  end.

Definition zip := list (str * list event).
(* xml_reader: zip.file_names().find(|n| n.eq_ignore_ascii_case(path)) *)
Fixpoint zip_find (z : zip) (path : str) : option (list event) :=
  match z with
  | [] => None
  | (n, evs) :: t => if eq_ignore_ascii_case n path then Some evs else zip_find t path
  end.

(* ================================================================== MODEL: the A1 scanner *)
(* get_row_and_optional_column / get_row_column / get_dimension (u64 saturating accumulators,
   u32::try_from -> Err, no subtraction in get_dimension: commits 348f419 and 717a5d9) are
   Col26.get_row_and_optional_column / Col26.get_row_column / Col26.get_dimension; Col26.v was
   resynced to that code, so the local copy (get_dimension_h) that stood here is gone. *)

(* ================================================================== MODEL: xlsx merged regions *)

(* the event loop of read_merged_regions over one sheet part: every Start whose local name is
   mergeCell, anywhere in the part, until Eof; get_attribute(.., "ref"); get_dimension(..)? *)
Fixpoint scan_merge_regions (evs : list event) : outcome (list dims) :=
  match evs with
  | [] => Ok []
  | EStart n attrs :: t =>
      if str_eqb (local_name n) s_mergeCell then
        match first_attr attrs s_ref with
        | Some v => do d <- get_dimension v; do rest <- scan_merge_regions t; Ok (d :: rest)
        | None => scan_merge_regions t
        end
      else scan_merge_regions t
  | _ :: t => scan_merge_regions t
  end.

(* read_merged_regions: for (sheet_name, sheet_path) in &self.sheets *)
Fixpoint read_merged_regions (z : zip) (sheets : list (str * str))
  : outcome (list (str * str * dims)) :=
  match sheets with
  | [] => Ok []
  | (name, path) :: t =>
      match zip_find z path with
      | None => read_merged_regions z t                               (* None => continue *)
      | Some evs =>
          do ds <- scan_merge_regions evs;
          do rest <- read_merged_regions z t;
          Ok (map (fun d => (name, path, d)) ds ++ rest)
      end
  end.

(* merged_regions_by_sheet *)
Definition merged_regions_by_sheet (regions : list (str * str * dims)) (name : str)
  : list (str * str * dims) :=
  filter (fun r => str_eqb (fst (fst r)) name) regions.

(* read_merge_cells: after <mergeCells>, until </mergeCells>; the first attribute named ref *)
Fixpoint read_merge_cells (evs : list event) : outcome (list dims) :=
  match evs with
  | [] => Err E_XML_EOF
  | EStart n attrs :: t =>
      if str_eqb (local_name n) s_mergeCell then
        match first_attr attrs s_ref with
        | Some v => do d <- get_dimension v; do rest <- read_merge_cells t; Ok (d :: rest)
        | None => read_merge_cells t
        end
      else read_merge_cells t
  | EEnd n :: t =>
      if str_eqb (local_name n) s_mergeCells then Ok [] else read_merge_cells t
  | _ :: t => read_merge_cells t
  end.

(* the loop of worksheet_merge_cells: the first <mergeCells>; `if let Ok(cells) = read_merge_cells`
   swallows an error (the result is then the empty list); a panic is not swallowed *)
Fixpoint find_merge_cells (evs : list event) : outcome (list dims) :=
  match evs with
  | [] => Ok []
  | EStart n _ :: t =>
      if str_eqb (local_name n) s_mergeCells then
        match read_merge_cells t with
        | Ok cells => Ok cells
        | Err _ => Ok []
        | Panic => Panic
        | OutOfFuel => OutOfFuel
        end
      else find_merge_cells t
  | _ :: t => find_merge_cells t
  end.

Fixpoint sheet_path (sheets : list (str * str)) (name : str) : option str :=
  match sheets with
  | [] => None
  | (n, p) :: t => if str_eqb n name then Some p else sheet_path t name
  end.

Definition worksheet_merge_cells (z : zip) (sheets : list (str * str)) (name : str)
  : option (outcome (list dims)) :=
  match sheet_path sheets name with
  | None => None
  | Some path =>
      match zip_find z path with
      | None => None
      | Some evs => Some (find_merge_cells evs)
      end
  end.

(* worksheet_merge_cells_at: metadata().sheets.get(n) runs parallel to self.sheets *)
Definition worksheet_merge_cells_at (z : zip) (sheets : list (str * str)) (n : nat)
  : option (outcome (list dims)) :=
  match nth_error sheets n with
  | None => None
  | Some (name, _) => worksheet_merge_cells z sheets name
  end.

(* ================================================================== MODEL: xlsx tables *)

(* str::rfind('/') as a byte index *)
Fixpoint rfind_aux (s : str) (i : nat) (acc : option nat) : option nat :=
  match s with
  | [] => acc
  | c :: t => rfind_aux t (S i) (if c =? ch_slash then Some i else acc)
  end.
Definition rfind_slash (s : str) : option nat := rfind_aux s 0 None.

(* sheet_path.rfind('/').expect(..); split_at; format!("{}/_rels{}.rels", base_folder, file_name) *)
Definition rels_location (sheet_path : str) : outcome (str * str) :=
  match rfind_slash sheet_path with
  | None => Panic
  | Some i =>
      let base := firstn i sheet_path in
      let file := skipn i sheet_path in
      Ok (base, base ++ s_slash_rels ++ file ++ s_dot_rels)
  end.

(* the attribute loop of a Relationship element: later attributes overwrite earlier ones; the
   type is a table relationship in its transitional or its strict (ISO/IEC 29500) spelling *)
Definition is_table_type (v : str) : bool :=
  str_eqb v s_table_type || str_eqb v s_table_type_strict.
Definition rel_attr (acc : str * bool) (kv : str * str) : str * bool :=
  if str_eqb (fst kv) s_Target then (snd kv, snd acc)
  else if str_eqb (fst kv) s_Type then (fst acc, is_table_type (snd kv))
  else acc.

(* "../" targets are resolved against the parent of the sheet's folder (no parent: an error);
   a target with a leading '/' names the part from the package root (strip_prefix('/')); the
   empty target is skipped; everything else is used as a zip name as it stands *)
Definition resolve_target (base_folder target : str) : outcome (option str) :=
  if starts_with s_dotdotslash target then
    match rfind_slash base_folder with
    | None => Err E_UNEXPECTED                                   (* ok_or(Unexpected(..))? *)
    | Some j => Ok (Some (firstn j base_folder ++ skipn 2 target))
    end
  else match target with
       | [] => Ok None
       | c :: rest => if c =? ch_slash then Ok (Some rest) else Ok (Some target)
       end.

Fixpoint scan_rels (base_folder : str) (evs : list event) : outcome (list str) :=
  match evs with
  | [] => Err E_XML_EOF
  | EStart n attrs :: t =>
      if str_eqb (local_name n) s_Relationship then
        let '(target, table_type) := fold_left rel_attr attrs ([], false) in
        if table_type then
          do loc <- resolve_target base_folder target;
          do rest <- scan_rels base_folder t;
          Ok (match loc with Some p => p :: rest | None => rest end)
        else scan_rels base_folder t
      else scan_rels base_folder t
  | EEnd n :: t =>
      if str_eqb (local_name n) s_Relationships then Ok [] else scan_rels base_folder t
  | _ :: t => scan_rels base_folder t
  end.

(* str::parse::<u32>(): optional '+', then at least one ASCII digit, value <= u32::MAX *)
Definition parse_u32 (s : str) : outcome N :=
  let ds := match s with c :: t => if c =? 43 then t else s | [] => s end in
  match ds with
  | [] => Err E_PARSE_INT
  | _ => if forallb is_digit ds
         then (if undec ds <=? U32MAX then Ok (undec ds) else Err E_PARSE_INT)
         else Err E_PARSE_INT
  end.

(* ---------- Attribute::decode_and_unescape_value (quick-xml 0.37.5 escape::unescape_with) ----------
   The value is cut at every '&' and ';': an '&' must be followed — before any other '&' — by a
   ';'; the text between them is "#" + a decimal number, "#x" + a hexadecimal number (a character
   reference) or one of the five predefined entity names; anything else is an EscapeError. *)

(* char::encode_utf8 *)
Definition utf8_enc (c : N) : str :=
  if c <? 128 then [c]
  else if c <? 2048 then [192 + c / 64; 128 + c mod 64]
  else if c <? 65536 then [224 + c / 4096; 128 + (c / 64) mod 64; 128 + c mod 64]
  else [240 + c / 262144; 128 + (c / 4096) mod 64; 128 + (c / 64) mod 64; 128 + c mod 64].
(* char::from_u32(c).is_some() *)
Definition is_scalar (c : N) : bool := (c <? 55296) || ((57343 <? c) && (c <=? 1114111)).

Definition decval (c : N) : option N := if is_digit c then Some (c - 48) else None.
Definition hexval (c : N) : option N :=            (* char::to_digit(16) *)
  if is_digit c then Some (c - 48)
  else if (97 <=? c) && (c <=? 102) then Some (c - 87)
  else if (65 <=? c) && (c <=? 70) then Some (c - 55)
  else None.
Fixpoint radix_acc (val : N -> option N) (radix : N) (s : str) (acc : N) : option N :=
  match s with
  | [] => Some acc
  | c :: t => match val c with
              | None => None
              | Some dg => radix_acc val radix t (acc * radix + dg)
              end
  end.
(* escape::from_str_radix: a leading sign is refused by quick-xml, every other non-digit and the
   empty string by u32::from_str_radix ('+' and '-' are no digits: one test covers both); a value
   above u32::MAX is an overflow error *)
Definition from_str_radix (val : N -> option N) (radix : N) (s : str) : option N :=
  match s with
  | [] => None
  | _ => match radix_acc val radix s 0 with
         | Some v => if v <=? U32MAX then Some v else None
         | None => None
         end
  end.
(* escape::parse_number *)
Definition parse_char_ref (num : str) : option N :=
  let code := match num with
              | c :: hex => if c =? ch_x then from_str_radix hexval 16 hex
                            else from_str_radix decval 10 num
              | [] => None
              end in
  match code with
  | None => None
  | Some c => if c =? 0 then None else if is_scalar c then Some c else None
  end.
Definition resolve_entity (pat : str) : outcome str :=
  match pat with
  | c :: num =>
      if c =? ch_hash then
        match parse_char_ref num with Some cp => Ok (utf8_enc cp) | None => Err E_ESCAPE end
      else if str_eqb pat n_lt then Ok [60]
      else if str_eqb pat n_gt then Ok [62]
      else if str_eqb pat n_amp then Ok [38]
      else if str_eqb pat n_apos then Ok [39]
      else if str_eqb pat n_quot then Ok [34]
      else Err E_ESCAPE
  | [] => Err E_ESCAPE
  end.
(* [pend] = Some p: inside an entity, p = the characters after the '&' so far, reversed *)
Fixpoint unesc_go (s : str) (pend : option str) : outcome str :=
  match s with
  | [] => match pend with None => Ok [] | Some _ => Err E_ESCAPE end     (* UnterminatedEntity *)
  | c :: t =>
      match pend with
      | None => if c =? ch_amp then unesc_go t (Some [])
                else do r <- unesc_go t None; Ok (c :: r)
      | Some p => if c =? ch_semi then
                    do e <- resolve_entity (rev p); do r <- unesc_go t None; Ok (e ++ r)
                  else if c =? ch_amp then Err E_ESCAPE                   (* UnterminatedEntity *)
                  else unesc_go t (Some (c :: p))
      end
  end.
Definition unescape (s : str) : outcome str := unesc_go s None.

(* ---------- the ST_Xstring layer of a column name (src/xlsx/mod.rs unescape_xstring) ----------
   `tableColumn/@name` is an ST_Xstring (ECMA-376 Part 1, 18.5.1.3 / 22.9.2.19) holding the text
   of the header cell: after the XML unescaping the value goes through unescape_xstring.  The Rust
   function walks the UTF-8 bytes; where no escape starts it copies one whole character and
   advances by its length.  A continuation byte (>= 0x80) never equals '_', so copying byte by
   byte — as below — visits the same escape positions on every valid UTF-8 string (a Rust String
   is always valid UTF-8). *)
(* s.contains("_x") *)
Fixpoint contains_ux (s : str) : bool :=
  match s with
  | [] => false
  | c :: r => ((c =? 95) && match r with x :: _ => x =? 120 | [] => false end) || contains_ux r
  end.
(* u8::is_ascii_hexdigit / (h as char).to_digit(16) on such a byte *)
Definition is_ascii_hexdigit (c : N) : bool :=
  ((48 <=? c) && (c <=? 57)) || ((65 <=? c) && (c <=? 70)) || ((97 <=? c) && (c <=? 102)).
Definition to_digit16 (c : N) : N :=
  if c <=? 57 then c - 48 else if c <=? 70 then c - 55 else c - 87.
(* one iteration of `while i < b.len()` per call *)
Fixpoint ux_loop (s : str) : str :=
  match s with
  | [] => []
  | c :: s' =>
    match s' with
    | x :: h1 :: h2 :: h3 :: h4 :: u :: r =>
      (* b[i] == b'_' && i + 7 <= b.len() && b[i + 1] == b'x' && b[i + 6] == b'_' *)
      if (c =? 95) && (x =? 120) && (u =? 95) then
        if forallb is_ascii_hexdigit [h1; h2; h3; h4] then
          let code := fold_left (fun a h => a * 16 + to_digit16 h) [h1; h2; h3; h4] 0 in
          if is_scalar code                                    (* char::from_u32(code) *)
          then utf8_enc code ++ ux_loop r                      (* out.push(c); i += 7; continue *)
          else c :: ux_loop s'
        else c :: ux_loop s'
      else c :: ux_loop s'
    | _ => c :: ux_loop s'
    end
  end.
Definition unescape_xstring (s : str) : str :=
  if contains_ux s then ux_loop s else s.                      (* if !s.contains("_x") { return s } *)

Record tmeta : Type := mkTmeta {
  tm_name : str; tm_ref : str; tm_header : N; tm_insert : bool; tm_totals : N }.
Definition tmeta_init : tmeta := mkTmeta [] [] 1 false 0.      (* InnerTableMetadata::new() *)

Definition table_attr (m : tmeta) (kv : str * str) : outcome tmeta :=
  let k := fst kv in let v := snd kv in
  if str_eqb k s_displayName then                                (* decode_and_unescape_value *)
    do u <- unescape v; Ok (mkTmeta u (tm_ref m) (tm_header m) (tm_insert m) (tm_totals m))
  else if str_eqb k s_ref then Ok (mkTmeta (tm_name m) v (tm_header m) (tm_insert m) (tm_totals m))
  else if str_eqb k s_headerRowCount then
    do n <- parse_u32 v; Ok (mkTmeta (tm_name m) (tm_ref m) n (tm_insert m) (tm_totals m))
  else if str_eqb k s_insertRow then                             (* matches!(&*v, b"1" | b"true") *)
    Ok (mkTmeta (tm_name m) (tm_ref m) (tm_header m) (str_eqb v s_one || str_eqb v s_true) (tm_totals m))
  else if str_eqb k s_totalsRowCount then
    do n <- parse_u32 v; Ok (mkTmeta (tm_name m) (tm_ref m) (tm_header m) (tm_insert m) n)
  else Ok m.

Fixpoint table_attrs (m : tmeta) (attrs : list (str * str)) : outcome tmeta :=
  match attrs with
  | [] => Ok m
  | kv :: t => do m' <- table_attr m kv; table_attrs m' t
  end.

(* every attribute of a tableColumn element whose key is exactly "name": unescaped as XML, then
   as an ST_Xstring (unescape_xstring(a.decode_and_unescape_value(..)?.into_owned())) *)
Fixpoint column_names (attrs : list (str * str)) : outcome (list str) :=
  match attrs with
  | [] => Ok []
  | kv :: t => if str_eqb (fst kv) s_name
               then do u <- unescape (snd kv); do r <- column_names t;
                    Ok (unescape_xstring u :: r)
               else column_names t
  end.

Fixpoint scan_table (evs : list event) (m : tmeta) (cols : list str) : outcome (tmeta * list str) :=
  match evs with
  | [] => Err E_XML_EOF
  | EStart n attrs :: t =>
      if str_eqb (local_name n) s_table then do m' <- table_attrs m attrs; scan_table t m' cols
      else if str_eqb (local_name n) s_tableColumn then
        do cs <- column_names attrs; scan_table t m (cols ++ cs)
      else scan_table t m cols
  | EEnd n :: t =>
      if str_eqb (local_name n) s_table then Ok (m, cols) else scan_table t m cols
  | _ :: t => scan_table t m cols
  end.

(* the geometry arithmetic after the table part has been scanned (u32, all checked): the header
   rows move the first row down; the totals rows and the insert row are taken off the last row;
   when they reach up to row 0 the table has no data rows, recorded — like every table without
   data rows — as a first data row below the last one *)
Definition table_dims (m : tmeta) : outcome dims :=
  do d <- get_dimension (tm_ref m);
  let '((sr, sc), (er, ec)) := d in
  do sr1 <- (if tm_header m =? 0 then Ok sr
             else if sr + tm_header m <=? U32MAX then Ok (sr + tm_header m) else Err E_UNEXPECTED);
  let ins := if tm_insert m then 1 else 0 in
  do below <- (if tm_totals m + ins <=? U32MAX then Ok (tm_totals m + ins) else Err E_UNEXPECTED);
  if below <=? er then Ok ((sr1, sc), (er - below, ec))
  else Ok ((N.max sr1 (er + 1), sc), (er, ec)).

Definition table_entry := (str * str * list str * dims)%type.   (* name, sheet, columns, data box *)
Definition te_name (t : table_entry) : str := fst (fst (fst t)).
Definition te_sheet (t : table_entry) : str := snd (fst (fst t)).
Definition te_cols (t : table_entry) : list str := snd (fst t).
Definition te_dims (t : table_entry) : dims := snd t.

Fixpoint read_table_files (z : zip) (sheet_name : str) (files : list str)
  : outcome (list table_entry) :=
  match files with
  | [] => Ok []
  | f :: t =>
      match zip_find z f with
      | None => read_table_files z sheet_name t                       (* None => continue *)
      | Some evs =>
          do mc <- scan_table evs tmeta_init [];
          do d <- table_dims (fst mc);
          do rest <- read_table_files z sheet_name t;
          Ok ((tm_name (fst mc), sheet_name, snd mc, d) :: rest)
      end
  end.

Fixpoint read_table_metadata (z : zip) (sheets : list (str * str)) : outcome (list table_entry) :=
  match sheets with
  | [] => Ok []
  | (name, path) :: t =>
      do loc <- rels_location path;
      match zip_find z (snd loc) with
      | None => read_table_metadata z t                               (* None => continue *)
      | Some evs =>
          do files <- scan_rels (fst loc) evs;
          do ts <- read_table_files z name files;
          do rest <- read_table_metadata z t;
          Ok (ts ++ rest)
      end
  end.

Definition table_names (tables : list table_entry) : list str := map te_name tables.
Definition table_names_in_sheet (tables : list table_entry) (sheet : str) : list str :=
  map te_name (filter (fun t => str_eqb (te_sheet t) sheet) tables).

(* get_table_meta: the first entry with that name *)
Fixpoint get_table_meta (tables : list table_entry) (name : str) : outcome table_entry :=
  match tables with
  | [] => Err E_TABLE_NOT_FOUND
  | t :: rest => if str_eqb (te_name t) name then Ok t else get_table_meta rest name
  end.

(* `start.0 > end.0 || start.1 > end.1`: the stored box of a table without data rows *)
Definition no_data (b : dims) : bool :=
  (fst (snd b) <? fst (fst b)) || (snd (snd b) <? snd (fst b)).

Section TableData.
Variable T : Type.
Variable d : T.                                        (* Data::default() / DataRef::default() *)
(* worksheet_range(&sheet_name) / worksheet_range_ref: the cell reader (property C01) *)
Variable sheet_range : str -> outcome (range T).

(* table_by_name / table_by_name_ref: Range::default() for a table without data rows, else
   range.range(start, end) on the sheet's range *)
Definition table_by_name (tables : list table_entry) (name : str)
  : outcome (str * str * list str * range T) :=
  do t <- get_table_meta tables name;
  do r <- sheet_range (te_sheet t);
  do w <- (if no_data (te_dims t) then Ok (@empty T)
           else window d r (fst (te_dims t)) (snd (te_dims t)));
  Ok (te_name t, te_sheet t, te_cols t, w).
End TableData.

(* the cell reader as far as this property needs it: Range::from_sparse over the sheet's
   non-empty cells in document order (used by the executable correspondence only) *)
Definition sheet_range_of (T : Type) (d : T) (cells : list (str * list (pos * T))) (name : str)
  : outcome (range T) :=
  match find (fun sc => str_eqb (fst sc) name) cells with
  | None => Err 13
  | Some sc => from_sparse d (snd sc)
  end.

(* ================================================================== MODEL: xls merged regions *)

Definition read_u16 (r : list N) : outcome N :=          (* u16::from_le_bytes(s[..2].try_into().unwrap()) *)
  match r with
  | a :: b :: _ => Ok (a + 256 * b)
  | _ => Panic
  end.
Definition slice_from (r : list N) (off : nat) : outcome (list N) :=   (* &r[off..] *)
  if Nat.ltb (length r) off then Panic else Ok (skipn off r).
Definition E_LEN : N := 17.                 (* XlsError::Len { typ: "MergeCells", .. } *)

(* for i in 0..count { let offset = 2 + i * 8; … }  — usize since c8fd2d5; the four slices and
   read_u16 calls keep their panic sites here, the two length checks of [parse_merge_cells] make
   them unreachable (Merge_proofs.parse_merge_cells_safe) *)
Fixpoint pmc_loop (todo : nat) (i : N) (r : list N) : outcome (list dims) :=
  match todo with
  | O => Ok []
  | S k =>
      let off := N.to_nat (2 + i * 8) in
      do s0 <- slice_from r off;         do rf <- read_u16 s0;
      do s1 <- slice_from r (off + 2);   do rl <- read_u16 s1;
      do s2 <- slice_from r (off + 4);   do cf <- read_u16 s2;
      do s3 <- slice_from r (off + 6);   do cl <- read_u16 s3;
      do rest <- pmc_loop k (i + 1) r;
      Ok (((rf, cf), (rl, cl)) :: rest)
  end.

(* if r.len() < 2 { Err(Len) }; count = read_u16(r) as usize;
   if r.len() < 2 + count * 8 { Err(Len) }; the loop *)
Definition parse_merge_cells (r : list N) : outcome (list dims) :=
  if N.of_nat (length r) <? 2 then Err E_LEN else
  do count <- read_u16 r;
  if N.of_nat (length r) <? 2 + count * 8 then Err E_LEN else
  pmc_loop (N.to_nat count) 0 r.

(* The same function in linear time (the statement-by-statement version above re-slices the
   record from its start for every field).  [s] is r[2 + 8 i ..]: each of the eight unchecked
   steps of an iteration panics exactly when fewer than 8 bytes are left.  Equality with
   [parse_merge_cells] is Merge_proofs.parse_merge_cells_fast_eq; the executable correspondence
   runs this version. *)
Fixpoint pmc_fast (todo : nat) (s : list N) : outcome (list dims) :=
  match todo with
  | O => Ok []
  | S k =>
      match s with
      | a0 :: a1 :: b0 :: b1 :: c0 :: c1 :: d0 :: d1 :: s' =>
          do rest <- pmc_fast k s';
          Ok (((a0 + 256 * a1, c0 + 256 * c1), (b0 + 256 * b1, d0 + 256 * d1)) :: rest)
      | _ => Panic
      end
  end.
Definition parse_merge_cells_fast (r : list N) : outcome (list dims) :=
  if N.of_nat (length r) <? 2 then Err E_LEN else
  do count <- read_u16 r;
  if N.of_nat (length r) <? 2 + count * 8 then Err E_LEN else
  pmc_fast (N.to_nat count) (skipn 2 r).

Definition xrec := (N * list N)%type.                     (* record type, record data *)
Definition REC_MERGECELLS : N := 229.   (* 0x00E5 *)
Definition REC_EOF : N := 10.           (* 0x000A *)
Definition REC_BOF : N := 2057.         (* 0x0809 *)

(* the sheet-substream loop of parse_workbook, restricted to what touches merge_cells.  Cell
   records are the business of C02; they never touch merge_cells.  The loops are written over
   the record parser [pmc] so that the executable correspondence can run them with the
   linear-time [parse_merge_cells_fast] (equal by Merge_proofs.xls_sheets_fast_eq).
   [depth] = the substreams open at this record (repo commit "fix: records of a chart substream
   nested in an xls worksheet ..."): the record list starts with the sheet's own BOF (0 -> 1); a
   BOF inside opens a nested substream (the chart of an embedded chart object), in which an EOF
   only closes it and every other record - a MERGECELLS record too - is skipped. *)
Section XlsWith.
Variable pmc : list N -> outcome (list dims).
Fixpoint xls_sheet_merges_with (recs : list xrec) (acc : list dims) (depth : N)
  : outcome (list dims) :=
  match recs with
  | [] => Ok acc
  | (typ, data) :: t =>
      if typ =? REC_BOF then xls_sheet_merges_with t acc (depth + 1)
      else if 1 <? depth then
        xls_sheet_merges_with t acc (if typ =? REC_EOF then depth - 1 else depth)
      else if typ =? REC_MERGECELLS then
        do ds <- pmc data; xls_sheet_merges_with t (acc ++ ds) depth
      else if typ =? REC_EOF then Ok acc
      else xls_sheet_merges_with t acc depth
  end.

(* for (pos, name) in sheet_names { …; sheets.insert(name, SheetData{..}) } *)
Fixpoint xls_sheets_with (subs : list (str * list xrec)) : outcome (list (str * list dims)) :=
  match subs with
  | [] => Ok []
  | (name, recs) :: t =>
      do ds <- xls_sheet_merges_with recs [] 0;
      do rest <- xls_sheets_with t;
      Ok ((name, ds) :: rest)
  end.
End XlsWith.
Definition xls_sheet_merges := xls_sheet_merges_with parse_merge_cells.
Definition xls_sheets := xls_sheets_with parse_merge_cells.
Definition xls_sheets_fast := xls_sheets_with parse_merge_cells_fast.

(* BTreeMap::insert replaces: of several substreams with one name the last one stays *)
Fixpoint map_get (m : list (str * list dims)) (name : str) : option (list dims) :=
  match m with
  | [] => None
  | (n, ds) :: t =>
      match map_get t name with
      | Some later => Some later
      | None => if str_eqb n name then Some ds else None
      end
  end.

Definition xls_worksheet_merge_cells (m : list (str * list dims)) (name : str) : option (list dims) :=
  map_get m name.
Definition xls_worksheet_merge_cells_at (m : list (str * list dims)) (n : nat) : option (list dims) :=
  match nth_error m n with              (* metadata.sheets runs parallel to the substream list *)
  | None => None
  | Some (name, _) => map_get m name
  end.

(* ================================================================== SPEC *)
(* A workbook as the file declares it.  A region / table reference is a pair of corners,
   0-based (row, column). *)
Record table_l : Type := mkTable {
  tl_name : str;               (* displayName *)
  tl_cols : list str;          (* column names, in order: the texts of the header cells *)
  tl_ref : dims;               (* the whole table: header, data, totals, insert row *)
  tl_header : N;               (* header rows: 0 or 1 *)
  tl_totals : N;               (* totals rows: 0 or 1 *)
  tl_insert : bool }.          (* the insert row of an empty table is showing (insertRow) *)

(* rows at the bottom of the reference that hold no data *)
Definition tl_below (t : table_l) : N := tl_totals t + (if tl_insert t then 1 else 0).
(* the data box: the reference minus the header rows at the top and the totals rows / insert row
   at the bottom; None when no row is left (header-only, totals-only, empty table) *)
Definition data_box (t : table_l) : option dims :=
  if fst (fst (tl_ref t)) + tl_header t + tl_below t <=? fst (snd (tl_ref t))
  then Some ((fst (fst (tl_ref t)) + tl_header t, snd (fst (tl_ref t))),
             (fst (snd (tl_ref t)) - tl_below t, snd (snd (tl_ref t))))
  else None.

Definition dims_ok (max_row max_col : N) (d : dims) : Prop :=
  fst (fst d) <= fst (snd d) /\ snd (fst d) <= snd (snd d) /\
  fst (snd d) < max_row /\ snd (snd d) < max_col.
Definition dims_okb (max_row max_col : N) (d : dims) : bool :=
  (fst (fst d) <=? fst (snd d)) && (snd (fst d) <=? snd (snd d)) &&
  (fst (snd d) <? max_row) && (snd (snd d) <? max_col).

Definition XLSX_ROWS : N := 1048576.   Definition XLSX_COLS : N := 16384.
Definition XLS_ROWS : N := 65536.      Definition XLS_COLS : N := 256.

(* ================================================================== ENCODERS: xlsx *)
Definition qn (p : option str) (n : str) : str :=
  match p with None => n | Some p => p ++ [ch_colon] ++ n end.

(* ---------- how a name is spelled inside an attribute value ----------
   A name is written as a sequence of pieces: literal bytes, a predefined entity, or a decimal /
   hexadecimal character reference with any number of leading zeros. *)
Inductive piece : Type :=
| PLit (b : str)                              (* bytes as they are *)
| PNamed (c : N)                              (* &amp; &lt; &gt; &quot; &apos; for the character c *)
| PDec (cp : N) (w : nat)                     (* &#ddd;   the w low decimal digits of cp *)
| PHex (cp : N) (w : nat) (upper : bool).     (* &#xhhh;  the w low hexadecimal digits of cp *)
Definition spelling := list piece.

(* the w low digits of n in the given radix, most significant first *)
Fixpoint num_w (dig : N -> N) (radix : N) (w : nat) (n : N) : str :=
  match w with
  | O => []
  | S k => num_w dig radix k (n / radix) ++ [dig (n mod radix)]
  end.
Definition decdig (x : N) : N := 48 + x.
Definition hexdig (upper : bool) (x : N) : N :=
  if x <? 10 then 48 + x else (if upper then 55 else 87) + x.
Definition entity_name (c : N) : str :=
  if c =? 38 then n_amp else if c =? 60 then n_lt else if c =? 62 then n_gt
  else if c =? 34 then n_quot else if c =? 39 then n_apos else [].

Definition render_piece (p : piece) : str :=
  match p with
  | PLit b => b
  | PNamed c => [ch_amp] ++ entity_name c ++ [ch_semi]
  | PDec cp w => [ch_amp; ch_hash] ++ num_w decdig 10 w cp ++ [ch_semi]
  | PHex cp w up => [ch_amp; ch_hash; ch_x] ++ num_w (hexdig up) 16 w cp ++ [ch_semi]
  end.
Definition render_sp (sp : spelling) : str := flat_map render_piece sp.
(* the name the spelling stands for *)
Definition piece_value (p : piece) : str :=
  match p with
  | PLit b => b
  | PNamed c => [c]
  | PDec cp _ | PHex cp _ _ => utf8_enc cp
  end.
Definition sp_value (sp : spelling) : str := flat_map piece_value sp.

(* a byte that may stand literally inside a double-quoted attribute value: not & (38), < (60),
   the double quote (34), and not TAB / LF / CR (a conforming XML processor would normalise
   those to a space) *)
Definition lit_ok (c : N) : bool :=
  negb ((c =? 38) || (c =? 60) || (c =? 34) || (c =? 9) || (c =? 10) || (c =? 13)).
(* the production Char of XML 1.0 *)
Definition xml_char (c : N) : bool :=
  (c =? 9) || (c =? 10) || (c =? 13) || ((32 <=? c) && (c <=? 55295)) ||
  ((57344 <=? c) && (c <=? 65533)) || ((65536 <=? c) && (c <=? 1114111)).
Fixpoint pow_nat (b : N) (w : nat) : N := match w with O => 1 | S k => b * pow_nat b k end.
Definition piece_legal (p : piece) : bool :=
  match p with
  | PLit b => forallb lit_ok b
  | PNamed c => (c =? 38) || (c =? 60) || (c =? 62) || (c =? 34) || (c =? 39)
  | PDec cp w => xml_char cp && (cp <? pow_nat 10 w)
  | PHex cp w _ => xml_char cp && (cp <? pow_nat 16 w)
  end.
Definition sp_legal (sp : spelling) : bool := forallb piece_legal sp.
(* the usual attribute-value escaping of XML writers, character by character *)
Definition esc_piece (c : N) : piece :=
  if (c =? 38) || (c =? 60) || (c =? 62) || (c =? 34) then PNamed c
  else if lit_ok c then PLit [c] else PDec c 2.
Definition esc_sp (s : str) : spelling := map esc_piece s.

(* ---------- the ST_Xstring layer (ECMA-376 Part 1, 22.9.2.19) ----------
   A column name is the text of the header cell, stored as an ST_Xstring: inside the (XML-decoded)
   attribute value the seven characters _xHHHH_ — lower-case x, exactly four hexadecimal digits of
   either case — stand for the character with that code.  That is how Excel stores a line break
   typed with Alt+Enter (a_x000a_b: a literal LF in an attribute would be normalised to a space),
   CR, and the characters XML 1.0 cannot carry; a literal underscore that would otherwise start
   an escape is written _x005F_.  One pass from the left; decoded characters are not examined
   again; an escape naming a surrogate code unit denotes no character and stays as written.
   S: [xs_decode], over UTF-8 bytes (the decoded character is written in UTF-8). *)
Definition xs_surrogate (c : N) : bool := (55296 <=? c) && (c <=? 57343).
Fixpoint xs_decode (s : str) : str :=
  match s with
  | [] => []
  | c :: s' =>
    match s' with
    | x :: h1 :: h2 :: h3 :: h4 :: u :: r =>
      if (c =? 95) && (x =? 120) && (u =? 95) then
        match hexval h1, hexval h2, hexval h3, hexval h4 with
        | Some a, Some b, Some d, Some e =>
          let v := a * 4096 + b * 256 + d * 16 + e in
          if xs_surrogate v then c :: xs_decode s' else utf8_enc v ++ xs_decode r
        | _, _, _, _ => c :: xs_decode s'
        end
      else c :: xs_decode s'
    | _ => c :: xs_decode s'
    end
  end.
(* the column name a spelled attribute value declares: the XML layer, then the ST_Xstring layer *)
Definition col_value (sp : spelling) : str := xs_decode (sp_value sp).

(* E: a writer in the style of Excel / openpyxl, on the bytes of the name: every underscore is
   written _x005F_ (Excel does so only where an escape would otherwise be read; escaping all of
   them is legal), the ASCII characters selected by [must] (Excel: the C0 controls; LF and CR in
   an attribute) are written _x00HH_ with upper- or lower-case digits, everything else — in
   particular every byte of a non-ASCII character — literally.  Escapes of non-ASCII characters
   (_x00e9_, _xFFFE_) and partly spelled escapes (_x00&#48;a_) are expressible as spellings; they
   are covered by [col_value] in [table_choice_legal]. *)
Definition xs_hexdigit (upper : bool) (d : N) : N :=
  if d <? 10 then 48 + d else (if upper then 55 else 87) + d.
Definition xs_esc4 (upper : bool) (c : N) : str :=
  [95; 120; xs_hexdigit upper (c / 4096); xs_hexdigit upper ((c / 256) mod 16);
   xs_hexdigit upper ((c / 16) mod 16); xs_hexdigit upper (c mod 16); 95].
Definition xs_escape (upper : bool) (must : N -> bool) (s : str) : str :=
  flat_map (fun c => if (c =? 95) || (must c && (c <? 128)) then xs_esc4 upper c else [c]) s.
(* what Excel escapes in an attribute: C0 controls (TAB, LF and CR included) *)
Definition xs_excel_must (c : N) : bool := c <? 32.

Inductive ref_style : Type :=
| RefPair                    (* "A1:B2" (also for a single cell: "A1:A1") *)
| RefSingle                  (* "A1" — legal only when both corners coincide *)
| RefRaw (s : str).          (* any other text: outside [legal] *)

Definition pair_text (d : dims) : str :=
  a1_name (fst (fst d)) (snd (fst d)) ++ [ch_colon] ++ a1_name (fst (snd d)) (snd (snd d)).
Definition render_ref (st : ref_style) (lower : bool) (d : dims) : str :=
  let s := match st with
           | RefPair => pair_text d
           | RefSingle => a1_name (fst (fst d)) (snd (fst d))
           | RefRaw s => s
           end in
  if lower then map to_lower s else s.

Definition corner_eqb (a b : pos) : bool := (fst a =? fst b) && (snd a =? snd b).
Definition ref_style_legal (st : ref_style) (d : dims) : bool :=
  match st with
  | RefPair => true
  | RefSingle => corner_eqb (fst d) (snd d)
  | RefRaw _ => false
  end.

(* per merged region: how its element is written *)
Record reg_choice : Type := mkRegChoice {
  rc_style : ref_style;
  rc_lower : bool;                        (* lower-case column letters *)
  rc_before : list (str * str);           (* other attributes before ref *)
  rc_after : list (str * str);            (* attributes after ref (a second ref would be ignored) *)
  rc_pad : list event }.                  (* white space / comments after the element *)
Definition reg_default : reg_choice := mkRegChoice RefPair false [] [] [].

Definition is_pad (e : event) : bool :=
  match e with EText _ | ERaw _ => true | _ => false end.
Definition key_is (k : str) (kv : str * str) : bool := str_eqb (fst kv) k.

(* XML well-formedness: no attribute name twice in one start tag *)
Fixpoint keys_distinct (attrs : list (str * str)) : bool :=
  match attrs with
  | [] => true
  | kv :: t => negb (existsb (key_is (fst kv)) t) && keys_distinct t
  end.

Definition reg_legal (rc : dims * reg_choice) : bool :=
  ref_style_legal (rc_style (snd rc)) (fst rc) &&
  negb (existsb (key_is s_ref) (rc_before (snd rc))) &&
  forallb is_pad (rc_pad (snd rc)) &&
  keys_distinct (rc_before (snd rc) ++ [(s_ref, [])] ++ rc_after (snd rc)).

Definition enc_region (p : option str) (rc : dims * reg_choice) : list event :=
  [EStart (qn p s_mergeCell)
     (rc_before (snd rc) ++ [(s_ref, render_ref (rc_style (snd rc)) (rc_lower (snd rc)) (fst rc))]
      ++ rc_after (snd rc));
   EEnd (qn p s_mergeCell)] ++ rc_pad (snd rc).

(* a Start event that the merged-region loops react to *)
Definition merge_start (e : event) : bool :=
  match e with
  | EStart n _ => str_eqb (local_name n) s_mergeCell || str_eqb (local_name n) s_mergeCells
  | _ => false
  end.

Inductive target_style : Type :=
| TgtDotDot                  (* "../tables/<part>" *)
| TgtAbsolute                (* "/xl/tables/<part>" *)
| TgtRaw (s : str).
Inductive type_style : Type :=
| TyTransitional | TyStrict | TyRaw (s : str).
Inductive insert_style : Type :=      (* xsd:boolean: absent / "0" / "false" = no, "1" / "true" = yes *)
| IrAbsent | IrZero | IrFalse | IrOne | IrTrue | IrRaw (s : str).

Record table_choice : Type := mkTableChoice {
  tc_part : str;                          (* file name of the part under xl/tables/ *)
  tc_rid : str;                           (* relationship id *)
  tc_target : target_style;
  tc_type : type_style;
  tc_target_first : bool;                 (* attribute order inside Relationship *)
  tc_ref_style : ref_style;
  tc_ref_lower : bool;
  tc_hdr_explicit : bool;                 (* write headerRowCount="1" although it is the default *)
  tc_tot_explicit : bool;                 (* write totalsRowCount="0" although it is the default *)
  tc_insert : insert_style;
  tc_name_sp : spelling;                  (* how the display name is written *)
  tc_cols_sp : list spelling;             (* how each column name is written *)
  tc_extra : list (str * str);            (* other attributes of <table>, written first *)
  tc_col_extra : list (str * str);        (* other attributes of each <tableColumn>, after name *)
  tc_prefix : option str;                 (* namespace prefix inside the table part *)
  tc_pre : list event }.                  (* declaration / comments before <table> *)

Definition target_text (c : table_choice) : str :=
  match tc_target c with
  | TgtDotDot => s_dd_tables ++ tc_part c
  | TgtAbsolute => s_abs_tables ++ tc_part c
  | TgtRaw s => s
  end.
Definition type_text (c : table_choice) : str :=
  match tc_type c with
  | TyTransitional => s_table_type
  | TyStrict => s_table_type_strict
  | TyRaw s => s
  end.
Definition table_part_path (c : table_choice) : str := s_xl_tables ++ tc_part c.

Definition enc_relationship (pp : option str) (c : table_choice) : list event :=
  [EStart (qn pp s_Relationship)
     (if tc_target_first c
      then [(s_Target, target_text c); (s_Id, tc_rid c); (s_Type, type_text c)]
      else [(s_Id, tc_rid c); (s_Type, type_text c); (s_Target, target_text c)]);
   EEnd (qn pp s_Relationship)].

Definition enc_other_rel (pp : option str) (r : str * str * str) : list event :=   (* id, type, target *)
  [EStart (qn pp s_Relationship)
     [(s_Id, fst (fst r)); (s_Type, snd (fst r)); (s_Target, snd r)];
   EEnd (qn pp s_Relationship)].

Definition table_attrs_of (t : table_l) (c : table_choice) : list (str * str) :=
  tc_extra c ++
  [(s_name, render_sp (tc_name_sp c)); (s_displayName, render_sp (tc_name_sp c));
   (s_ref, render_ref (tc_ref_style c) (tc_ref_lower c) (tl_ref t))] ++
  (if (tl_header t =? 1) && negb (tc_hdr_explicit c) then []
   else [(s_headerRowCount, dec (tl_header t))]) ++
  (match tc_insert c with
   | IrAbsent => []
   | IrZero => [(s_insertRow, s_zero)]
   | IrFalse => [(s_insertRow, s_false)]
   | IrOne => [(s_insertRow, s_one)]
   | IrTrue => [(s_insertRow, s_true)]
   | IrRaw s => [(s_insertRow, s)]
   end) ++
  (if (tl_totals t =? 0) && negb (tc_tot_explicit c) then []
   else [(s_totalsRowCount, dec (tl_totals t))]).

Fixpoint enc_columns (p : option str) (extra : list (str * str)) (i : N) (cols : list spelling)
  : list event :=
  match cols with
  | [] => []
  | cn :: t =>
      [EStart (qn p s_tableColumn) ([(s_id, dec i); (s_name, render_sp cn)] ++ extra);
       EEnd (qn p s_tableColumn)] ++ enc_columns p extra (i + 1) t
  end.

Definition enc_table (tc : table_l * table_choice) : list event :=
  let t := fst tc in let c := snd tc in let p := tc_prefix c in
  tc_pre c ++
  [EStart (qn p s_table) (table_attrs_of t c);
   EStart (qn p s_tableColumns) [(s_count, dec (N.of_nat (length (tc_cols_sp c))))]] ++
  enc_columns p (tc_col_extra c) 1 (tc_cols_sp c) ++
  [EEnd (qn p s_tableColumns);
   EStart (qn p s_tableStyleInfo) [(s_name, s_style_name)]; EEnd (qn p s_tableStyleInfo);
   EEnd (qn p s_table)].

(* one sheet with its regions, tables and the encoding choices *)
Record sheet_e : Type := mkSheetE {
  se_name : str;
  se_file : str;                          (* part name under xl/worksheets/ *)
  se_regs : list (dims * reg_choice);
  se_tables : list (table_l * table_choice);
  se_prefix : option str;                 (* namespace prefix in the sheet part *)
  se_pre : list event;                    (* everything before <mergeCells> (worksheet start, sheetData …) *)
  se_post : list event;                   (* everything after </mergeCells> *)
  se_wrap_empty : bool;                   (* no regions: write an empty <mergeCells/> or nothing *)
  se_pad0 : list event;                   (* pad after <mergeCells> *)
  se_pkg_prefix : option str;             (* prefix in the .rels part *)
  se_other_rels : list (str * str * str); (* non-table relationships of the sheet *)
  se_rels_always : bool;                  (* write the .rels part even when it would be empty *)
  se_rels_attrs : list (str * str) }.     (* attributes of the <Relationships> root (xmlns …) *)

Definition se_path (s : sheet_e) : str := s_xl_worksheets ++ se_file s.
Definition se_rels_path (s : sheet_e) : str := s_xl_worksheets_rels ++ se_file s ++ s_dot_rels.
Definition se_regions (s : sheet_e) : list dims := map fst (se_regs s).

Definition enc_sheet (s : sheet_e) : list event :=
  let p := se_prefix s in
  se_pre s ++
  (match se_regs s with
   | [] => if se_wrap_empty s
           then [EStart (qn p s_mergeCells) [(s_count, s_zero)]] ++ se_pad0 s ++ [EEnd (qn p s_mergeCells)]
           else []
   | _ => [EStart (qn p s_mergeCells) [(s_count, dec (N.of_nat (length (se_regs s))))]] ++
          se_pad0 s ++ flat_map (enc_region p) (se_regs s) ++ [EEnd (qn p s_mergeCells)]
   end) ++
  se_post s.

Definition has_rels (s : sheet_e) : bool :=
  se_rels_always s || negb (match se_tables s with [] => true | _ => false end)
  || negb (match se_other_rels s with [] => true | _ => false end).

Definition enc_rels (s : sheet_e) : list event :=
  let pp := se_pkg_prefix s in
  [EStart (qn pp s_Relationships) (se_rels_attrs s)] ++
  flat_map (enc_other_rel pp) (se_other_rels s) ++
  flat_map (fun tc => enc_relationship pp (snd tc)) (se_tables s) ++
  [EEnd (qn pp s_Relationships)].

(* the zip parts the encoder writes for a workbook (the workbook part itself, which yields
   self.sheets, is property C16's) *)
Definition sheet_parts (s : sheet_e) : zip :=
  [(se_path s, enc_sheet s)] ++
  (if has_rels s then [(se_rels_path s, enc_rels s)] else []) ++
  map (fun tc => (table_part_path (snd tc), enc_table tc)) (se_tables s).
Definition build_zip (wb : list sheet_e) : zip := flat_map sheet_parts wb.
Definition sheets_of (wb : list sheet_e) : list (str * str) :=
  map (fun s => (se_name s, se_path s)) wb.

(* ---------- what the file declares (S) ---------- *)
Definition spec_all_merges (wb : list sheet_e) : list (str * str * dims) :=
  flat_map (fun s => map (fun d => (se_name s, se_path s, d)) (se_regions s)) wb.
(* what a table declares: name, sheet, column names, data box (None: no data rows) *)
Definition table_spec := (str * str * list str * option dims)%type.
Definition ts_name (t : table_spec) : str := fst (fst (fst t)).
Definition spec_table (sheet : str) (t : table_l) : table_spec :=
  (tl_name t, sheet, tl_cols t, data_box t).
Definition spec_tables (wb : list sheet_e) : list table_spec :=
  flat_map (fun s => map (fun tc => spec_table (se_name s) (fst tc)) (se_tables s)) wb.
(* what can be observed of a loaded table entry through table_names / table_by_name: the stored
   box only through the test [no_data] *)
Definition entry_obs (e : table_entry) : table_spec :=
  (te_name e, te_sheet e, te_cols e, if no_data (te_dims e) then None else Some (te_dims e)).
Fixpoint spec_sheet (wb : list sheet_e) (name : str) : option sheet_e :=
  match wb with
  | [] => None
  | s :: t => if str_eqb (se_name s) name then Some s else spec_sheet t name
  end.

(* the data of a table as the file declares it: the sheet's value (last write at a position; 0
   stands for Empty) at every position of the data box, row by row; by C05 from_sparse_spec this
   is [cell_or 0 (from_sparse 0 cells)] *)
Fixpoint nrange (a : N) (n : nat) : list N :=
  match n with O => [] | S k => a :: nrange (a + 1) k end.
Definition spec_value (cells : list (pos * N)) (q : pos) : N :=
  fold_left (fun acc c => if corner_eqb (fst c) q then snd c else acc) cells 0.
Definition spec_table_rows (cells : list (pos * N)) (ob : option dims) : list (list N) :=
  match ob with
  | Some b =>
    map (fun r => map (fun c => spec_value cells (r, c))
                      (nrange (snd (fst b)) (N.to_nat (snd (snd b) - snd (fst b) + 1))))
        (nrange (fst (fst b)) (N.to_nat (fst (snd b) - fst (fst b) + 1)))
  | None => []
  end.

(* ---------- legality of the encoding choices ---------- *)
Definition no_colon (s : str) : bool := negb (existsb (fun c => c =? ch_colon) s).
Definition prefix_ok (p : option str) : bool :=
  match p with None => true | Some s => no_colon s end.
Definition no_slash (s : str) : bool := negb (existsb (fun c => c =? ch_slash) s).

Definition table_special_key (kv : str * str) : bool :=
  key_is s_displayName kv || key_is s_ref kv || key_is s_headerRowCount kv ||
  key_is s_insertRow kv || key_is s_totalsRowCount kv.

(* events allowed before <table>: nothing that the table loop reacts to *)
Definition table_quiet (e : event) : bool :=
  match e with
  | EStart n _ => negb (str_eqb (local_name n) s_table) && negb (str_eqb (local_name n) s_tableColumn)
  | EEnd n => negb (str_eqb (local_name n) s_table)
  | _ => true
  end.

Fixpoint strs_eqb (a b : list str) : bool :=
  match a, b with
  | [], [] => true
  | x :: a', y :: b' => str_eqb x y && strs_eqb a' b'
  | _, _ => false
  end.
Definition insert_legal (ins : bool) (st : insert_style) : bool :=
  match st with
  | IrAbsent | IrZero | IrFalse => negb ins
  | IrOne | IrTrue => ins
  | IrRaw _ => false
  end.

Definition table_choice_legal (tc : table_l * table_choice) : bool :=
  let t := fst tc in let c := snd tc in
  ref_style_legal (tc_ref_style c) (tl_ref t) &&
  match tc_target c with TgtRaw _ => false | _ => true end &&
  match tc_type c with TyRaw _ => false | _ => true end &&
  insert_legal (tl_insert t) (tc_insert c) &&
  sp_legal (tc_name_sp c) && str_eqb (sp_value (tc_name_sp c)) (tl_name t) &&
  forallb sp_legal (tc_cols_sp c) && strs_eqb (map col_value (tc_cols_sp c)) (tl_cols t) &&
  negb (existsb table_special_key (tc_extra c)) &&
  negb (existsb (key_is s_name) (tc_col_extra c)) &&
  prefix_ok (tc_prefix c) &&
  forallb table_quiet (tc_pre c) &&
  keys_distinct (table_attrs_of t c) &&
  keys_distinct ([(s_id, []); (s_name, [])] ++ tc_col_extra c).

Definition other_rel_legal (r : str * str * str) : bool :=
  negb (is_table_type (snd (fst r))).

Definition sheet_legal (s : sheet_e) : bool :=
  forallb reg_legal (se_regs s) &&
  forallb table_choice_legal (se_tables s) &&
  prefix_ok (se_prefix s) && prefix_ok (se_pkg_prefix s) &&
  negb (existsb merge_start (se_pre s)) && negb (existsb merge_start (se_post s)) &&
  forallb is_pad (se_pad0 s) &&
  forallb other_rel_legal (se_other_rels s) &&
  no_slash (se_file s) &&
  keys_distinct (se_rels_attrs s).
Definition legal (wb : list sheet_e) : bool := forallb sheet_legal wb.

(* ---------- the domain of the property ---------- *)
Definition table_dom (t : table_l) : Prop :=
  dims_ok XLSX_ROWS XLSX_COLS (tl_ref t) /\ tl_header t <= 1 /\ tl_totals t <= 1 /\
  (* header, totals and insert rows fit into the reference (zero data rows are allowed) *)
  fst (fst (tl_ref t)) + tl_header t + tl_below t <= fst (snd (tl_ref t)) + 1.
Definition table_domb (t : table_l) : bool :=
  dims_okb XLSX_ROWS XLSX_COLS (tl_ref t) && (tl_header t <=? 1) && (tl_totals t <=? 1) &&
  (fst (fst (tl_ref t)) + tl_header t + tl_below t <=? fst (snd (tl_ref t)) + 1).
Definition sheet_dom (s : sheet_e) : Prop :=
  Forall (dims_ok XLSX_ROWS XLSX_COLS) (se_regions s) /\
  Forall table_dom (map fst (se_tables s)).
Definition sheet_domb (s : sheet_e) : bool :=
  forallb (dims_okb XLSX_ROWS XLSX_COLS) (se_regions s) && forallb table_domb (map fst (se_tables s)).

(* ---------- known classes ----------
   None is left: the five classes of the first round (EscapedText, AbsoluteTarget, StrictType,
   InsertRowFalse, EmptyData) were repaired in the Rust code (branch c17-fixes), M above mirrors
   the repaired code and the table theorems hold without a known-class hypothesis.  The
   function stays (constantly None) so that the correspondence keeps reporting the field. *)
Definition known_C17 (wb : list sheet_e) : option N := None.

(* ================================================================== ENCODER: xls *)
Definition le16 (x : N) : list N := [x mod 256; x / 256].
Definition enc_ref8 (d : dims) : list N :=          (* Ref8: rwFirst, rwLast, colFirst, colLast *)
  le16 (fst (fst d)) ++ le16 (fst (snd d)) ++ le16 (snd (fst d)) ++ le16 (snd (snd d)).
Definition enc_mergecells (ds : list dims) : xrec :=
  (REC_MERGECELLS, le16 (N.of_nat (length ds)) ++ flat_map enc_ref8 ds).

(* what stands between the MergeCells records of a sheet substream: a record of the sheet itself
   (cells, ROW, WINDOW2, MsoDrawing, OBJ ...: any type but the three with a structural meaning
   here - MERGECELLS, and BOF / EOF which delimit substreams), or a substream NESTED in the sheet
   ([MS-XLS] 2.1.7.20.5: OBJECTS = *(MsoDrawing *(TEXTOBJECT / OBJ / CHART)), CHART = BOF
   CHARTSHEETCONTENT ... EOF; Excel writes one per embedded chart, and OBJECTS comes BEFORE
   *MergeCells in WORKSHEETCONTENT): BOF, ANY records - MERGECELLS records, further BOF ... EOF
   pairs included -, EOF.  Nothing inside declares a region of the sheet. *)
Inductive xother : Type :=
| XRec (r : xrec)
| XSub (bof : list N) (recs : list xrec).

Definition enc_xother (o : xother) : list xrec :=
  match o with
  | XRec r => [r]
  | XSub bof recs => (REC_BOF, bof) :: recs ++ [(REC_EOF, [])]
  end.

(* a sheet substream: its BOF record, groups of (other material, one MergeCells record), then
   more material, the EOF record, and whatever follows it in the stream (the next substream) *)
Record xls_sheet_e : Type := mkXlsSheet {
  xs_name : str;
  xs_bof : list N;                         (* body of the sheet's BOF record (not read) *)
  xs_groups : list (list xother * list dims);
  xs_tail : list xother;
  xs_after_eof : list xrec }.

Definition xs_regions (s : xls_sheet_e) : list dims := concat (map snd (xs_groups s)).
Definition enc_xls_sheet (s : xls_sheet_e) : list xrec :=
  (REC_BOF, xs_bof s) ::
  flat_map (fun g => flat_map enc_xother (fst g) ++ [enc_mergecells (snd g)]) (xs_groups s) ++
  flat_map enc_xother (xs_tail s) ++ [(REC_EOF, [])] ++ xs_after_eof s.

Definition quiet_rec (r : xrec) : bool :=
  negb (fst r =? REC_MERGECELLS) && negb (fst r =? REC_EOF) && negb (fst r =? REC_BOF).
(* BOF and EOF balance inside a nested substream: [d] further substreams are open before the
   first record, none at the end, no EOF closes more than were opened *)
Fixpoint xbalanced (d : nat) (recs : list xrec) : bool :=
  match recs with
  | [] => match d with O => true | S _ => false end
  | r :: rest =>
      if fst r =? REC_BOF then xbalanced (S d) rest
      else if fst r =? REC_EOF then match d with O => false | S d' => xbalanced d' rest end
      else xbalanced d rest
  end.
Definition xother_legal (o : xother) : bool :=
  match o with
  | XRec r => quiet_rec r
  | XSub _ recs => xbalanced 0 recs
  end.
Definition MAX_MERGE_PER_RECORD : nat := 1026.      (* MS-XLS 2.4.168: cmcs <= 1026 *)
Definition xls_sheet_legal (s : xls_sheet_e) : bool :=
  forallb (fun g => forallb xother_legal (fst g) && Nat.leb (length (snd g)) MAX_MERGE_PER_RECORD)
          (xs_groups s) &&
  forallb xother_legal (xs_tail s).
Definition xls_sheet_dom (s : xls_sheet_e) : Prop :=
  Forall (dims_ok XLS_ROWS XLS_COLS) (xs_regions s).
Definition xls_sheet_domb (s : xls_sheet_e) : bool :=
  forallb (dims_okb XLS_ROWS XLS_COLS) (xs_regions s).
