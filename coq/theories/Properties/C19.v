(* Property C19 — cell text survives every storage form and escaping layer unchanged.
   Only the property theorems (closed by [exact]), [Check] pins, non-vacuity examples and
   [Print Assumptions].  Models / specs / encoders: XmlText.v, Utf16.v; proofs:
   XmlText_proofs.v, Utf16_proofs.v.
   The XML models start at the event list delivered by quick-xml (already unescaped strings):
   entity / character-reference spelling is below that level and is sampled by the end-to-end
   runs of tools/props/c19.py.  Source state: /repo at db4dbf4.
   Known classes left (known_item / known_store / known_content): F35 ods <text:tab/>, F36 ods
   <text:line-break/>, F37 xlsx _xHHHH_ escapes (ST_Xstring) not decoded.  The former classes
   F12 (CDATA sections dropped) and F34 (prefixed <x:si>/<x:is> without a plain <t> never
   closed) were repaired by db4dbf4 / 7dba6c7: the theorems below now cover CDATA in every text
   position and rich / empty items under every namespace prefix. *)
From Calamine Require Import Prelude XmlText XmlText_proofs Utf16 Utf16_proofs.
Open Scope N_scope.

(* ---------- xlsx: one string item (<si> or <is>), any form, any prefix ---------- *)
Theorem C19_read_string_item : forall pfx cl f rest,
  no_colon pfx = true -> cl_ok cl -> legal_form f = true -> known_item f = None ->
  read_string (qn pfx cl) (item_events pfx f ++ End (qn pfx cl) :: rest) = Ok (item_result f, rest).
Proof. exact read_string_item. Qed.

Theorem C19_runs_concatenate : forall pfx cl ps rest,
  no_colon pfx = true -> cl_ok cl -> forallb legal_piece ps = true ->
  known_item (FRich ps) = None ->
  existsb (fun p => negb (is_phonetic p)) ps = true ->
  read_string (qn pfx cl) (flat_map (piece_events pfx) ps ++ End (qn pfx cl) :: rest) =
  Ok (Some (flat_map piece_text ps), rest).
Proof. exact runs_concatenate. Qed.

(* any string, cut into runs at any points that do not fall inside an _xHHHH_ escape *)
Theorem C19_runs_at_any_cuts : forall pfx cl cuts s rest,
  no_colon pfx = true -> cl_ok cl -> cuts_ok cuts s = true ->
  read_string (qn pfx cl) (item_events pfx (runs_of cuts s) ++ End (qn pfx cl) :: rest) =
  Ok (Some s, rest).
Proof. exact runs_at_any_cuts. Qed.

Theorem C19_phonetic_contributes_nothing : forall pfx cl f rest rest',
  no_colon pfx = true -> cl_ok cl -> legal_form f = true -> known_item f = None ->
  exists r,
    read_string (qn pfx cl) (item_events pfx f ++ End (qn pfx cl) :: rest) = Ok (r, rest) /\
    read_string (qn pfx cl) (item_events pfx (strip_phonetic f) ++ End (qn pfx cl) :: rest') = Ok (r, rest').
Proof. exact phonetic_contributes_nothing. Qed.

(* entity vs CDATA: a CDATA section reads exactly like the same characters written as text, in
   every <t> of every legal form (no known-class hypothesis) *)
Theorem C19_cdata_is_text : forall pfx cl f rest,
  no_colon pfx = true -> cl_ok cl -> legal_form f = true ->
  read_string (qn pfx cl) (item_events pfx f ++ End (qn pfx cl) :: rest) =
  read_string (qn pfx cl) (item_events pfx (uncdata_form f) ++ End (qn pfx cl) :: rest).
Proof. exact cdata_is_text. Qed.

(* ---------- xlsx: the shared-string table ---------- *)
Theorem C19_shared_index_is_ith_item : forall pfx sattrs items,
  no_colon pfx = true ->
  forallb (fun it => legal_form (snd it)) items = true -> known_items items = None ->
  exists strs, read_shared_strings (sst_events pfx sattrs items) = Ok strs /\
    length strs = length items /\
    forall i, nth_error strs i = option_map (fun it => item_text (snd it)) (nth_error items i).
Proof. exact shared_index_is_ith_item. Qed.

(* positions survive whatever the items hold: an item of class F37 spoils only itself *)
Theorem C19_shared_table_positional : forall pfx sattrs items,
  no_colon pfx = true ->
  forallb (fun it => legal_form (snd it)) items = true ->
  exists strs, read_shared_strings (sst_events pfx sattrs items) = Ok strs /\
    length strs = length items /\
    forall i ws f, nth_error items i = Some (ws, f) -> known_item f = None ->
      nth_error strs i = Some (item_text f).
Proof. exact shared_table_positional. Qed.

(* ---------- xlsx: shared / inline / formula-string cells ---------- *)
Theorem C19_text_survives_xlsx : forall pfx sattrs items ref st s rest,
  no_colon pfx = true ->
  forallb (fun it => legal_form (snd it)) items = true -> legal_store st = true ->
  known_xlsx items st = None ->
  stored_text items st = Some s ->
  exists strings,
    read_shared_strings (sst_events pfx sattrs items) = Ok strings /\
    read_cell strings (cell_attrs ref st) (cell_events pfx st ++ rest) = Ok (cell_expected st s, rest).
Proof. exact text_survives_xlsx. Qed.

(* a whole sheet (the loop of next_cell): every text cell of every row, in order *)
Theorem C19_sheet_text_survives : forall pfx sattrs items cells,
  no_colon pfx = true ->
  forallb (fun it => legal_form (snd it)) items = true ->
  forallb (cell_ok items) cells = true ->
  exists strings,
    read_shared_strings (sst_events pfx sattrs items) = Ok strings /\
    read_sheet_cells strings (sheet_events pfx cells) = Ok (map (cell_spec items) cells).
Proof. exact sheet_text_survives. Qed.

(* the formula text itself (worksheet_formula: the loop of next_formula, read_formula): the
   characters of <f>, Text and CDATA chunks alike; cells without <f> have none *)
Theorem C19_formula_text_survives : forall pfx cells,
  no_colon pfx = true -> forallb (fun c => legal_store (snd c)) cells = true ->
  read_sheet_formulas (sheet_events pfx cells) = Ok (map fcell_spec cells).
Proof. exact sheet_formulas_survive. Qed.

(* ---------- ods ---------- *)
Theorem C19_ods_space_paragraph_roundtrip : forall cname extra cs rest,
  cell_name_ok cname -> legal_extra extra = true -> legal_content cs = true ->
  known_content cs = None ->
  ods_cell cname (ods_cell_attrs extra (OsContent cs)) (ods_cell_events cname (OsContent cs) ++ rest) =
  Ok (OString (content_text cs), [], rest).
Proof. exact ods_space_paragraph_roundtrip. Qed.

Theorem C19_text_survives_ods : forall cname extra st rest,
  cell_name_ok cname -> legal_extra extra = true -> legal_ods_full cname st = true ->
  known_ods st = None ->
  ods_cell cname (ods_cell_attrs extra st) (ods_cell_events cname st ++ rest) =
  Ok (OString (ods_text st), [], rest).
Proof. exact text_survives_ods. Qed.

(* every string at all has an ods encoding (one text:p per line, every space a <text:s/>)
   that is legal, outside the known classes, and reads back *)
Theorem C19_ods_encode_survives : forall s rest,
  ods_cell o_cell (ods_cell_attrs [] (OsContent (ods_encode s)))
           (ods_cell_events o_cell (OsContent (ods_encode s)) ++ rest) = Ok (OString s, [], rest).
Proof. exact ods_encode_survives. Qed.

(* ---------- binary formats: UTF-16 ---------- *)
Theorem C19_utf16_roundtrip : forall s, Forall scalar s -> utf16_decode (utf16_encode s) = s.
Proof. exact utf16_roundtrip. Qed.

(* the quantifier "all well-formed UTF-16": every well-formed unit sequence is an encoder output *)
Theorem C19_wf_utf16_covered : forall us, wf_utf16 us = true ->
  utf16_encode (utf16_decode us) = us /\ Forall scalar (utf16_decode us).
Proof. exact wf_decode_encode. Qed.

Theorem C19_lone_surrogate_replaced : forall a x rest,
  Forall scalar a -> is_surr x = true ->
  (is_high x = true -> head_not_low rest) ->
  utf16_decode (utf16_encode a ++ x :: rest) = a ++ REPL :: utf16_decode rest.
Proof. exact lone_surrogate_replaced. Qed.

Theorem C19_utf16_decode_scalars : forall us, Forall (fun u => u < 65536) us ->
  Forall scalar (utf16_decode us).
Proof. exact utf16_decode_scalars. Qed.

(* xlsb wide_str (BrtCellSt, BrtFmlaString, BrtSSTItem) *)
Theorem C19_text_survives_utf16 : forall s rest,
  Forall scalar s -> utf16_len s <= U32MAX ->
  wide_str (enc_wide s ++ rest) = Ok (s, 4 + utf16_len s * 2).
Proof. exact wide_str_roundtrip. Qed.

(* xls decode_to under code page 1200, one fragment: 8-bit and 16-bit storage *)
Theorem C19_decode_to_8bit : forall s rest, Forall (fun c => c < 256) s ->
  decode_to_utf16 false (s ++ rest) (N.of_nat (length s)) =
  (s, N.of_nat (length s), N.of_nat (length s)).
Proof. exact decode_to_8bit. Qed.

Theorem C19_decode_to_16bit : forall s rest, Forall scalar s ->
  decode_to_utf16 true (bytes_le_of_units (utf16_encode s) ++ rest) (utf16_len s) =
  (s, utf16_len s, 2 * utf16_len s).
Proof. exact decode_to_16bit. Qed.

(* ---------- refutations: the remaining known classes are genuine ---------- *)
(* each of these three blocks disappears with its switch (XmlText.v): see notes/C19.md *)
Theorem C19_refuted_F37 :
  exists f, legal_form f = true /\ known_item f = Some K_F37 /\
    item_text f = [97; 13] /\
    forall rest, read_string n_si (item_events [] f ++ End n_si :: rest) =
                 Ok (Some [97; 95; 120; 48; 48; 48; 68; 95], rest).
Proof. exact refuted_F37. Qed.

Theorem C19_refuted_F37_formula :
  exists st, legal_store st = true /\ known_store st = Some K_F37 /\
    stored_text [] st = Some [10] /\
    read_cell [] (cell_attrs [65; 49] st) (cell_events [] st) =
    Ok (CString [95; 120; 48; 48; 48; 97; 95], []).
Proof. exact refuted_F37_formula. Qed.

Theorem C19_refuted_F35 :
  exists cs, legal_content cs = true /\ known_content cs = Some K_F35 /\
    content_text cs = [97; 9; 98] /\
    ods_cell o_cell (ods_cell_attrs [] (OsContent cs)) (ods_cell_events o_cell (OsContent cs)) =
    Ok (OString [97; 98], [], []).
Proof. exact refuted_F35. Qed.

Theorem C19_refuted_F36 :
  exists cs, legal_content cs = true /\ known_content cs = Some K_F36 /\
    content_text cs = [97; 10; 98] /\
    ods_cell o_cell (ods_cell_attrs [] (OsContent cs)) (ods_cell_events o_cell (OsContent cs)) =
    Ok (OString [97; 98], [], []).
Proof. exact refuted_F36. Qed.

(* ---------- non-vacuity ---------- *)
(* under the prefix "x": a plain item holding text + CDATA + comment + text with phonetic data;
   an empty item; a rich item with run properties, phonetic runs interleaved, an empty run, a run
   made of two adjacent CDATA sections (the way "]]>" is embedded) and a run mixing text and
   CDATA; shared cells pointing at them (one through a zero-padded index), an inline string and
   a formula string whose <f> and <v> hold CDATA.  The former F34 / F12 witnesses are among them
   and read correctly. *)
Example C19_xlsx_nonvacuous :
  let x := [120] in
  let rich := FRich [PRun [([98], []); ([115; 122], [([118; 97; 108], [49; 49])])] true [TcText [97; 32]];
                     PPhon [TcCData [12450]]; PRun [] false [TcCData [93; 93]; TcCData [62]];
                     PRun [] false []; PRun [] false [TcText [38]; TcCData [60; 98]; TcOther; TcText [62]];
                     PPhonPr] in
  let items := [([], FPlain true [TcText [32; 97]; TcCData [60; 38]; TcOther; TcText [98; 32]] [PPhon [TcText [120]]; PPhonPr]);
                ([10; 32], FRich []); ([], rich)] in
  let cells := [([], [65; 49], StShared [48; 48; 50]);
                ([([114], [50])], [65; 50], StInline (FPlain true [TcCData [32]] [PPhonPr]));
                ([], [65; 51], StFormula [TcText [49]; TcCData [60; 50]] [TcCData [60]; TcText [9; 10]]);
                ([], [65; 52], StInline (FRich [])); ([], [65; 53], StShared [49])] in
  no_colon x = true /\ cl_ok n_si /\ cl_ok n_is /\
  forallb (fun it => legal_form (snd it)) items = true /\
  known_items items = None /\
  known_xlsx items (StShared [50]) = None /\
  stored_text items (StShared [50]) = Some [97; 32; 93; 93; 62; 38; 60; 98; 62] /\
  existsb (fun p => negb (is_phonetic p)) (match rich with FRich ps => ps | _ => [] end) = true /\
  cuts_ok [2%nat; 0%nat; 3%nat] [32; 97; 38; 95; 120; 60; 128512; 32] = true /\
  forallb (cell_ok items) cells = true /\
  forallb (fun c => legal_store (snd c)) cells = true /\
  read_shared_strings (sst_events x [] items) =
    Ok [[32; 97; 60; 38; 98; 32]; []; [97; 32; 93; 93; 62; 38; 60; 98; 62]] /\
  map snd (map fcell_spec cells) = [FvNone; FvNone; FvText [49; 60; 50]; FvNone; FvNone].
Proof. cbn zeta. repeat split; try (left; reflexivity); try (right; reflexivity); vm_compute; reflexivity. Qed.

(* ods: an annotation, text:s with and without count, spans, a comment, CDATA sections (alone,
   adjacent, inside a span), an empty paragraph *)
Example C19_ods_nonvacuous :
  let cs := [CAnnot [Start o_p []; Text [110]; End o_p];
             CPara [OSp (Some [51]); OLit [97; 32]; OSpanOpen [84]; OSp None; OCD [98; 60]; OSpanClose;
                    OSp (Some [48]); OOther; OCD [93; 93]; OCD [62]; OLit [9]];
             CPara []; CPara [OCD [99]]] in
  cell_name_ok o_cell /\ legal_extra [([115], [49])] = true /\ legal_content cs = true /\
  known_content cs = None /\ legal_ods_full o_covered (OsAttr [97] cs) = true /\
  content_text cs = [32; 32; 32; 97; 32; 32; 98; 60; 93; 93; 62; 9; 10; 10; 99].
Proof. cbn zeta. repeat split; try (left; reflexivity); vm_compute; reflexivity. Qed.

Example C19_utf16_nonvacuous :
  let s := [97; 233; 65279; 128512; 1114111; 65534] in
  Forall scalar s /\ utf16_len s <= U32MAX /\ length (utf16_encode s) = 8%nat.
Proof. exact utf16_roundtrip_nonvacuous. Qed.

Example C19_lone_surrogate_nonvacuous :
  Forall scalar [97] /\ is_surr 55357 = true /\ (is_high 55357 = true -> head_not_low [98]) /\
  utf16_decode [97; 55357; 98; 56832; 55357; 56832; 55357] = [97; REPL; 98; REPL; 128512; REPL] /\
  wf_utf16 [97; 55357; 56832] = true /\ Forall (fun c => c < 256) [97; 233].
Proof. repeat split; try (repeat constructor; fail); vm_compute; reflexivity. Qed.

Check C19_read_string_item : forall pfx cl f rest,
  no_colon pfx = true -> cl_ok cl -> legal_form f = true -> known_item f = None ->
  read_string (qn pfx cl) (item_events pfx f ++ End (qn pfx cl) :: rest) = Ok (item_result f, rest).
Check C19_cdata_is_text : forall pfx cl f rest,
  no_colon pfx = true -> cl_ok cl -> legal_form f = true ->
  read_string (qn pfx cl) (item_events pfx f ++ End (qn pfx cl) :: rest) =
  read_string (qn pfx cl) (item_events pfx (uncdata_form f) ++ End (qn pfx cl) :: rest).
Check C19_shared_index_is_ith_item : forall pfx sattrs items,
  no_colon pfx = true ->
  forallb (fun it => legal_form (snd it)) items = true -> known_items items = None ->
  exists strs, read_shared_strings (sst_events pfx sattrs items) = Ok strs /\
    length strs = length items /\
    forall i, nth_error strs i = option_map (fun it => item_text (snd it)) (nth_error items i).
Check C19_text_survives_xlsx : forall pfx sattrs items ref st s rest,
  no_colon pfx = true ->
  forallb (fun it => legal_form (snd it)) items = true -> legal_store st = true ->
  known_xlsx items st = None ->
  stored_text items st = Some s ->
  exists strings,
    read_shared_strings (sst_events pfx sattrs items) = Ok strings /\
    read_cell strings (cell_attrs ref st) (cell_events pfx st ++ rest) = Ok (cell_expected st s, rest).
Check C19_sheet_text_survives : forall pfx sattrs items cells,
  no_colon pfx = true ->
  forallb (fun it => legal_form (snd it)) items = true ->
  forallb (cell_ok items) cells = true ->
  exists strings,
    read_shared_strings (sst_events pfx sattrs items) = Ok strings /\
    read_sheet_cells strings (sheet_events pfx cells) = Ok (map (cell_spec items) cells).
Check C19_formula_text_survives : forall pfx cells,
  no_colon pfx = true -> forallb (fun c => legal_store (snd c)) cells = true ->
  read_sheet_formulas (sheet_events pfx cells) = Ok (map fcell_spec cells).
Check C19_text_survives_ods : forall cname extra st rest,
  cell_name_ok cname -> legal_extra extra = true -> legal_ods_full cname st = true ->
  known_ods st = None ->
  ods_cell cname (ods_cell_attrs extra st) (ods_cell_events cname st ++ rest) =
  Ok (OString (ods_text st), [], rest).
Check C19_utf16_roundtrip : forall s, Forall scalar s -> utf16_decode (utf16_encode s) = s.
Check C19_text_survives_utf16 : forall s rest,
  Forall scalar s -> utf16_len s <= U32MAX ->
  wide_str (enc_wide s ++ rest) = Ok (s, 4 + utf16_len s * 2).

Print Assumptions C19_read_string_item.
Print Assumptions C19_runs_concatenate.
Print Assumptions C19_runs_at_any_cuts.
Print Assumptions C19_phonetic_contributes_nothing.
Print Assumptions C19_cdata_is_text.
Print Assumptions C19_shared_index_is_ith_item.
Print Assumptions C19_shared_table_positional.
Print Assumptions C19_text_survives_xlsx.
Print Assumptions C19_sheet_text_survives.
Print Assumptions C19_formula_text_survives.
Print Assumptions C19_ods_space_paragraph_roundtrip.
Print Assumptions C19_text_survives_ods.
Print Assumptions C19_ods_encode_survives.
Print Assumptions C19_utf16_roundtrip.
Print Assumptions C19_wf_utf16_covered.
Print Assumptions C19_lone_surrogate_replaced.
Print Assumptions C19_utf16_decode_scalars.
Print Assumptions C19_text_survives_utf16.
Print Assumptions C19_decode_to_8bit.
Print Assumptions C19_decode_to_16bit.
Print Assumptions C19_refuted_F37.
Print Assumptions C19_refuted_F37_formula.
Print Assumptions C19_refuted_F35.
Print Assumptions C19_refuted_F36.
