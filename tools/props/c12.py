"""C12 — XLS strings decode identically however records are split and characters packed.

Structured cases: a random string table and a random legal layout go to the extracted Coq writer
(vm c12_sstenc), which answers legality, the known class ("-": none is left since the repair of
CutInsidePair), the specification's text, the model's outcome and the SST / CONTINUE bodies; the
bodies then go through the real parse_sst (vh c12_sst).
  impl vs model  — the tie;   impl vs spec on every legal layout — search for a violation.
Raw cases: mutated encodings (truncated fragments, wrong counts/lengths/flags, empty CONTINUEs),
compared on outcome class including panic and alloc.  Single-string records (LABEL, STRING,
BoundSheet8, LABELSST) and RecordIter framing likewise.  End to end: generated .xls files whose SST
is spread over many CONTINUE records, opened with Xls::new + sheet_names + worksheet_range.
Formula string results (FORMULA, STRING, CONTINUE*): the extracted writer fstring_encode (vm
c12_fstrenc) cuts the character data at every position (also inside a surrogate pair), every
fragment with its own flag byte and any 8/16-bit mixture, lengths 1..9000 (the record limit forces
CONTINUE records beyond 8221 one-byte / 4110 two-byte characters); the String arm of the sheet loop
has no hook, so these go through generated files (Xls::new + worksheet_range) with the model
reading the same Workbook stream (wb_strings -> string_arm)."""
import os, struct, sys
sys.path.insert(0, os.path.dirname(os.path.dirname(os.path.abspath(__file__))))
import vlib, biffgen

ASSUMPTIONS = [
    "BIFF8 (Unicode strings, whatever the CodePage record says: any value and no record are generated and modelled since the repair of audit-2 finding XLS-1); BIFF2-5 byte strings under a code page are not modelled (a non-BIFF8 BOF answers 'unmodelled')",
    "SST count below 2^31 and cch below 2^16 as the record fields impose; a string's formatting runs and ExtRst are opaque bytes",
    "a formula's STRING value may continue in CONTINUE records (modelled: string_arm); a LABEL value longer than one record is outside the statement and the model",
]

# ---------------------------------------------------------------- text generation
def utf16_spec(units):
    """UTF-16 decoding with U+FFFD for unpaired surrogates (independent of the Coq spec)"""
    out, i, n = [], 0, len(units)
    while i < n:
        u = units[i]
        if 0xD800 <= u < 0xDC00 and i + 1 < n and 0xDC00 <= units[i + 1] < 0xE000:
            out.append(0x10000 + ((u - 0xD800) << 10) + (units[i + 1] - 0xDC00)); i += 2
        elif 0xD800 <= u < 0xE000:
            out.append(0xFFFD); i += 1
        else:
            out.append(u); i += 1
    return out

def utf8hex(scalars):
    return "".join(chr(c) for c in scalars).encode("utf-8").hex()

SPECIAL = [0xFEFF, 0xFFFE, 0xBBEF, 0x00BF, 0xFFFF, 0x0000, 0x00FF, 0x0100, 0xD7FF, 0xE000, 0xFFFD]

def gen_units(rng, kind, n):
    us = []
    while len(us) < n:
        if kind == "ascii":
            us.append(rng.randrange(0x20, 0x7F))
        elif kind == "latin1":
            us.append(rng.choice([rng.randrange(0x20, 0x7F), rng.randrange(0xA0, 0x100), 0xFF, 0xE9]))
        elif kind == "bmp":
            us.append(rng.choice([rng.randrange(0x20, 0x7F), rng.randrange(0xA0, 0x100),
                                  rng.randrange(0x100, 0x800), rng.randrange(0x4E00, 0x9FFF),
                                  rng.choice(SPECIAL)]))
        elif kind == "astral":
            if rng.random() < 0.5 and len(us) + 2 <= n:
                cp = rng.choice([0x1F600, 0x10000, 0x10FFFF, rng.randrange(0x10000, 0x110000)]) - 0x10000
                us += [0xD800 + (cp >> 10), 0xDC00 + (cp & 0x3FF)]
            else:
                us.append(rng.choice([rng.randrange(0x20, 0x7F), rng.randrange(0x100, 0x3000)]))
        else:  # "wild": lone surrogates allowed
            us.append(rng.choice([rng.randrange(0xD800, 0xE000), rng.randrange(0, 0x10000),
                                  rng.randrange(0x20, 0x100)]))
    return us[:n]

KINDS = ["ascii", "latin1", "bmp", "astral", "wild"]

def gen_string(rng, big=False):
    kind = rng.choice(KINDS)
    if big:
        n = rng.choice([8000, 20000, 32766, 32767])
    else:
        n = rng.choice([0, 0, 1, 1, 2, 3, 5, 8, 20, 60, 150, 300])
        if n >= 20:
            n = rng.randrange(n // 2, n + 1)
    return kind, gen_units(rng, kind, n)

def gen_layout(rng, units, fit=False, cutty=None):
    """a legal layout for one string: (cut_before, hb0, cuts[(n,hb)], runs|None, ext|None, tail_cuts)"""
    n = len(units)
    if cutty is None:
        cutty = rng.random() < 0.75
    # cut positions (non-decreasing, each < n); duplicates = empty segments
    pos = []
    if n > 0 and cutty:
        k = rng.choice([0, 1, 1, 2, 3, 6]) if n < 4000 else rng.randrange(0, 6)
        pos = sorted(rng.randrange(0, n) for _ in range(k))
        if pos and rng.random() < 0.15:
            pos.insert(rng.randrange(len(pos)), pos[0]); pos.sort()
    if fit and n > 3000:
        pos = sorted(set(pos) | set(range(3000, n, 3000)))
    bounds = [0] + pos + [n]
    segs = [units[bounds[i]:bounds[i + 1]] for i in range(len(bounds) - 1)]
    hbs = []
    for s in segs:
        can8 = all(u < 256 for u in s)
        hbs.append(0 if (can8 and rng.random() < 0.55) else 1)
    cuts = [(bounds[i + 1] - bounds[i], hbs[i + 1]) for i in range(len(pos))]
    runs = None
    if rng.random() < 0.35:
        runs = [(rng.randrange(0, 65536), rng.randrange(0, 65536)) for _ in range(rng.choice([0, 1, 2, 5, 40]))]
    ext = None
    if rng.random() < 0.35:
        ext = [rng.randrange(256) for _ in range(rng.choice([0, 1, 4, 12, 60, 300]))]
    tail_len = 4 * len(runs or []) + len(ext or [])
    tcuts = []
    if tail_len > 0 and cutty and rng.random() < 0.7:
        k = rng.choice([1, 1, 2, 4])
        tp = sorted(rng.randrange(0, tail_len) for _ in range(k))
        b2 = [0] + tp
        tcuts = [b2[i + 1] - b2[i] for i in range(len(tp))]
    cut_before = 1 if (cutty and rng.random() < 0.3) else 0
    return (cut_before, hbs[0], cuts, runs, ext, tcuts)

def units_hex(us):
    return "".join("%04x" % u for u in us)

def layout_text(l):
    cb, hb0, cuts, runs, ext, tcuts = l
    return ",".join([str(cb), str(hb0), "+".join("%d:%d" % c for c in cuts),
                     "-" if runs is None else "".join("%04x%04x" % r for r in runs),
                     "-" if ext is None else bytes(ext).hex(),
                     "+".join(str(t) for t in tcuts)])

def sstenc_line(cid, total, strs, lays):
    return "%s\tc12_sstenc\t%d\t%s\t%s" % (
        cid, total, ";".join(units_hex(s) for s in strs) if strs else "-",
        ";".join(layout_text(l) for l in lays) if lays else "-")

def sst_line(cid, data_hex, conts):
    return "%s\tc12_sst\t%s\t%s" % (cid, data_hex, conts)

def gen_table(rng, big=False, fit=False):
    ns = rng.choice([0, 1, 1, 2, 3, 5, 8, 12])
    if big:
        ns = max(ns, 1)
    strs, lays, kinds = [], [], []
    for i in range(ns):
        k, u = gen_string(rng, big=(big and i == 0))
        strs.append(u); kinds.append(k)
        lays.append(gen_layout(rng, u, fit=fit))
    return strs, lays, kinds

def has_pair_cut(units, lay):
    p = 0
    for (n, _) in lay[2]:
        p += n
        if 0 < p < len(units) and 0xD800 <= units[p - 1] < 0xDC00 and 0xDC00 <= units[p] < 0xE000:
            return True
    return False

# ---------------------------------------------------------------- classification
def known_registered(ctx, cls):
    return ctx.known_finding(cls) is not None

def classify_structured(ctx, case_line, impl, fields, function, py_spec=None):
    """fields = vm answer of an *enc command: legal|known|spec|model|…"""
    legal, known, spec, model = fields[0], fields[1], fields[2], fields[3]
    if legal != "1":
        ctx.disagreements.append({"function": function + ":generator-produced-illegal-layout",
                                  "case": case_line, "impl": impl, "model": "legal=0"})
        return
    if py_spec is not None and py_spec != spec:
        ctx.disagreements.append({"function": function + ":coq-spec-vs-python-spec",
                                  "case": case_line, "impl": py_spec, "model": spec})
        return
    if known == "-":
        if impl != spec:
            ctx.violations.append({"case": case_line, "expected": spec, "actual": impl, "model": model,
                                   "what": function + ": the text read differs from the text stored"})
            return
    else:
        if impl != spec:
            if known_registered(ctx, known):
                ctx.known_hits.setdefault(known, case_line)
            else:
                ctx.violations.append({"case": case_line, "expected": spec, "actual": impl, "model": model,
                                       "what": function + ": unregistered known class " + known})
                return
    if impl != model:
        ctx.disagreements.append({"function": function, "case": case_line, "impl": impl, "model": model})

# ---------------------------------------------------------------- SST: structured + mutated
def run_sst_cases(ctx, tables, tag, mutate=True):
    """tables = [(strs, lays, kinds, total)]"""
    lines = [sstenc_line("%s%d" % (tag, i), t[3], t[0], t[1]) for i, t in enumerate(tables)]
    enc = ctx.run_model(lines)
    impl_lines, raw_lines, meta = [], [], {}
    for i, t in enumerate(tables):
        cid = "%s%d" % (tag, i)
        a = enc.get(cid)
        if a is None or a.count("|") < 6:
            ctx.disagreements.append({"function": "sst_encode", "case": lines[i], "impl": None, "model": a})
            continue
        f = a.split("|")
        meta[cid] = (lines[i], f, t)
        impl_lines.append(sst_line(cid, f[4], f[5]))
        if mutate:
            for j, m in enumerate(mutations(ctx.rng, f[4], f[5])):
                raw_lines.append(sst_line("%sm%d_%d" % (tag, i, j), m[0], m[1]))
    impl = ctx.run_impl(impl_lines)
    for cid, (line, f, t) in meta.items():
        strs, lays, kinds, _ = t
        py_spec = "ok:%d:%s" % (len(strs), ",".join(utf8hex(utf16_spec(s)) for s in strs))
        classify_structured(ctx, line, impl.get(cid), f, "parse_sst", py_spec)
        ctx.traces += 1
        ncont = 0 if f[5] == "-" else f[5].count(",") + 1
        ctx.count("sst:strings:%d" % min(len(strs), 12))
        ctx.count("sst:continues:%s" % ("0" if ncont == 0 else "1-3" if ncont < 4 else "4-15" if ncont < 16 else "16+"))
        for s, l, k in zip(strs, lays, kinds):
            ctx.count("str:kind:" + k)
            ctx.count("str:len:%s" % ("0" if not s else "1-5" if len(s) < 6 else "6-300" if len(s) <= 300 else ">300"))
            ctx.count("lay:charcuts:%d" % min(len(l[2]), 4))
            if l[3] is not None: ctx.count("lay:rich")
            if l[4] is not None: ctx.count("lay:ext")
            if l[5]: ctx.count("lay:tailcuts")
            if l[0]: ctx.count("lay:cut_before")
            if any(hb == 0 for _, hb in l[2]) or l[1] == 0: ctx.count("lay:has8bit")
            if any(hb == 1 for _, hb in l[2]) or l[1] == 1: ctx.count("lay:has16bit")
            if has_pair_cut(s, l): ctx.count("lay:pair_cut")
        if ncont > 0:
            ctx.nontrivial(line.split("\t", 2)[2])
        if len(ctx.samples) < 3:
            ctx.sample({"case": line.split("\t", 2)[2][:300], "continues": ncont, "impl": (impl.get(cid) or "")[:120],
                        "impl_equals_model": impl.get(cid) == f[3]})
    if raw_lines:
        run_raw(ctx, raw_lines, "parse_sst(malformed)")

def run_raw(ctx, lines, function):
    impl, model = ctx.run_both(lines)
    for l in lines:
        cid = l.split("\t", 1)[0]
        i, m = impl.get(cid), model.get(cid)
        ctx.traces += 1
        cls = (i or "none").split(":", 1)[0]
        ctx.count("raw:%s:%s" % (function, cls))
        if i != m:
            ctx.disagreements.append({"function": function, "case": l, "impl": i, "model": m})
        elif cls != "ok":
            ctx.nontrivial(l.split("\t", 2)[2])

def mutations(rng, data_hex, conts):
    """single-fault mutations of an encoding: (data_hex, conts_text)"""
    data = bytearray.fromhex(data_hex)
    cs = [] if conts == "-" else [bytearray.fromhex(c) for c in conts.split(",")]
    def pack(d, c):
        return (bytes(d).hex(), ",".join(bytes(x).hex() for x in c) if c else "-")
    out = []
    kind = rng.randrange(9)
    if kind == 0 and len(data) > 0:                       # truncate the SST fragment
        out.append(pack(data[:rng.randrange(0, len(data))], cs))
    elif kind == 1 and cs:                                # truncate one CONTINUE
        k = rng.randrange(len(cs)); c2 = list(cs)
        c2[k] = c2[k][:rng.randrange(0, len(c2[k]) + 1)]
        out.append(pack(data, c2))
    elif kind == 2 and cs:                                # drop the last CONTINUE(s)
        out.append(pack(data, cs[:rng.randrange(0, len(cs))]))
    elif kind == 3 and len(data) >= 8:                    # count field
        v = rng.choice([0xFFFFFFFF, 0x80000000, 0x7FFFFFFF, 22369621, 22369622, 0,
                        struct.unpack("<I", data[4:8])[0] + 1, struct.unpack("<I", data[4:8])[0] + 7])
        d2 = bytearray(data); d2[4:8] = struct.pack("<I", v & 0xFFFFFFFF)
        out.append(pack(d2, cs))
    elif kind == 4 and len(data) >= 11:                   # cch / flags of the first string
        d2 = bytearray(data)
        if rng.random() < 0.5:
            d2[8:10] = struct.pack("<H", rng.choice([0xFFFF, 0, struct.unpack("<H", data[8:10])[0] + 1, 300]))
        else:
            d2[10] = rng.choice([d2[10] ^ 1, d2[10] ^ 4, d2[10] ^ 8, 0xFF, d2[10] | 0xF0])
        out.append(pack(d2, cs))
    elif kind == 5 and cs:                                # insert an empty CONTINUE
        k = rng.randrange(len(cs) + 1); c2 = list(cs); c2.insert(k, bytearray())
        out.append(pack(data, c2))
    elif kind == 6:                                       # a random byte anywhere
        allb = [data] + cs
        k = rng.randrange(len(allb))
        if len(allb[k]) > 0:
            b2 = [bytearray(x) for x in allb]
            p = rng.randrange(len(b2[k])); b2[k][p] = rng.randrange(256)
            out.append(pack(b2[0], b2[1:]))
    elif kind == 7 and cs:                                # merge two fragments (a cut removed)
        k = rng.randrange(len(cs)); allb = [bytearray(data)] + [bytearray(c) for c in cs]
        allb[k] = allb[k] + allb[k + 1]; del allb[k + 1]
        out.append(pack(allb[0], allb[1:]))
    elif kind == 8:                                       # split a fragment at a random place
        allb = [bytearray(data)] + [bytearray(c) for c in cs]
        k = rng.randrange(len(allb))
        if len(allb[k]) > 1:
            p = rng.randrange(1, len(allb[k]))
            allb[k:k + 1] = [allb[k][:p], allb[k][p:]]
            out.append(pack(allb[0], allb[1:]))
    return out

# ---------------------------------------------------------------- boundary layouts
def boundary_tables(rng):
    """every cut position x both compressions of both sides, on short strings of each kind"""
    out = []
    samples = [[0x61], [0x61, 0x62, 0x63], [0xE9, 0x41, 0xFF], [0x4E2D, 0x61, 0xFEFF], [0xFEFF, 0x61],
               [0xFFFE, 0x61, 0x62], [0xBBEF, 0x00BF, 0x4E2D], [0x61, 0xD83D, 0xDE00, 0x62],
               [0xD83D, 0xDE00], [0xDE00, 0xD83D], [0xD83D, 0xD83D, 0xDE00], [0xD83D], [0x61, 0xDC00, 0x62]]
    for us in samples:
        n = len(us)
        # no cut, both compressions
        for hb0 in (0, 1):
            if hb0 == 0 and any(u >= 256 for u in us):
                continue
            out.append(([us], [(0, hb0, [], None, None, [])], ["boundary"], 1))
        for p in range(0, n):
            for hb0 in (0, 1):
                for hb1 in (0, 1):
                    a, b = us[:p], us[p:]
                    if (hb0 == 0 and any(u >= 256 for u in a)) or (hb1 == 0 and any(u >= 256 for u in b)):
                        continue
                    out.append(([us, [0x7A]], [(0, hb0, [(p, hb1)], None, None, []), (0, 0, [], None, None, [])],
                                ["boundary", "ascii"], 2))
            # two cuts at the same place (an empty segment) and a cut before the string
            out.append(([[0x78], us], [(0, 0, [], None, None, []), (1, 1, [(p, 1), (0, 1)], None, None, [])],
                        ["ascii", "boundary"], 2))
        # every cut position in a tail of 2 runs + 3 ext bytes; then two cuts
        runs, ext = [(1, 2), (3, 4)], [9, 8, 7]
        for q in range(0, 11):
            out.append(([us, [0x7A, 0x7A]], [(0, 1, [], runs, ext, [q]), (rng.randrange(2), 0, [], None, None, [])],
                        ["boundary", "ascii"], 2))
        out.append(([us, [0x7A]], [(0, 1, [], runs, ext, [0, 0, 8, 2]), (1, 0, [], None, None, [])],
                    ["boundary", "ascii"], 2))
        out.append(([us, [0x7A]], [(0, 1, [], [], [], []), (0, 0, [], [], None, [])], ["boundary", "ascii"], 2))
    return out

# ---------------------------------------------------------------- single-string records
def run_cell_cases(ctx, n, tag):
    rng = ctx.rng
    lines, specs = [], {}
    for i in range(n):
        cid = "%s%d" % (tag, i)
        kind = rng.choice(["label", "string", "bsheet", "labelsst"])
        if kind == "labelsst":
            tbl = [gen_units(rng, rng.choice(KINDS[:4]), rng.choice([0, 0, 1, 3, 10])) for _ in range(rng.randrange(0, 6))]
            tbl_s = [utf16_spec(t) for t in tbl]
            idx = rng.choice([0, 1, len(tbl) - 1 if tbl else 0, len(tbl), len(tbl) + 3, rng.randrange(0, 7)])
            idx = max(idx, 0)
            lines.append("%s\tc12_cellenc\tlabelsst\t%d\t%d\t%d\t%s" % (
                cid, rng.randrange(65536), rng.randrange(256), idx,
                ",".join(utf8hex(s) for s in tbl_s) if tbl_s else "-"))
        else:
            k = rng.choice(KINDS)
            nmax = 255 if kind == "bsheet" else 400
            us = gen_units(rng, k, min(nmax, rng.choice([0, 0, 1, 2, 3, 7, 31, 100, 255, 400])))
            hb = 0 if (all(u < 256 for u in us) and rng.random() < 0.5) else 1
            extra = bytes(rng.randrange(256) for _ in range(rng.choice([0, 0, 0, 1, 5])))
            lines.append("%s\tc12_cellenc\t%s\t%d\t%s\t%s" % (cid, kind, hb, units_hex(us), extra.hex()))
            dec = utf16_spec(us)
            specs[cid] = {"label": "ok:3:7:" + utf8hex(dec), "string": "ok:" + utf8hex(dec),
                          "bsheet": "ok:4660:" + utf8hex([c for c in dec if c != 0])}[kind]
        ctx.count("cell:" + kind)
    enc = ctx.run_model(lines)
    impl_lines, raw_lines, meta = [], [], {}
    for l in lines:
        cid = l.split("\t", 1)[0]
        kind = l.split("\t")[2]
        a = enc.get(cid)
        if a is None or a.count("|") < 4:
            ctx.disagreements.append({"function": "cell encoders", "case": l, "impl": None, "model": a})
            continue
        f = a.split("|")
        meta[cid] = (l, f, kind)
        table = l.split("\t")[6] if kind == "labelsst" else "-"
        impl_lines.append("%s\tc12_cell\t%s\t%s\t%s" % (cid, kind, f[4], table))
        body = bytes.fromhex(f[4])
        # malformed: truncation at a random length; length field bumped
        if len(body) > 0:
            raw_lines.append("%sT\tc12_cell\t%s\t%s\t%s" % (cid, kind, body[:rng.randrange(0, len(body))].hex(), table))
        if kind != "labelsst" and len(body) > 8:
            b2 = bytearray(body)
            off = 6 if kind in ("label", "bsheet") else 0
            b2[off] = (b2[off] + rng.choice([1, 2, 100])) & 0xFF
            raw_lines.append("%sL\tc12_cell\t%s\t%s\t%s" % (cid, kind, bytes(b2).hex(), table))
    impl = ctx.run_impl(impl_lines)
    for cid, (l, f, kind) in meta.items():
        classify_structured(ctx, l, impl.get(cid), f, "parse_" + kind, specs.get(cid))
        ctx.traces += 1
        ctx.nontrivial(l.split("\t", 2)[2])
    run_raw(ctx, raw_lines, "cell records(malformed)")

# ---------------------------------------------------------------- RecordIter
def run_record_cases(ctx, n, tag):
    rng = ctx.rng
    lines = []
    for i in range(n):
        parts = []
        for _ in range(rng.randrange(1, 6)):
            t = rng.choice([0x00FC, 0x003C, 0x003C, 0x000A, 0x0085, 0x0204, 0x00FD, rng.randrange(65536)])
            body = bytes(rng.randrange(256) for _ in range(rng.choice([0, 0, 1, 3, 4, 5, 20])))
            parts.append(biffgen.rec(t, body))
        s = b"".join(parts)
        m = rng.randrange(6)
        if m == 0 and len(s) > 0:
            s = s[:rng.randrange(0, len(s))]                  # truncated stream
        elif m == 1:
            s += bytes(rng.randrange(256) for _ in range(rng.randrange(1, 4)))   # dangling bytes
        elif m == 2:
            s += biffgen.rec(0x003C, b"")                      # empty CONTINUE as the very last record
        elif m == 3 and len(s) >= 4:
            b = bytearray(s); b[2:4] = struct.pack("<H", rng.choice([len(s), len(s) - 4, len(s) - 3, 0xFFFF])); s = bytes(b)
        lines.append("%s%d\tc12_records\t%s" % (tag, i, s.hex()))
        ctx.count("records:mut%d" % m)
    impl, model = ctx.run_both(lines)
    for l in lines:
        cid = l.split("\t", 1)[0]
        ctx.traces += 1
        if impl.get(cid) != model.get(cid):
            ctx.disagreements.append({"function": "RecordIter", "case": l, "impl": impl.get(cid), "model": model.get(cid)})
        else:
            ctx.nontrivial(l.split("\t", 2)[2])

def flagged(ctx):
    return len(ctx.violations) + len(ctx.disagreements)

def drop_file(path):
    try:
        os.remove(path)
    except OSError:
        pass

# ---------------------------------------------------------------- end to end
def run_files(ctx, n, tag):
    rng = ctx.rng
    tmp = os.path.join(vlib.CACHE, "tmp", "c12-%d" % os.getpid())
    os.makedirs(tmp, exist_ok=True)
    tables = []
    for i in range(n):
        strs, lays, kinds = gen_table(rng, big=(i % 25 == 7), fit=True)
        if not strs:
            strs, lays, kinds = [[0x61]], [(0, 0, [], None, None, [])], ["ascii"]
        tables.append((strs, lays, kinds, rng.randrange(0, 1000)))
    lines = [sstenc_line("%s%d" % (tag, i), t[3], t[0], t[1]) for i, t in enumerate(tables)]
    enc = ctx.run_model(lines)
    impl_lines, model_lines, expect, known = [], [], {}, {}
    for i, t in enumerate(tables):
        cid = "%s%d" % (tag, i)
        a = enc.get(cid)
        if a is None or a.count("|") < 6:
            ctx.disagreements.append({"function": "sst_encode", "case": lines[i], "impl": None, "model": a}); continue
        f = a.split("|")
        data = bytes.fromhex(f[4])
        conts = [] if f[5] == "-" else [bytes.fromhex(c) for c in f[5].split(",")]
        if len(data) > 65535 or any(len(c) > 65535 for c in conts):
            continue
        strs = t[0]
        table_spec = [utf16_spec(s) for s in strs]
        # sheets: non-ASCII names, LABELSST cells for every string plus LABEL / FORMULA+STRING cells
        sheets, exp_sheets = [], []
        nsheets = rng.choice([1, 1, 2, 3])
        used_names = set()
        for sh in range(nsheets):
            while True:
                k = rng.choice(["ascii", "latin1", "bmp", "astral"])
                nm = [u for u in gen_units(rng, k, rng.randrange(1, 32))]
                if sh == 0 and rng.random() < 0.3:
                    nm = [0xFEFF] + nm[:30]
                key = tuple(c for c in utf16_spec(nm) if c != 0)
                if key and key not in used_names:
                    used_names.add(key); break
            hbn = 0 if (all(u < 256 for u in nm) and rng.random() < 0.5) else 1
            cells, exp_cells, row = [], {}, rng.randrange(0, 3)
            idxs = list(range(len(strs))) if sh == 0 else [rng.randrange(0, len(strs) + 2) for _ in range(rng.randrange(0, 6))]
            for ix in idxs:
                col = rng.randrange(0, 4)
                cells.append(("sst", row, col, ix))
                if ix < len(strs) and table_spec[ix]:
                    exp_cells[(row, col)] = table_spec[ix]
                row += rng.randrange(1, 3)
            for _ in range(rng.randrange(0, 3)):
                k = rng.choice(KINDS)
                us = gen_units(rng, k, rng.choice([1, 2, 5, 40]))
                hb = 0 if (all(u < 256 for u in us) and rng.random() < 0.5) else 1
                col = rng.randrange(0, 4)
                cells.append((rng.choice(["label", "fstring"]), row, col, hb, us))
                exp_cells[(row, col)] = utf16_spec(us)
                row += rng.randrange(1, 3)
            sheets.append((hbn, nm, cells))
            exp_sheets.append("%s=%s" % (utf8hex(list(key)), ",".join(
                "%d:%d:%s" % (r, c, utf8hex(v)) for (r, c), v in sorted(exp_cells.items()))))
        cp = rng.choice(biffgen.CODEPAGES)
        if NESTED["ok"] and rng.random() < 0.25:
            # a chart substream nested in the sheet: its records are not the sheet's
            sheets = [(hb_, nm_, with_nested(rng, cs_, len(strs))) for (hb_, nm_, cs_) in sheets]
            ctx.count("file:nested-substream")
        extra = real_globals(rng) if rng.random() < 0.5 else b""
        if rng.random() < 0.5:
            sheets = [(hb_, nm_, [("raw", dimensions_rec(rng))] + cs_) for (hb_, nm_, cs_) in sheets]
        wb = biffgen.workbook_stream(data, conts, sheets, extra_globals=extra, codepage=cp)
        ctx.count("file:codepage:%s" % ("none" if cp is None else cp))
        path = os.path.join(tmp, "%s.xls" % cid)
        open(path, "wb").write(biffgen.xls_file(wb))
        impl_lines.append("%s\tc12_open\t%s" % (cid, path))
        model_lines.append("%s\tc12_open\t%s" % (cid, wb.hex()))
        expect[cid] = "ok:" + "|".join(exp_sheets)
        known[cid] = f[1]
        ctx.count("file:continues:%s" % ("0" if not conts else "1-9" if len(conts) < 10 else "10+"))
        ctx.count("file:sheets:%d" % nsheets)
    impl = ctx.run_impl(impl_lines)
    model = ctx.run_model(model_lines)
    for l in impl_lines:
        cid = l.split("\t", 1)[0]
        i, m, s = impl.get(cid), model.get(cid), expect[cid]
        ctx.traces += 1
        case = "%s (model input: Workbook stream of that file)" % l
        f = ["1", known[cid], s, m]
        before = flagged(ctx)
        classify_structured(ctx, case, i, f, "Xls::new+sheet_names+worksheet_range")
        if flagged(ctx) == before:
            drop_file(l.split("\t")[2])
        ctx.nontrivial(cid + s)
        if len(ctx.samples) < 5:
            ctx.sample({"file_case": cid, "impl": (i or "")[:160], "impl_equals_model": i == m})
    # malformed files: the Workbook stream truncated inside the SST area
    mal_i, mal_m = [], []
    for l, ml in list(zip(impl_lines, model_lines))[: max(3, n // 4)]:
        cid = l.split("\t", 1)[0]
        wb = bytes.fromhex(ml.split("\t")[2])
        cut = rng.randrange(20, len(wb))
        wb2 = wb[:cut]
        path = os.path.join(tmp, "%sT.xls" % cid)
        open(path, "wb").write(biffgen.xls_file(wb2))
        mal_i.append("%sT\tc12_open\t%s" % (cid, path))
        mal_m.append("%sT\tc12_open\t%s" % (cid, wb2.hex()))
    impl = ctx.run_impl(mal_i)
    model = ctx.run_model(mal_m)
    for l in mal_i:
        cid = l.split("\t", 1)[0]
        ctx.traces += 1
        ctx.count("file:truncated:%s" % (impl.get(cid) or "none").split(":", 1)[0])
        if impl.get(cid) != model.get(cid):
            ctx.disagreements.append({"function": "Xls::new(truncated stream)", "case": l,
                                      "impl": impl.get(cid), "model": model.get(cid)})
        else:
            drop_file(l.split("\t")[2])

def real_globals(rng):
    """globals records of real files that cannot change a string and that C12's model reads by their
    length check (Date1904, XF, FORMAT, ExternSheet) or not at all (RRTabId, Window1, Font ...)"""
    pool = [(0x0022, struct.pack("<H", rng.randrange(2))),
            (0x00E0, struct.pack("<HHHHHHIIH", 0, rng.choice([0, 14, 164]), 1, 0x20, 0, 0, 0, 0, 0x20C0)),
            (0x041E, struct.pack("<H", 164) + biffgen.xl_string(0, list(b"yyyy-mm-dd"))),
            (0x041E, struct.pack("<H", 165) + biffgen.xl_string(1, [0x5E74, 0x6708])),
            (0x0017, struct.pack("<HHhh", 1, 0, 0, 0)),
            (0x013D, struct.pack("<H", 1)), (0x003D, bytes(18)), (0x0031, bytes(14) + b"\x05\x00Arial"),
            (0x00E1, struct.pack("<H", 1200)), (0x005C, b"\x03\x00\x00abc".ljust(112, b" ")), (0x008C, struct.pack("<HH", 1, 1))]
    return b"".join(biffgen.rec(t, b) for t, b in rng.sample(pool, rng.randrange(1, 6)))

def dimensions_rec(rng):
    """DIMENSIONS of a sheet substream (BIFF8: 14 bytes; the 10-byte form of BIFF5 is accepted too)"""
    if rng.random() < 0.8:
        return biffgen.rec(0x0200, struct.pack("<IIHHH", 0, rng.randrange(1, 70000), 0, rng.randrange(1, 257), 0))
    return biffgen.rec(0x0200, struct.pack("<HHHHH", 0, rng.randrange(1, 65536), 0, rng.randrange(1, 257), 0))

# a substream nested in a worksheet substream (the chart of an embedded chart object, [MS-XLS]
# 2.1.7.20.5): BOF(dt = chart) ... EOF; its series cache is made of LABEL / NUMBER / BOOLERR records
NESTED = {"ok": False}
BOF_CHART = biffgen.rec(0x0809, struct.pack("<HHHHII", 0x0600, 0x0020, 0x0DBB, 0x07CC, 0, 0x0306))

def nested_block(rng, nstr):
    inner = b""
    for _ in range(rng.randrange(0, 5)):
        k = rng.randrange(5)
        if k == 0:
            inner += biffgen.cell_records(("label", rng.randrange(4), rng.randrange(4), 0, [0x58, 0x59]))
        elif k == 1:
            inner += biffgen.cell_records(("sst", rng.randrange(4), rng.randrange(4), rng.randrange(nstr + 1)))
        elif k == 2:
            inner += biffgen.rec(0x0203, struct.pack("<HHHd", rng.randrange(4), rng.randrange(4), 0, 2.5))
        elif k == 3:
            inner += biffgen.cell_records(("fstring", rng.randrange(4), rng.randrange(4), 1, [0x4E2D]))
        else:
            inner += biffgen.rec(0x1001, bytes(12)) + biffgen.rec(0x0200, bytes(14))
    if rng.random() < 0.15:        # a substream inside the nested one
        inner += BOF_CHART + biffgen.cell_records(("label", 0, 0, 0, [0x5A])) + biffgen.EOF
    return BOF_CHART + inner + biffgen.EOF

def with_nested(rng, cells, nstr):
    out = list(cells)
    for _ in range(rng.choice([1, 1, 2])):
        out.insert(rng.randrange(len(out) + 1), ("raw", nested_block(rng, nstr)))
    return out

def probe_nested(ctx):
    """does the tree under check skip substreams nested in a sheet (repair of audit-2 finding XLS-2 in
    the sheet loop, which C12's model wb_sheet follows)?  On a tree without it the nested-substream
    cases are not run (the model is that commit ahead): said in the evidence."""
    tmp = os.path.join(vlib.CACHE, "tmp", "c12-%d" % os.getpid())
    os.makedirs(tmp, exist_ok=True)
    chart = BOF_CHART + biffgen.cell_records(("label", 0, 0, 0, [0x58, 0x58])) + biffgen.EOF
    wb = biffgen.workbook_stream(EMPTY_SST, [], [(0, [0x53], [("label", 0, 0, 0, [0x61]), ("raw", chart), ("label", 1, 0, 0, [0x62])])])
    path = os.path.join(tmp, "probe_nested.xls")
    open(path, "wb").write(biffgen.xls_file(wb))
    i = ctx.run_impl(["pn\tc12_open\t%s" % path]).get("pn")
    m = ctx.run_model(["pn\tc12_open\t%s" % wb.hex()]).get("pn")
    NESTED["ok"] = (i == m)
    ctx.extra["nested_substream_cases"] = "run" if NESTED["ok"] else (
        "NOT run: the tree under check reads the records of a substream nested in a sheet as cells of the sheet "
        "(impl %s, model %s): audit-2 finding XLS-2, whose repair C12's model of the sheet loop already follows" % (i, m))
    if not NESTED["ok"]:
        ctx.notes.append(ctx.extra["nested_substream_cases"])

def run_coq_workbooks(ctx, n, tag):
    """whole workbooks written by the extracted Coq writer workbook_stream (the one the theorem
    C12_workbook_strings is about); Python only wraps the stream into a compound file"""
    rng = ctx.rng
    tmp = os.path.join(vlib.CACHE, "tmp", "c12-%d" % os.getpid())
    os.makedirs(tmp, exist_ok=True)
    lines = []
    for i in range(n):
        strs, lays, kinds = gen_table(rng, fit=True)
        if not strs:
            strs, lays, kinds = [[0x61]], [(0, 0, [], None, None, [])], ["ascii"]
        sheets, used = [], set()
        for sh in range(rng.choice([1, 2, 3])):
            while True:
                nm = gen_units(rng, rng.choice(KINDS), rng.randrange(1, 32))
                key = tuple(c for c in utf16_spec(nm) if c != 0)
                if key and key not in used:
                    used.add(key); break
            hbn = 0 if (all(u < 256 for u in nm) and rng.random() < 0.5) else 1
            cells, row = [], rng.randrange(0, 3)
            idxs = list(range(len(strs))) if sh == 0 else [rng.randrange(0, len(strs) + 2) for _ in range(rng.randrange(0, 6))]
            for ix in idxs:
                cells.append("s:%d:%d:%d" % (row, rng.randrange(0, 4), ix)); row += rng.randrange(1, 3)
            for _ in range(rng.randrange(0, 3)):
                us = gen_units(rng, rng.choice(KINDS), rng.choice([0, 1, 2, 5, 40]))
                hb = 0 if (all(u < 256 for u in us) and rng.random() < 0.5) else 1
                if us and rng.random() < 0.35:          # a formula string continued in CONTINUE records
                    pos = sorted(rng.randrange(0, len(us)) for _ in range(rng.choice([1, 1, 2, 4])))
                    hb0, cuts = fstr_layout(rng, us, rng.choice(["all16", "16then8", "8then16", "alt", "random"]), pos)
                    cells.append("f:%d:%d:%d:%s:%s" % (row, rng.randrange(0, 4), hb0, units_hex(us),
                                                      "/".join("%d.%d" % c for c in cuts)))
                    ctx.count("wb:fstring-continued")
                else:
                    cells.append("%s:%d:%d:%d:%s" % (rng.choice("lf"), row, rng.randrange(0, 4), hb, units_hex(us)))
                row += rng.randrange(1, 3)
            sheets.append("%d,%s,%s" % (hbn, units_hex(nm), "+".join(cells)))
        cp = rng.choice(biffgen.CODEPAGES)           # the CodePage record of the globals: any value, or none
        ctx.count("wb:codepage:%s" % ("none" if cp is None else cp))
        lines.append("%s%d\tc12_wbenc\t%d\t%s\t%s\t%s\t%s" % (
            tag, i, rng.randrange(0, 1000), ";".join(units_hex(s) for s in strs),
            ";".join(layout_text(l) for l in lays), ";".join(sheets), "-" if cp is None else cp))
    enc = ctx.run_model(lines)
    impl_lines, meta = [], {}
    for l in lines:
        cid = l.split("\t", 1)[0]
        a = enc.get(cid)
        if a is None or a.count("#") != 4:
            ctx.disagreements.append({"function": "workbook_stream", "case": l, "impl": None, "model": a}); continue
        f = a.split("#")
        if f[0] != "1":
            ctx.count("wb:not-legal(record over 65535 bytes)"); continue
        path = os.path.join(tmp, "%s.xls" % cid)
        open(path, "wb").write(biffgen.xls_file(bytes.fromhex(f[4])))
        impl_lines.append("%s\tc12_open\t%s" % (cid, path))
        meta[cid] = (l, f)
    impl = ctx.run_impl(impl_lines)
    for cid, (l, f) in meta.items():
        before = flagged(ctx)
        classify_structured(ctx, l, impl.get(cid), f, "Xls::new+sheet_names+worksheet_range(coq writer)")
        if flagged(ctx) == before:
            drop_file(os.path.join(tmp, "%s.xls" % cid))
        ctx.traces += 1
        ctx.count("wb:coq-written")
        ctx.nontrivial(l.split("\t", 2)[2])

# ---------------------------------------------------------------- formula string results (STRING + CONTINUE)
MAXREC = 8224          # [MS-XLS] record body limit

def fstr_line(cid, hb0, units, cuts, trail):
    return "%s\tc12_fstrenc\t%d\t%s\t%s\t%s" % (
        cid, hb0, units_hex(units) or "-", "+".join("%d:%d" % c for c in cuts) or "-",
        bytes(trail).hex() or "-")

def fstr_layout(rng, units, mode, pos, fit=True):
    """(hb0, cuts) for the cut positions pos (sorted, each < len(units), repeats = empty segments).
    mode: all16 | all8 (where the units allow) | 16then8 | 8then16 | alt | random.
    fit: segments are cut further so that every record body stays within 8224 bytes."""
    n = len(units)
    bounds = [0] + list(pos) + [n]
    segs = [(bounds[i], bounds[i + 1]) for i in range(len(bounds) - 1)]
    out = []                         # [(a, b, hb)]
    for k, (a, b) in enumerate(segs):
        can8 = all(u < 256 for u in units[a:b])
        want8 = {"all16": False, "all8": True, "16then8": k > 0, "8then16": k == 0,
                 "alt": k % 2 == 1, "random": rng.random() < 0.5}[mode]
        hb = 0 if (can8 and want8) else 1
        cap = (MAXREC - (3 if not out else 1)) // (2 if hb else 1)
        while fit and b - a > cap:
            out.append((a, a + cap, hb)); a += cap
            cap = (MAXREC - 1) // (2 if hb else 1)
        out.append((a, b, hb))
    cuts = [(out[i][1] - out[i][0], out[i + 1][2]) for i in range(len(out) - 1)]
    return out[0][2], cuts

def mixed_units(rng, n):
    """blocks of different repertoires, so that 8-bit and 16-bit fragments can alternate; returns
    (units, block boundaries)"""
    us, marks = [], []
    while len(us) < n:
        k = rng.choice(["ascii", "latin1", "bmp", "astral", "latin1", "ascii"])
        m = min(n - len(us), rng.choice([1, 2, 7, 40, 300, 2000, 5000]))
        us += gen_units(rng, k, m)
        marks.append(len(us))
    return us[:n], [m for m in marks if m < n]

FSTR_LENGTHS = [1, 2, 3, 5, 8, 20, 60, 150, 300, 1000, 2055, 4109, 4110, 4111, 4112, 5000, 8219, 8220, 8221,
                8222, 8223, 8224, 8500, 9000]

def fstr_cases(ctx):
    """[(units, hb0, cuts, trail, label)]"""
    rng = ctx.rng
    out = []
    # 1. boundary: every cut position x both packings on both sides; double cut; flag-only tail
    samples = [[0x61], [0x61, 0x62, 0x63], [0xE9, 0x41, 0xFF], [0x4E2D, 0x61, 0xFEFF], [0xFEFF, 0x61],
               [0x61, 0xD83D, 0xDE00, 0x62], [0xD83D, 0xDE00], [0xDE00, 0xD83D], [0xD83D],
               [0x61, 0x62, 0x63, 0x64, 0x65, 0x66]]
    for us in samples:
        n = len(us)
        for hb0 in (0, 1):
            if hb0 == 0 and any(u >= 256 for u in us):
                continue
            out.append((us, hb0, [], [], "boundary:nocut"))
            out.append((us, hb0, [], [rng.randrange(2)], "boundary:flag-only-tail"))
        for p in range(0, n):
            for hb0 in (0, 1):
                for hb1 in (0, 1):
                    a, b = us[:p], us[p:]
                    if (hb0 == 0 and any(u >= 256 for u in a)) or (hb1 == 0 and any(u >= 256 for u in b)):
                        continue
                    out.append((us, hb0, [(p, hb1)], [], "boundary:cut%d%d" % (hb0, hb1)))
            out.append((us, 1, [(p, 1), (0, 1)], [1, 0], "boundary:empty-segment"))
    # every character in a record of its own, packings alternating where possible
    us = [0x61, 0xE9, 0x4E2D, 0x62, 0xD83D, 0xDE00, 0x63, 0x64]
    hb0, cuts = fstr_layout(rng, us, "alt", list(range(1, len(us))), fit=False)
    out.append((us, hb0, cuts, [], "boundary:one-char-per-record"))
    # 2. lengths 1 .. 9000 in every packing; natural cuts (only where the record limit forces them)
    #    and extra random cuts
    for n in FSTR_LENGTHS + [rng.randrange(1, 9001) for _ in range(ctx.scale(6, 200))]:
        for kind in ("ascii", "latin1", "mixed", "astral" if n % 2 else "bmp"):
            if kind == "mixed":
                us, marks = mixed_units(rng, n)
            else:
                us, marks = gen_units(rng, kind, n), []
            for mode in ("all16", "all8", "16then8", "8then16", "random"):
                if kind in ("astral", "bmp") and mode in ("all8", "8then16"):
                    continue
                style = rng.choice(["natural", "random", "random"]) if n > 1 else "natural"
                if style == "natural":
                    pos = list(marks) if mode != "all16" else []
                else:
                    pos = sorted(set(marks) | set(rng.randrange(0, n) for _ in range(rng.choice([1, 2, 3, 6]))))
                    if rng.random() < 0.2 and pos:
                        pos.append(pos[0]); pos.sort()
                if mode in ("16then8", "8then16") and not pos and n > 1:
                    pos = [rng.randrange(1, n)]
                hb0, cuts = fstr_layout(rng, us, mode, pos)
                trail = [rng.randrange(2)] if rng.random() < 0.1 else []
                out.append((us, hb0, cuts, trail, "len:%s:%s:%s" % (
                    "1-8" if n <= 8 else "9-300" if n <= 300 else "301-4110" if n <= 4110 else "4111-8221" if n <= 8221 else ">8221",
                    kind, mode)))
    # 3. random short and medium strings, many cuts
    for _ in range(ctx.scale(500, 8000)):
        kind = rng.choice(KINDS + ["mixed"])
        n = rng.choice([1, 2, 3, 4, 6, 10, 30, 100, 400])
        us, marks = mixed_units(rng, n) if kind == "mixed" else (gen_units(rng, kind, n), [])
        k = rng.choice([0, 1, 1, 2, 3, 5])
        pos = sorted(list(rng.randrange(0, n) for _ in range(k)) + (marks if rng.random() < 0.5 else []))
        hb0, cuts = fstr_layout(rng, us, rng.choice(["all16", "all8", "16then8", "8then16", "alt", "random", "random"]), pos)
        trail = [rng.randrange(2) for _ in range(rng.choice([1, 2]))] if rng.random() < 0.08 else []
        out.append((us, hb0, cuts, trail, "random:" + kind))
    return out

EMPTY_SST = struct.pack("<II", 0, 0)

def fstr_file(path, cells, codepage=1200):
    """cells = [(row, col, STRING body, CONTINUE bodies)]; after every formula a LABEL sentinel on the
    next row; returns the Workbook stream"""
    recs = []
    for (row, col, data, conts) in cells:
        recs.append(("fstringc", row, col, data, conts))
        recs.append(("label", row + 1, 0, 0, [0x7A, 0x30 + (row // 2) % 10]))
    wb = biffgen.workbook_stream(EMPTY_SST, [], [(0, [0x46], recs)], codepage=codepage)
    open(path, "wb").write(biffgen.xls_file(wb))
    return wb

def parse_open(ans):
    """ok:<name>=r:c:hex,... (one sheet) -> {(r, c): hex}; anything else -> None"""
    if not ans or not ans.startswith("ok:") or "=" not in ans or "|" in ans:
        return None
    body = ans.split("=", 1)[1]
    d = {}
    if body:
        for t in body.split(","):
            r, c, v = t.split(":", 2)
            d[(int(r), int(c))] = v
    return d

def run_fstring_cases(ctx, cases, tag, per_file=6):
    rng = ctx.rng
    tmp = os.path.join(vlib.CACHE, "tmp", "c12-%d" % os.getpid())
    os.makedirs(tmp, exist_ok=True)
    lines = [fstr_line("%s%d" % (tag, i), c[1], c[0], c[2], c[3]) for i, c in enumerate(cases)]
    enc = ctx.run_model(lines)
    items = []
    for i, c in enumerate(cases):
        cid = "%s%d" % (tag, i)
        a = enc.get(cid)
        if a is None or a.count("|") != 5:
            ctx.disagreements.append({"function": "fstring_encode", "case": lines[i], "impl": None, "model": a}); continue
        f = a.split("|")
        data = bytes.fromhex(f[4])
        conts = [] if f[5] == "-" else [bytes.fromhex(x) for x in f[5].split(",")]
        if len(data) > 65535 or any(len(x) > 65535 for x in conts):
            continue
        items.append((cid, lines[i], f, data, conts, c))

    def open_groups(groups, suffix):
        """groups = [[item, ...]]: one file per group; returns per item (impl cell text, model cell text, path)"""
        il, ml, where = [], [], {}
        for g, grp in enumerate(groups):
            fid = "%sF%s%d" % (tag, suffix, g)
            path = os.path.join(tmp, fid + ".xls")
            cells = [(2 * j, j % 3, it[3], it[4]) for j, it in enumerate(grp)]
            wb = fstr_file(path, cells, codepage=rng.choice(biffgen.CODEPAGES))
            il.append("%s\tc12_open\t%s" % (fid, path))
            ml.append("%s\tc12_open\t%s" % (fid, wb.hex()))
            where[fid] = (grp, path)
        impl, model = ctx.run_impl(il), ctx.run_model(ml)
        res, failed = {}, []
        for fid, (grp, path) in where.items():
            di, dm = parse_open(impl.get(fid)), parse_open(model.get(fid))
            ok_file = di is not None and all(di.get((2 * j + 1, 0)) == bytes([0x7A, 0x30 + j % 10]).hex() for j in range(len(grp)))
            if not ok_file and len(grp) > 1:
                failed.append(grp); continue
            for j, it in enumerate(grp):
                ti = ("ok:" + di.get((2 * j, j % 3), "<no cell>")) if di is not None else (impl.get(fid) or "none")
                if di is not None and not ok_file:
                    ti += " (the LABEL after it: %s)" % di.get((2 * j + 1, 0))
                tm = ("ok:" + dm.get((2 * j, j % 3), "<no cell>")) if dm is not None else (model.get(fid) or "none")
                res[it[0]] = (ti, tm, path)
        return res, failed

    groups = [items[k:k + per_file] for k in range(0, len(items), per_file)]
    res, failed = open_groups(groups, "g")
    if failed:                      # a file that did not read as a whole: every cell in a file of its own
        r2, _ = open_groups([[it] for grp in failed for it in grp], "s")
        res.update(r2)
    keep = set()
    for (cid, line, f, data, conts, c) in items:
        units, hb0, cuts, trail, label = c
        ti, tm, path = res[cid]
        py_spec = "ok:" + utf8hex(utf16_spec(units))
        before = flagged(ctx)
        classify_structured(ctx, "%s\t(file %s)" % (line, path), ti, [f[0], f[1], f[2], tm],
                            "String arm (Xls::new+worksheet_range)", py_spec)
        if flagged(ctx) != before:
            keep.add(path)
        if f[3] != tm:              # the arm alone and the arm inside the workbook model must agree
            ctx.disagreements.append({"function": "string_arm vs wb_strings", "case": line, "impl": tm, "model": f[3]})
        ctx.traces += 1
        ctx.count("fstr:" + label)
        ctx.count("fstr:continues:%s" % ("0" if not conts else "1" if len(conts) == 1 else "2-3" if len(conts) < 4 else "4+"))
        hbs = [hb0] + [h for _, h in cuts]
        ctx.count("fstr:packing:%s" % ("8" if not any(hbs) else "16" if all(hbs) else "16->8.." if hbs[0] else "8->16.."))
        if has_pair_cut(units, (0, hb0, cuts)): ctx.count("fstr:pair_cut")
        if trail: ctx.count("fstr:flag-only-tail")
        if conts:
            ctx.nontrivial(line.split("\t", 2)[2][:4000])
        if len(ctx.samples) < 7 and conts and len(units) < 12:
            ctx.sample({"formula_string_case": line.split("\t", 2)[2], "impl": ti, "impl_equals_model": ti == tm})
    for g in os.listdir(tmp):
        pth = os.path.join(tmp, g)
        if g.startswith(tag + "F") and pth not in keep:
            drop_file(pth)
    # malformed: single faults in the STRING / CONTINUE run, outcome compared with the model
    il, ml = [], []
    for (cid, line, f, data, conts, c) in items:
        if not conts or len(c[0]) > 600 or rng.random() < 0.5:
            continue
        d2, c2 = bytearray(data), [bytearray(x) for x in conts]
        kind = rng.randrange(7)
        if kind == 0:
            c2 = c2[:-1]                                              # last CONTINUE lost
        elif kind == 1:
            c2[rng.randrange(len(c2))] = bytearray()                  # an empty CONTINUE
        elif kind == 2:
            d2[0:2] = struct.pack("<H", (struct.unpack("<H", d2[0:2])[0] + rng.choice([1, 2, 300])) & 0xFFFF)
        elif kind == 3:
            d2[0:2] = struct.pack("<H", max(struct.unpack("<H", d2[0:2])[0] - 1, 0))
        elif kind == 4:
            k = rng.randrange(len(c2))
            if c2[k]: c2[k][0] ^= 1                                   # flag of a fragment flipped
        elif kind == 5:
            k = rng.randrange(len(c2)); c2[k] = c2[k][:rng.randrange(0, len(c2[k]) + 1)]
        else:
            d2 = d2[:rng.randrange(0, len(d2) + 1)]                   # STRING body cut (below 3 bytes: parse_string)
        fid = cid + "M"
        path = os.path.join(tmp, fid + ".xls")
        wb = fstr_file(path, [(0, 0, bytes(d2), [bytes(x) for x in c2])])
        il.append("%s\tc12_open\t%s" % (fid, path)); ml.append("%s\tc12_open\t%s" % (fid, wb.hex()))
    impl, model = ctx.run_impl(il), ctx.run_model(ml)
    for l in il:
        fid = l.split("\t", 1)[0]
        ctx.traces += 1
        ctx.count("fstr:malformed:%s" % (impl.get(fid) or "none").split(":", 1)[0])
        if impl.get(fid) != model.get(fid):
            ctx.disagreements.append({"function": "String arm(malformed STRING/CONTINUE run)", "case": l,
                                      "impl": impl.get(fid), "model": model.get(fid)})
        else:
            drop_file(l.split("\t")[2])

# ---------------------------------------------------------------- corpus
CORPUS_RAW = [
    # (SST body, CONTINUE bodies, what the real code must answer)
    ("0100000001000000020001fffe6100", "-", "ok:1:efbbbf61"),          # U+FEFF first (fixed by 98c2838)
    ("0100000001000000020001feff6100", "-", "ok:1:efbfbe61"),          # U+FFFE first
    ("0100000001000000040001efbbbf00e4b8ad00", "-", "ok:1:ebafafc2bfeba3a4c2ad"),   # EF BB BF first
    ("01000000010000000200013dd8", "0100de", "ok:1:f09f9880"),         # F24 witness, raw form (repaired: one decoder per string)
    ("010000000100000004000161003dd8", "0100de6200", "ok:1:61f09f988062"),   # F24 witness of the notes
    ("010000000100000003000161003dd8", "006200", "ok:1:61efbfbd62"),   # dangling lead surrogate, then an 8-bit segment
    ("01000000010000000200013dd8", "01,0100de", "ok:1:f09f9880"),      # a flag-only CONTINUE between the halves of a pair
    ("01000000ffffffff", "-", "err"),                                  # negative count (was: unwrap panic)
    ("01000000ffffff7f", "-", "err"),                                  # count 2^31-1 (was: with_capacity(2^31-1))
    ("0100000001000000020001", "", "err"),                             # empty CONTINUE where the flag byte is read (was: index panic)
    ("0100000001000000020009", "", "err"),                             # fRichSt with no byte left for cRun (was: slice panic)
    ("010000000100000002000500", "", "err"),                           # fExtSt with 1 byte left for cbExtRst (was: slice panic)
    ("01000000", "-", "err"),
    ("0100000002000000010000", "-", "err"),                            # count larger than the strings present
]

def run_corpus(ctx):
    lines = [sst_line("k%d" % i, c[0], c[1]) for i, c in enumerate(CORPUS_RAW)]
    impl, model = ctx.run_both(lines)
    for i, c in enumerate(CORPUS_RAW):
        cid = "k%d" % i
        ctx.traces += 1
        if impl.get(cid) != model.get(cid):
            ctx.disagreements.append({"function": "parse_sst(corpus)", "case": lines[i],
                                      "impl": impl.get(cid), "model": model.get(cid)})
        elif impl.get(cid) != c[2]:
            ctx.violations.append({"case": lines[i], "expected": c[2], "actual": impl.get(cid),
                                   "model": model.get(cid), "what": "corpus witness no longer reads back"})
        ctx.nontrivial(lines[i])
    # LABEL / STRING holding the empty XLUnicodeString (fixed by 1abac51) must read as ""
    cl = ["ke0\tc12_cell\tstring\t000000\t-", "ke1\tc12_cell\tlabel\t030007000f00000000\t-",
          "ke2\tc12_cell\tlabel\t030007000f00000001\t-"]
    want = {"ke0": "ok:", "ke1": "ok:3:7:", "ke2": "ok:3:7:"}
    impl, model = ctx.run_both(cl)
    for l in cl:
        cid = l.split("\t", 1)[0]
        ctx.traces += 1
        if impl.get(cid) != model.get(cid):
            ctx.disagreements.append({"function": "parse_string(corpus)", "case": l,
                                      "impl": impl.get(cid), "model": model.get(cid)})
        elif impl.get(cid) != want[cid]:
            ctx.violations.append({"case": l, "expected": want[cid], "actual": impl.get(cid),
                                   "model": model.get(cid), "what": "empty XLUnicodeString no longer reads as the empty text"})
    # the Coq witness of the former class CutInsidePair as a structured case
    wit = ([[0x61, 0xD83D, 0xDE00, 0x62]], [(0, 1, [(2, 1)], None, None, [])], ["astral"], 1)
    run_sst_cases(ctx, [wit], "w", mutate=False)

# ---------------------------------------------------------------- audit-2 finding XLS-1: CodePage record of a BIFF8 workbook
def xls1_workbook(cp):
    """a small BIFF8 workbook whose every string kind is present in both packings: sheet names
    'Tab€' (16-bit) and 'café' (8-bit), shared strings 'Titel', '€uro', 'café', U+1F600, a LABEL, a
    formula string — with the CodePage record cp (None: no record)"""
    units = lambda t: [u for ch in t for u in ([ord(ch)] if ord(ch) < 0x10000 else
                                              [0xD800 + ((ord(ch) - 0x10000) >> 10), 0xDC00 + ((ord(ch) - 0x10000) & 0x3FF)])]
    strs = ["Titel", "\u20acuro", "caf\u00e9", "\U0001F600"]
    sst = struct.pack("<II", len(strs), len(strs))
    for t in strs:
        u = units(t)
        hb = 0 if all(x < 256 for x in u) else 1
        sst += struct.pack("<HB", len(u), hb) + biffgen.seg(hb, u)
    sh1 = [("sst", 0, i, i) for i in range(4)] + [("label", 1, 0, 0, units("abc")), ("label", 1, 1, 1, units("\u00c5r")),
                                                  ("fstring", 2, 0, 0, units("xyz")), ("fstring", 2, 1, 1, units("\u65e5\u672c"))]
    sh2 = [("sst", 0, 0, 2)]
    wb = biffgen.workbook_stream(sst, [], [(1, units("Tab\u20ac"), sh1), (0, units("caf\u00e9"), sh2)], codepage=cp)
    h = lambda t: t.encode("utf-8").hex()
    want = "ok:%s=%s|%s=%s" % (
        h("Tab\u20ac"), ",".join(["0:%d:%s" % (i, h(t)) for i, t in enumerate(strs)]
                                 + ["1:0:" + h("abc"), "1:1:" + h("\u00c5r"), "2:0:" + h("xyz"), "2:1:" + h("\u65e5\u672c")]),
        h("caf\u00e9"), "0:0:" + h("caf\u00e9"))
    return wb, want

# tests/sheet_name_parsing.xls of the repository: BIFF8 written by JExcelApi, CodePage 1252; the
# pinned test only looks at the sheet name (which survived through the NUL stripping)
XLS1_FIXTURE = ("sheet_name_parsing.xls",
                "ok:" + "Sheet1".encode().hex() + "=" + ",".join(
                    "0:%d:%s" % (i, t.encode("utf-8").hex()) for i, t in enumerate(
                        ["Titel", "Orginaltitel", "\u00c5r", "Regiss\u00f6r", "Ditt betyg", "Datum", "IMDB#"])))

def run_xls1_witnesses(ctx):
    """corpus witnesses of the former defect: run on every quick run, must satisfy the spec"""
    tmp = os.path.join(vlib.CACHE, "tmp", "c12-%d" % os.getpid())
    os.makedirs(tmp, exist_ok=True)
    il, ml, want = [], [], {}
    for cp in (1252, 932, 65001, 437, 54321, 1200, None):
        cid = "kcp%s" % ("none" if cp is None else cp)
        wb, w = xls1_workbook(cp)
        path = os.path.join(tmp, cid + ".xls")
        open(path, "wb").write(biffgen.xls_file(wb))
        il.append("%s\tc12_open\t%s" % (cid, path)); ml.append("%s\tc12_open\t%s" % (cid, wb.hex())); want[cid] = w
    fx = os.path.join(vlib.FIXTURE_DIR, XLS1_FIXTURE[0])
    if os.path.exists(fx):
        import pwgen
        st = pwgen.cfb_stream(open(fx, "rb").read(), "Workbook")
        il.append("kcpfx\tc12_open\t%s" % fx); ml.append("kcpfx\tc12_open\t%s" % st.hex()); want["kcpfx"] = XLS1_FIXTURE[1]
    else:
        ctx.notes.append("fixture %s not found: the XLS-1 corpus witness on the repository's own file was not run" % fx)
    impl, model = ctx.run_impl(il), ctx.run_model(ml)
    for l in il:
        cid = l.split("\t", 1)[0]
        ctx.traces += 1
        ctx.count("corpus:xls1-codepage")
        ctx.nontrivial(l)
        if impl.get(cid) != model.get(cid):
            ctx.disagreements.append({"function": "Xls::new(BIFF8, CodePage record)", "case": l,
                                      "impl": impl.get(cid), "model": model.get(cid)})
        if impl.get(cid) != want[cid]:
            ctx.violations.append({"case": l, "expected": want[cid], "actual": impl.get(cid), "model": model.get(cid),
                                   "what": "BIFF8 workbook whose CodePage record is not 1200 (audit-2 XLS-1): strings must read as stored"})

# ---------------------------------------------------------------- BIFF5 / BIFF7 byte strings (audit-2 finding XLS-6b)
# Outside C12's model and theorems (a BIFF5 BOF answers 'unmodelled'; the statement's packings — 8-bit
# compressed / 16-bit — are BIFF8's): witnesses only, real reader against the text the writer stored.
# A BIFF5 string has no flag byte: cch bytes of the workbook's code page, one OR TWO per character.
BIFF5_TEXTS = [
    (1252, "cp1252", ["abc", "caf\u00e9 \u20ac", "Regiss\u00f6r"]),
    (1251, "cp1251", ["abc", "\u041f\u0440\u0438\u0432\u0435\u0442"]),
    (10000, "mac_roman", ["abc", "caf\u00e9"]),
    (932, "cp932", ["abc", "\u3042", "\u65e5\u672c\u8a9e abc \uff71"]),          # Shift-JIS: hiragana, kanji, half-width katakana
    (936, "gbk", ["abc", "\u4e2d\u6587 x"]),
    (949, "cp949", ["abc", "\ud55c\uae00"]),
    (950, "big5", ["abc", "\u4e2d\u6587"]),
    (None, "latin-1", ["abc", "caf\u00e9 \u00ff"]),     # no CodePage record: the bytes read as Latin-1
]

def biff5_workbook(cp, codec, texts):
    """Book stream of a BIFF5 workbook: sheet name = texts[-1], LABEL cells of every text in column 0,
    FORMULA + STRING cells in column 1"""
    rec = biffgen.rec
    bof = lambda dt: rec(0x0809, struct.pack("<HHHH", 0x0500, dt, 0x0DBB, 0x07CC))
    name = texts[-1].encode(codec)
    body = rec(0x0200, struct.pack("<HHHHH", 0, len(texts), 0, 2, 0))
    for i, t in enumerate(texts):
        b = t.encode(codec)
        body += rec(0x0204, struct.pack("<HHHH", i, 0, 0, len(b)) + b)
        body += rec(0x0006, struct.pack("<HHH", i, 1, 0) + biffgen.FORMULA_STRING_STUB) + rec(0x0207, struct.pack("<H", len(b)) + b)
    sub = bof(0x0010) + body + biffgen.EOF
    pre = bof(0x0005) + (rec(0x0042, struct.pack("<H", cp)) if cp is not None else b"") + rec(0x00E0, bytes(16))
    bs = lambda pos: rec(0x0085, struct.pack("<IBB", pos, 0, 0) + bytes([len(name)]) + name)
    glob = pre + bs(len(pre) + len(bs(0)) + len(biffgen.EOF)) + biffgen.EOF
    h = lambda t: t.encode("utf-8").hex()
    want = "ok:%s=%s" % (h(texts[-1]), ",".join("%d:0:%s,%d:1:%s" % (i, h(t), i, h(t)) for i, t in enumerate(texts)))
    return glob + sub, want

def run_biff5_witnesses(ctx):
    tmp = os.path.join(vlib.CACHE, "tmp", "c12-%d" % os.getpid())
    os.makedirs(tmp, exist_ok=True)
    il, ml, want = [], [], {}
    for cp, codec, texts in BIFF5_TEXTS:
        cid = "kb5_%s" % cp
        st, w = biff5_workbook(cp, codec, texts)
        path = os.path.join(tmp, cid + ".xls")
        open(path, "wb").write(biffgen.cfb_write([("Book", st)]))
        il.append("%s\tc12_open\t%s" % (cid, path)); ml.append("%s\tc12_open\t%s" % (cid, st.hex())); want[cid] = w
    impl, model = ctx.run_impl(il), ctx.run_model(ml)
    for l in il:
        cid = l.split("\t", 1)[0]
        ctx.traces += 1
        ctx.count("corpus:biff5-byte-strings(model: %s)" % model.get(cid))
        if impl.get(cid) != want[cid]:
            ctx.violations.append({"case": l, "expected": want[cid], "actual": impl.get(cid), "model": model.get(cid),
                                   "what": "BIFF5 workbook: byte strings of the workbook's code page (audit-2 XLS-6b) must read as stored"})

UNMODELLED_GLOBALS = {0x0018: "Lbl"}
UNMODELLED_SHEET = {0x0203: "Number", 0x0205: "BoolErr", 0x027E: "RK", 0x00BD: "MulRk", 0x00E5: "MergeCells", 0x0006: "Formula"}

def why_unmodelled(st):
    """the record kinds of a Workbook stream that C12's reduced parse_workbook declines (the reason
    printed next to a fixture's name)"""
    i, first_eof, why = 0, False, []
    while i + 4 <= len(st):
        t, l = struct.unpack("<HH", st[i:i + 4])
        b = st[i + 4:i + 4 + l]; i += 4 + l
        if t == 0 and l == 0:
            break
        if t == 0x0809 and len(b) >= 2 and struct.unpack("<H", b[:2])[0] != 0x0600:
            why.append("BOF of BIFF version 0x%04x" % struct.unpack("<H", b[:2])[0])
        name = (UNMODELLED_SHEET if first_eof else UNMODELLED_GLOBALS).get(t)
        if name and name not in why:
            why.append(name)
        if t == 0x000A:
            first_eof = True
    return ", ".join(why[:4]) or "?"

def run_fixtures(ctx):
    """every .xls / .xla fixture of the repository through Xls::new + sheet_names + worksheet_range
    and through C12's model on its Workbook stream.  Corpus rule: a fixture on which the model
    answers 'unmodelled' is listed by name with the reason (vlib.fixture_report), not skipped."""
    import pwgen
    il, ml, names = [], [], {}
    for ext, path in vlib.fixtures({"xls", "xla"}):
        name = os.path.basename(path)
        cid = "fx_" + name.replace(".", "_").replace(" ", "_")
        try:
            data = open(path, "rb").read()
            st = pwgen.cfb_stream(data, "Workbook") or pwgen.cfb_stream(data, "Book")
        except Exception:
            st = None
        if st is None:
            vlib.fixture_report(ctx, name, "no-workbook-stream (damaged container: C13's domain)")
            continue
        il.append("%s\tc12_open\t%s" % (cid, path)); ml.append("%s\tc12_open\t%s" % (cid, st.hex()))
        names[cid] = (name, st)
    impl, model = ctx.run_impl(il), ctx.run_model(ml)
    for l in il:
        cid = l.split("\t", 1)[0]
        name, st = names[cid]
        i, m = impl.get(cid), model.get(cid)
        ctx.traces += 1
        if m == "unmodelled":
            vlib.fixture_report(ctx, name, "unmodelled", why_unmodelled(st))
        elif i == m:
            vlib.fixture_report(ctx, name, "agree", (i or "")[:3])
            ctx.nontrivial(l)
        else:
            vlib.fixture_report(ctx, name, "DISAGREE")
            ctx.disagreements.append({"function": "Xls::new(repository fixture)", "case": l, "impl": i, "model": m})

# ---------------------------------------------------------------- entry points
def run(ctx):
    rng = ctx.rng
    probe_nested(ctx)
    run_corpus(ctx)
    run_xls1_witnesses(ctx)
    run_biff5_witnesses(ctx)
    run_fixtures(ctx)
    run_sst_cases(ctx, boundary_tables(rng), "b", mutate=False)
    tabs = []
    for i in range(ctx.scale(4000, 80000)):
        s, l, k = gen_table(rng)
        tabs.append((s, l, k, rng.randrange(0, 2 ** 32)))
    for i in range(ctx.scale(4, 60)):
        s, l, k = gen_table(rng, big=True)
        tabs.append((s, l, k, 1))
    run_sst_cases(ctx, tabs, "t")
    run_cell_cases(ctx, ctx.scale(3000, 40000), "c")
    run_record_cases(ctx, ctx.scale(2000, 30000), "r")
    run_files(ctx, ctx.scale(200, 3000), "f")
    run_coq_workbooks(ctx, ctx.scale(200, 3000), "g")
    run_fstring_cases(ctx, fstr_cases(ctx), "h")

def search(ctx):
    rng = ctx.rng
    tabs = []
    for i in range(ctx.scale(12000, 100000)):
        s, l, k = gen_table(rng)
        tabs.append((s, l, k, 1))
    run_sst_cases(ctx, tabs, "s")
    run_cell_cases(ctx, ctx.scale(8000, 50000), "sc")
    run_files(ctx, ctx.scale(300, 2000), "sf")
    run_fstring_cases(ctx, fstr_cases(ctx), "sh")

def replay(ctx, rep):
    case = rep.get("case")
    print("replaying:", case)
    parts = case.split(" (model input", 1)[0].split("\t")
    cid, cmd = parts[0], parts[1]
    if cmd == "c12_sstenc":
        enc = ctx.run_model([case]).get(cid, "")
        f = enc.split("|")
        print("model side:", "|".join(f[:4]))
        impl = ctx.run_impl([sst_line(cid, f[4], f[5])]).get(cid)
    elif cmd == "c12_wbenc":
        enc = ctx.run_model([case]).get(cid, "")
        f = enc.split("#")
        print("model side:", "#".join(f[:4])[:2000])
        tmp = os.path.join(vlib.CACHE, "tmp", "c12-%d" % os.getpid()); os.makedirs(tmp, exist_ok=True)
        path = os.path.join(tmp, "replay.xls")
        open(path, "wb").write(biffgen.xls_file(bytes.fromhex(f[4])))
        impl = ctx.run_impl(["%s\tc12_open\t%s" % (cid, path)]).get(cid)
    elif cmd == "c12_fstrenc":
        line = "\t".join(parts[:6])
        enc = ctx.run_model([line]).get(cid, "")
        f = enc.split("|")
        print("model side:", "|".join(f[:4])[:2000])
        tmp = os.path.join(vlib.CACHE, "tmp", "c12-%d" % os.getpid()); os.makedirs(tmp, exist_ok=True)
        path = os.path.join(tmp, "replay.xls")
        fstr_file(path, [(0, 0, bytes.fromhex(f[4]), [] if f[5] == "-" else [bytes.fromhex(x) for x in f[5].split(",")])])
        d = parse_open(ctx.run_impl(["%s\tc12_open\t%s" % (cid, path)]).get(cid))
        impl = ("ok:" + d.get((0, 0), "<no cell>")) if d is not None else "err"
    elif cmd == "c12_cellenc":
        enc = ctx.run_model([case]).get(cid, "")
        f = enc.split("|")
        print("model side:", "|".join(f[:4]))
        table = parts[6] if parts[2] == "labelsst" else "-"
        impl = ctx.run_impl(["%s\tc12_cell\t%s\t%s\t%s" % (cid, parts[2], f[4], table)]).get(cid)
    else:
        impl = ctx.run_impl(["\t".join(parts)]).get(cid)
        if cmd != "c12_open":
            print("model:", ctx.run_model(["\t".join(parts)]).get(cid))
    print("impl :", impl)
    print("expected:", rep.get("expected"))
    return 0 if impl == rep.get("expected") else 1
