(* XlsbFile_proofs.v — composition of C16 (workbook.bin + relationships) and C03 (shared strings +
   sheet parts) for an xlsb package; see XlsbFile.v for what stays outside. *)
From Calamine Require Import Prelude Range RK.
From Calamine Require Import BiffSst Meta Meta_proofs MetaXlsb_proofs MetaXlsNames_proofs.
From Calamine Require XlsbRec XlsbRec_proofs HeaderRow.
From Calamine Require Import XlsbFile.
Open Scope N_scope.

Lemma find_by_name : forall (l : list (str * str)) e, NoDup (map fst l) -> In e l ->
  find (fun x : str * str => str_eqb (fst x) (fst e)) l = Some e.
Proof.
  induction l as [|x l IH]; intros e Hnd Hin; [contradiction|].
  cbn [map] in Hnd. inversion Hnd as [|? ? Hnot Hnd']; subst. cbn [find].
  destruct Hin as [->|Hin].
  - rewrite str_eqb_refl. reflexivity.
  - destruct (str_eqb (fst x) (fst e)) eqn:E.
    + apply str_eqb_eq in E. exfalso. apply Hnot. rewrite E. apply in_map. exact Hin.
    + apply IH; assumption.
Qed.

Section Whole.
Variable fdiv100 : N -> N.
Variable show_f64 : N -> list N.

Lemma parts_loop : forall formats is1904 total items trailer (pk : amap (list N)) (whole : list (str * str))
                          (l : list (str * str)) (cl : list (XlsbRec.layout * list XlsbRec.cellr)),
  total < 4294967296 -> XlsbRec.lenN items < 4294967296 -> forallb XlsbRec.wf_sst_item items = true ->
  NoDup (map fst whole) -> (forall e, In e l -> In e whole) ->
  Forall2 (fun (np : str * str) (x : XlsbRec.layout * list XlsbRec.cellr) =>
             map_get (snd np) pk = Some (XlsbRec.encode_sheet (fst x)) /\
             XlsbRec.legal fdiv100 (XlsbRec.mkEnv formats is1904 (XlsbRec.sst_strings items)) (fst x) (snd x))
          l cl ->
  map_o (fun np : str * str =>
      match find (fun e : str * str => str_eqb (fst e) (fst np)) whole with
      | None => Err E_NOTFOUND
      | Some e =>
        match map_get (snd e) pk with
        | None => Err E_NOTFOUND
        | Some part =>
          do r <- XlsbRec.workbook_range_ref fdiv100 formats is1904
                    (Some (XlsbRec.encode_sst total items trailer)) HeaderRow.FirstNonEmptyRow part;
          Ok (fst np, r)
        end
      end) l
  = Ok (map (fun x : (str * str) * (XlsbRec.layout * list XlsbRec.cellr) =>
               (fst (fst x), XlsbRec.range_of (XlsbRec.RVal DEmpty) (snd (snd x)))) (combine l cl)).
Proof.
  intros formats is1904 total items trailer pk whole l cl Ht Hn Hwf Hnd Hsub H.
  induction H as [|np x l cl [Hget Hleg] _ IH]; [reflexivity|].
  cbn [map_o combine map]. rewrite (find_by_name whole np Hnd (Hsub np (or_introl eq_refl))).
  rewrite Hget. rewrite (@XlsbRec_proofs.xlsb_workbook_main fdiv100 formats is1904 total items trailer _ _ Ht Hn Hwf Hleg). cbn [obind].
  rewrite IH by (intros e He; apply Hsub; right; exact He). reflexivity.
Qed.

Theorem xlsb_package_main : forall formats c wb rjunk total items trailer (pk : amap (list N))
                                   (cl : list (XlsbRec.layout * list XlsbRec.cellr)),
  xlsb_legal c wb = true -> forallb junk_ok_brels rjunk = true ->
  total < 4294967296 -> XlsbRec.lenN items < 4294967296 -> forallb XlsbRec.wf_sst_item items = true ->
  NoDup (map fst (xlsb_paths c wb)) ->
  Forall2 (fun (np : str * str) (x : XlsbRec.layout * list XlsbRec.cellr) =>
             map_get (snd np) pk = Some (XlsbRec.encode_sheet (fst x)) /\
             XlsbRec.legal fdiv100 (XlsbRec.mkEnv formats (wb_1904 wb) (XlsbRec.sst_strings items)) (fst x) (snd x))
          (xlsb_paths c wb) cl ->
  xlsb_package_model fdiv100 show_f64 formats (xlsb_rels_events rjunk (bc_rels c)) (xlsb_workbook_bin c wb)
                     (Some (XlsbRec.encode_sst total items trailer)) pk =
  Ok (mkXbRes (wb_sheets wb) 
        (spec_names_xlsb show_f64 (spec_ext (map m_name (wb_sheets wb)) (bc_xtis c)) (wb_names wb))
        (wb_1904 wb)
        (map (fun x : (str * str) * (XlsbRec.layout * list XlsbRec.cellr) =>
                (fst (fst x), XlsbRec.range_of (XlsbRec.RVal DEmpty) (snd (snd x))))
             (combine (xlsb_paths c wb) cl))).
Proof.
  intros formats c wb rjunk total items trailer pk cl Hl Hj Ht Hn Hwf Hnd H.
  unfold xlsb_package_model. rewrite (xlsb_open_encode show_f64 c wb rjunk Hl Hj). cbn [obind p_paths p_1904].
  rewrite (parts_loop formats (wb_1904 wb) total items trailer pk (xlsb_paths c wb) (xlsb_paths c wb) cl
             Ht Hn Hwf Hnd (fun e He => He) H).
  reflexivity.
Qed.
End Whole.

(* non-vacuity: the three-sheet workbook of C16's example, every sheet part the all-kinds layout of
   C03's example, read in the 1904 date system of workbook.bin *)
Definition ex_items : list (XlsbRec.frm * list N * list N) :=
  [(XlsbRec_proofs.fr1, [97; 98], []); (XlsbRec_proofs.fr2, [99], [1; 2])].
Definition ex_pk : amap (list N) :=
  map (fun np : str * str => (snd np, XlsbRec.encode_sheet XlsbRec_proofs.example_layout))
      (xlsb_paths ex_xlsb_c ex_xlsb_wb).
Definition ex_cl (fdiv100 : N -> N) : list (XlsbRec.layout * list XlsbRec.cellr) :=
  repeat (XlsbRec_proofs.example_layout,
          XlsbRec.logical fdiv100 (XlsbRec.mkEnv [FOther; FDateTime; FTimeDelta] true (XlsbRec.sst_strings ex_items))
                          XlsbRec_proofs.example_layout) 3.

Lemma example_xlsb_package : forall fdiv100,
  xlsb_legal ex_xlsb_c ex_xlsb_wb = true /\
  forallb XlsbRec.wf_sst_item ex_items = true /\
  NoDup (map fst (xlsb_paths ex_xlsb_c ex_xlsb_wb)) /\
  Forall2 (fun (np : str * str) (x : XlsbRec.layout * list XlsbRec.cellr) =>
             map_get (snd np) ex_pk = Some (XlsbRec.encode_sheet (fst x)) /\
             XlsbRec.legal fdiv100 (XlsbRec.mkEnv [FOther; FDateTime; FTimeDelta] (wb_1904 ex_xlsb_wb)
                                                  (XlsbRec.sst_strings ex_items)) (fst x) (snd x))
          (xlsb_paths ex_xlsb_c ex_xlsb_wb) (ex_cl fdiv100).
Proof.
  intros fdiv100. split; [vm_compute; reflexivity|]. split; [vm_compute; reflexivity|]. split.
  - vm_compute. repeat constructor; cbn; intuition discriminate.
  - unfold ex_cl. cbn [repeat].
    change (xlsb_paths ex_xlsb_c ex_xlsb_wb) with
      [([97; 233], s_xl_slash ++ d_worksheets ++ SLASH :: [49]);
       ([128512; 20013], s_xl_slash ++ [115; 46; 98; 105; 110]);
       ([98], s_xl_slash ++ [100; 47; 99])].
    repeat constructor; cbn [fst snd]; try (vm_compute; reflexivity).
Qed.
