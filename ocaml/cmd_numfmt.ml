(* C10: the model side of the number-format correspondence.  First argument = sub-command.
     detect <hex utf8>                      -> 0|1|2        (Other|DateTime|TimeDelta)
     byid <hex bytes>                       -> code
     bycode <n>                             -> code|code of by_id(decimal n)
     ecma <lo> <hi>                         -> codes of ecma_builtin lo..hi-1, concatenated (model only)
     wrapf <bits> <fmt 0|1|2|-> <1904>      -> canonical data
     wrapi <i64> <fmt> <1904>               -> canonical data
     sweep <alphabet hex> <len> <prefix hex>-> n0,n1,n2,fnv64 over all strings prefix+w, |w| = len
     ast <wire>                             -> hex|classify|wf|detect            (model only)
                                               tokens: … W<long>:<ups> aaa/aaaa, R<n>:<ups> g.., Y<long>:<ups> e/ee,
                                               B<long>:<ups> bb/bbbb
     xlsxm <numfmts> <cellxfs> <1904> <cells>   raw style table through the xlsx model
     xlsxs <customs> <xfs> <1904> <cells>       logical table: encoder + model + spec
     biffs <xls|xlsb> <customs> <xfs> <1904> <cells>
   Same canonical output as harness/src/cmds/numfmt.rs. *)
open Conv
open NumFmt

let code = function Other -> "0" | DateTime -> "1" | TimeDelta -> "2"
let fmt_of_string = function
  | "0" -> Some Other | "1" -> Some DateTime | "2" -> Some TimeDelta | _ -> None
let b01 s = (s = "1")
let show_data = function
  | DInt z -> "I" ^ string_of_z z
  | DFloat b -> "F" ^ string_of_n b
  | DDateTime (b, dur, d1904) ->
    Printf.sprintf "D%s:%d:%d" (string_of_n b) (if dur then 1 else 0) (if d1904 then 1 else 0)

(* ---------- AST wire format: sections separated by ';', tokens by ' ' ---------- *)
let ups_of s = List.init (String.length s) (fun i -> s.[i] = '1')
let fields s = String.split_on_char ':' s
let rest s = String.sub s 1 (String.length s - 1)
let dl = function "d" -> LD | "m" -> LM | "h" -> LH | "y" -> LY | _ -> LS
let el = function "h" -> EH | "m" -> EM | _ -> ES
let colour_of s =
  if String.length s > 0 && s.[0] = 'i' then CIndexed (n_of_string (rest s))
  else match s with
    | "0" -> CBlack | "1" -> CBlue | "2" -> CCyan | "3" -> CGreen | "4" -> CMagenta
    | "5" -> CRed | "6" -> CWhite | _ -> CYellow
let cmp_of = function
  | "0" -> OpLt | "1" -> OpLe | "2" -> OpGt | "3" -> OpGe | "4" -> OpEq | _ -> OpNe
let fld l i = match List.nth_opt l i with Some x -> x | None -> ""

let token_of (s : string) : token =
  let r = rest s in
  let f = fields r in
  match s.[0] with
  | 'D' -> TDigit (match r with "0" -> PZero | "1" -> PHash | _ -> PQuest)
  | 'L' -> TLit (n_of_string r)
  | 'G' -> TGeneral (ups_of r)
  | 'X' -> TExp (ups_of (fld f 0), b01 (fld f 1))
  | '@' -> TAt
  | 'E' -> TEsc (n_of_string r)
  | 'P' -> TPad (n_of_string r)
  | 'F' -> TFill (n_of_string r)
  | 'Q' -> TQuoted (scalars_of_hex r)
  | 'C' -> TColour (colour_of (fld f 0), ups_of (fld f 1))
  | 'N' -> TCond (cmp_of (fld f 0), scalars_of_hex (fld f 1))
  | 'O' -> TLocale (scalars_of_hex (fld f 0), scalars_of_hex (fld f 1))
  | 'T' -> TDate (dl (fld f 0), nat_of_int (int_of_string (fld f 1)), ups_of (fld f 2))
  | 'A' -> TAmPm (ups_of r)
  | 'a' -> TAP (ups_of r)
  | 'S' -> TSecFrac (nat_of_int (int_of_string r))
  | 'H' -> TElapsed (el (fld f 0), nat_of_int (int_of_string (fld f 1)), ups_of (fld f 2))
  | 'W' -> TWeekday (b01 (fld f 0), ups_of (fld f 1))                          (* aaa / aaaa *)
  | 'R' -> TEra (nat_of_int (int_of_string (fld f 0)), ups_of (fld f 1))       (* g gg ggg *)
  | 'Y' -> TEraYear (b01 (fld f 0), ups_of (fld f 1))                          (* e / ee *)
  | 'B' -> TBuddhist (b01 (fld f 0), ups_of (fld f 1))                         (* bb / bbbb *)
  | _ -> failwith "bad token"

let ast_of (s : string) : ast =
  if s = "" then [] else
  List.map (fun sec -> List.map token_of (List.filter (fun t -> t <> "") (String.split_on_char ' ' sec)))
    (String.split_on_char ';' s)

(* ---------- exhaustive sweep with a running FNV-1a hash ---------- *)
let sweep alphabet len prefix =
  let counts = [| 0; 0; 0 |] in
  let h = ref 0xcbf29ce484222325L in
  let emit f =
    let k = match f with Other -> 0 | DateTime -> 1 | TimeDelta -> 2 in
    counts.(k) <- counts.(k) + 1;
    h := Int64.mul (Int64.logxor !h (Int64.of_int k)) 0x100000001b3L in
  (* number of strings of exactly n more characters *)
  let rec pow b n = if n = 0 then 1 else b * pow b (n - 1) in
  let na = List.length alphabet in
  (* the scanner looks ahead only to recognise the keyword General: when the alphabet cannot spell
     "eneral" the look-ahead is always negative and the sweep can extend the state one character
     at a time; otherwise every string is scanned from the start *)
  let lower c = let i = int_of_n c in if i >= 65 && i <= 90 then i + 32 else i in
  let can_general = List.for_all (fun ch -> List.exists (fun c -> lower c = Char.code ch) (alphabet @ prefix))
      ['e'; 'n'; 'r'; 'a'; 'l'] in
  if can_general then begin
    let rec all acc n =
      if n = 0 then emit (detect (prefix @ List.rev acc))
      else List.iter (fun c -> all (c :: acc) (n - 1)) alphabet in
    all [] len
  end else begin
    let rec go (r : step_result) n =
      match r with
      | Return f -> for _ = 1 to pow na n do emit f done
      | Continue q ->
        if n = 0 then emit Other
        else List.iter (fun c -> go (step q c []) (n - 1)) alphabet in
    go (run init prefix) len
  end;
  Printf.sprintf "%d,%d,%d,%Lx" counts.(0) counts.(1) counts.(2) !h

(* ---------- style tables ---------- *)
let opt_list s f = if s = "" || s = "." then [] else List.map f (String.split_on_char ',' s)
let pair_of s = match fields s with [a; b] -> (a, b) | [a] -> (a, "") | _ -> failwith "bad pair"
let raw_numfmts s = opt_list s (fun e -> let (a, b) = pair_of e in (bytes_of_hex a, scalars_of_hex b))
let raw_xfs s = opt_list s (fun e -> if e = "-" then None else Some (bytes_of_hex (rest e)))
let customs_of s = opt_list s (fun e -> let (a, b) = pair_of e in (n_of_string a, scalars_of_hex b))
let xfs_of s = opt_list s (fun e -> if e = "-" then None else Some (n_of_string e))
let show_raw_numfmts l =
  if l = [] then "." else
  String.concat "," (List.map (fun (i, f) -> hex_of_bytes i ^ ":" ^ hex_of_scalars f) l)
let show_raw_xfs l =
  if l = [] then "." else
  String.concat "," (List.map (function None -> "-" | Some i -> "x" ^ hex_of_bytes i) l)
(* xlsx cells: "<s or ->:<bits>" *)
let xlsx_cells s = opt_list s (fun e -> let (a, b) = pair_of e in
                                ((if a = "-" then None else Some (n_of_string a)), n_of_string b))
(* biff cells: "<ixfe>:F<bits>" | "<ixfe>:I<z>" | "<ixfe>:U<bits>" (xls formula) *)
type bcell = BNum of num | BFormula of BinNums.coq_N
let biff_cells s = opt_list s (fun e ->
    let (a, b) = pair_of e in
    let v = match b.[0] with
      | 'F' -> BNum (NF (n_of_string (rest b)))
      | 'I' -> BNum (NI (z_of_string (rest b)))
      | _ -> BFormula (n_of_string (rest b)) in
    (n_of_string a, v))

let nth_fmt l i = List.nth_opt l (int_of_n i)

let run_cmd (args : string list) : string =
  match args with
  | ["detect"; h] -> code (detect (scalars_of_hex h))
  | ["detect"] -> code (detect [])
  | ["byid"; h] -> code (builtin_format_by_id (bytes_of_hex h))
  | ["byid"] -> code (builtin_format_by_id [])
  | ["bycode"; n] ->
    let c = n_of_string n in
    code (builtin_format_by_code c) ^ "|" ^ code (builtin_format_by_id (decimal c))
  | ["ecma"; lo; hi] ->
    let lo = int_of_string lo and hi = int_of_string hi in
    String.concat "" (List.init (hi - lo) (fun i -> code (ecma_builtin (n_of_int (lo + i)))))
  | ["wrapf"; bits; f; d] -> show_data (format_excel_f64_ref (n_of_string bits) (fmt_of_string f) (b01 d))
  | ["wrapi"; v; f; d] -> show_data (format_excel_i64 (z_of_string v) (fmt_of_string f) (b01 d))
  | "sweep" :: alpha :: len :: tl ->
    let prefix = match tl with [p] -> scalars_of_hex p | _ -> [] in
    sweep (scalars_of_hex alpha) (int_of_string len) prefix
  | "ast" :: tl ->
    let a = ast_of (match tl with [w] -> w | _ -> "") in
    let r = render a in
    String.concat "|" [hex_of_scalars r; code (classify a);
                       (if wf a then "1" else "0"); code (detect r)]
  | ["xlsxm"; nf; xf; d; cells] ->
    let formats = xlsx_read_styles { xs_numfmts = raw_numfmts nf; xs_cellxfs = raw_xfs xf } in
    String.concat "," (List.map (fun (s, bits) -> show_data (xlsx_cell_number formats (b01 d) s bits))
                         (xlsx_cells cells))
  | ["xlsxs"; cu; xf; d; cells] ->
    let t = { customs = customs_of cu; xfs = xfs_of xf } in
    let enc = enc_xlsx t in
    let formats = xlsx_read_styles enc in
    let spec = spec_formats t in
    let cs = xlsx_cells cells in
    let m = List.map (fun (s, bits) -> show_data (xlsx_cell_number formats (b01 d) s bits)) cs in
    let sp = List.map (fun (s, bits) ->
        let i = match s with Some i -> i | None -> BinNums.N0 in
        match nth_fmt spec i with
        | Some k -> show_data (spec_cell k (b01 d) (NF bits))
        | None -> "?") cs in   (* style index out of range: nothing specified *)
    String.concat "|" [show_raw_numfmts enc.xs_numfmts; show_raw_xfs enc.xs_cellxfs;
                       String.concat "," m; String.concat "," sp]
  | ["biffs"; kind; cu; xf; d; cells] ->
    let t = { customs = customs_of cu; xfs = xfs_of xf } in
    let enc = enc_biff t in
    let formats = if kind = "xlsb" then xlsb_formats enc else xls_formats enc in
    let spec = spec_formats t in
    let cs = biff_cells cells in
    let m = List.map (fun (i, v) -> show_data (match v with
        | BNum n -> if kind = "xlsb" then xlsb_cell_number formats (b01 d) i n
          else xls_cell_number formats (b01 d) i n
        | BFormula bits -> xls_formula_number formats (b01 d) i bits)) cs in
    let sp = List.map (fun (i, v) ->
        match nth_fmt spec i with
        | Some k -> show_data (spec_cell k (b01 d) (match v with BNum n -> n | BFormula b -> NF b))
        | None -> "?") cs in
    String.concat "|" [String.concat "," (List.map code formats);
                       String.concat "," m; String.concat "," sp]
  | _ -> "bad-args"

let () = Registry.register "numfmt" run_cmd
let init () = ()
