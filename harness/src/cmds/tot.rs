// C06: the real, hardened functions whose copies Totality.v models.
//   tot decompress <hex>                                   cfb::decompress_stream
//   tot rc <hex>                                           xlsx get_row_and_optional_column
//   tot chain <hex body> <sector size> <fats csv> <start> <len>   cfb Sectors::get_chain (needs
//       the get_chain hook of branch c06-hardening; "no-hook" when the tree does not have it)
// Answers: ok:<payload> | err  (a panic is caught by main and answered "panic").
use crate::util::{hex, unhex};

pub fn run(args: &[&str]) -> String {
    match args {
        ["decompress", rest @ ..] => {
            let s = unhex(rest.first().copied().unwrap_or(""));
            match calamine::verif_hooks::cfb::decompress_stream(&s) {
                Ok(v) => format!("ok:{}", hex(&v)),
                Err(_) => "err".to_string(),
            }
        }
        ["rc", rest @ ..] => {
            let s = unhex(rest.first().copied().unwrap_or(""));
            match calamine::verif_hooks::xlsx::get_row_and_optional_column(&s) {
                Ok((r, Some(c))) => format!("ok:{},{}", r, c),
                Ok((r, None)) => format!("ok:{},-", r),
                Err(_) => "err".to_string(),
            }
        }
        ["chain", body, size, fats, start, len] => chain(body, size, fats, start, len),
        _ => "bad-args".to_string(),
    }
}

#[cfg(has_get_chain_hook)]
fn chain(body: &str, size: &str, fats: &str, start: &str, len: &str) -> String {
    let body = if body == "-" { Vec::new() } else { unhex(body) };
    let fats: Vec<u32> = if fats == "-" {
        Vec::new()
    } else {
        fats.split(',').map(|x| x.parse::<u32>().unwrap()).collect()
    };
    match calamine::verif_hooks::cfb::get_chain(
        &body,
        size.parse().unwrap(),
        &fats,
        start.parse().unwrap(),
        len.parse().unwrap(),
    ) {
        Ok(v) => format!("ok:{}", hex(&v)),
        Err(_) => "err".to_string(),
    }
}

#[cfg(not(has_get_chain_hook))]
fn chain(_: &str, _: &str, _: &str, _: &str, _: &str) -> String {
    "no-hook".to_string()
}
