"""metagen — generators and container writers for the C16 check (workbook metadata).

A logical workbook (ordered sheets: name / visibility / kind; ordered defined names; date-system
flag) plus per-format encoding choices is drawn here and written in the wire format of
ocaml/cmd_meta.ml.  The extracted Coq encoders turn it into the workbook part (XML event list or
bytes); this module serialises the events to XML (spelling of every character of an attribute
value / text drawn per character), adds the parts the metadata does not depend on (styles, one
part per sheet with numeric cells under a date style) and packs a real .xlsx / .xlsb / .xls /
.ods file.  Sheet parts are minimal but valid for calamine's readers."""
import io, struct, zipfile
from textgen import S, E, T, C, O, hx, wire, unwire, xml_char_ok, zip_bytes
from biffgen_c10 import cfb_write, brec, wide

NS_MAIN = "http://schemas.openxmlformats.org/spreadsheetml/2006/main"
NS_REL = "http://schemas.openxmlformats.org/officeDocument/2006/relationships"
NS_PKG = "http://schemas.openxmlformats.org/package/2006/relationships"
DECL = '<?xml version="1.0" encoding="UTF-8" standalone="yes"?>'
KIND_DIR = {"ws": "worksheets", "chart": "chartsheets", "dlg": "dialogsheets", "mac": "macrosheets"}
# the relationship Type that names the kind of a sheet part: [transitional / Microsoft, strict / intl]
NS_REL_STRICT = "http://purl.oclc.org/ooxml/officeDocument/relationships"
NS_REL_MS = "http://schemas.microsoft.com/office/2006/relationships"
KIND_TYPE = {"ws": [NS_REL + "/worksheet", NS_REL_STRICT + "/worksheet"],
             "chart": [NS_REL + "/chartsheet", NS_REL_STRICT + "/chartsheet"],
             "dlg": [NS_REL + "/dialogsheet", NS_REL_STRICT + "/dialogsheet"],
             "mac": [NS_REL_MS + "/xlMacrosheet", NS_REL_MS + "/xlIntlMacrosheet"]}
OTHER_TYPES = [NS_REL + "/styles", NS_REL + "/theme", NS_REL + "/sharedStrings", NS_REL_MS + "/vbaProject",
               "http://example.org/relationships/worksheet", NS_REL, ""]


def gen_part(rng, kind, idx, ext, allow_xl_prefix=False):
    """a part name relative to xl/ for the idx-th sheet: OPC part names are free, the folders
    worksheets/, chartsheets/ ... are only what Excel happens to write.  About half of the draws
    are non-conventional: other folder, no folder, nested folders, the folder of ANOTHER kind."""
    r = rng.random()
    if r < 0.45:
        return "%s/sheet%d.%s" % (KIND_DIR[kind], idx, ext)
    if r < 0.55:
        other = rng.choice([k for k in KIND_DIR if k != kind])
        return "%s/sheet%d.%s" % (KIND_DIR[other], idx, ext)
    if r < 0.65:
        return "ws/a%d.%s" % (idx, ext)
    if r < 0.75:
        return "sheet%d.%s" % (idx, ext)
    if r < 0.85:
        return "data/s%d.%s" % (idx, ext)
    if r < 0.90:
        return "a/b/c/%d.%s" % (idx, ext)
    if r < 0.95 and allow_xl_prefix:
        return "xl/p%d.%s" % (idx, ext)
    return rng.choice(["Tabelle%d.%s", "worksheets%d.%s", "w s/Sheet %d.%s", "x.y/%d.%s"]) % (idx, ext)

# ------------------------------------------------------------------ names
SPECIAL = ["&", "<", ">", '"', "'", "&amp;", "&#65;", "]]>", "<!--", "&lt;"]
BMP = ["\u00e9", "\u00fc", "\u4e2d", "\u6587", "\u03a9", "\u0416", "\u00a0", "\u3000", "\ufffd",
       "\ud7ff", "\ue000", "\u2028", "\u0301", "\u00ff", "\u0100", "\ufeff"]
ASTRAL = ["\U0001F600", "\U00010000", "\U0010FFFF", "\U0001D11E", "\U00020000"]
ASCII = "abcXYZ019 _-.,;()!$#%+=~@^{}|"


def gen_name(rng, maxlen=31, latin1=False):
    """up to maxlen Unicode scalar values: ASCII, XML-special, non-ASCII BMP, astral; never NUL,
    never a character XML 1.0 cannot carry"""
    n = rng.choice([1, 1, 2, 3, 5, 8, 12, 20, 31, 31])
    n = min(n, maxlen)
    out = []
    while len(out) < n:
        k = rng.random()
        if latin1:
            piece = rng.choice(ASCII) if k < 0.6 else chr(rng.randrange(0xa0, 0x100))
        elif k < 0.40:
            piece = rng.choice(ASCII)
        elif k < 0.60:
            piece = rng.choice(SPECIAL)
        elif k < 0.78:
            piece = rng.choice(BMP)
        elif k < 0.90:
            piece = rng.choice(ASTRAL)
        else:
            cp = rng.choice([rng.randrange(0x21, 0x7f), rng.randrange(0xa0, 0xd800),
                             rng.randrange(0xe000, 0xfffe), rng.randrange(0x10000, 0x110000)])
            piece = chr(cp)
        if len(out) + len(piece) <= n:
            out.extend(piece)
    return "".join(out)


def unique_names(rng, count, **kw):
    seen, out = set(), []
    while len(out) < count:
        s = gen_name(rng, **kw)
        if s and s not in seen:
            seen.add(s)
            out.append(s)
    return out


def utf16_len(s):
    return len(s.encode("utf-16le")) // 2


# ------------------------------------------------------------------ wire helpers
def hxs(s):
    """hex of a string inside a list item ("." = empty)"""
    return hx(s) if s else "."


def attrs_wire(a):
    return "&".join("%s=%s" % (hx(k), hx(v)) for k, v in a) if a else "-"


def recs_wire(l):
    return ",".join("%d:%s" % (t, b.hex()) for t, b in l) if l else "-"


def lst(items):
    return ",".join(items) if items else "-"


# ------------------------------------------------------------------ XML serialiser
ENT = {"&": "&amp;", "<": "&lt;", ">": "&gt;", '"': "&quot;", "'": "&apos;"}
# written verbatim: calamine compares / looks up the raw bytes of these values
RAW_ATTRS = {"Id", "Target", "r:id", "relationships:id", "Type", "office:value-type"}


def is_raw_attr(a):
    """relationship ids (`id` under any prefix), Id, Target, …: calamine uses the raw bytes"""
    return a in RAW_ATTRS or a.endswith(":id")


def esc(s, rng, attr=None):
    """character data; attr = the delimiting quote for an attribute value"""
    out = []
    for ch in s:
        cp = ord(ch)
        must = ch in "&<>" or cp == 13 or (attr is not None and (ch == attr or cp in (9, 10)))
        r = rng.random() if rng is not None else 0.0
        if must:
            if ch in ENT and r < 0.6:
                out.append(ENT[ch])
            elif r < 0.8:
                out.append("&#%d;" % cp)
            else:
                out.append("&#x%X;" % cp)
        elif rng is not None and r < 0.04:
            out.append("&#%d;" % cp)
        elif rng is not None and r < 0.08:
            out.append("&#x%x;" % cp)
        elif rng is not None and ch in ENT and r < 0.5:
            out.append(ENT[ch])
        else:
            out.append(ch)
    return "".join(out)


def serialise(events, rng=None, decl=True):
    """events -> XML text; adjacent Start/End of one name may become an empty-element tag; the
    leading Other is written as the XML declaration"""
    out = []
    i, n = 0, len(events)
    if decl and n and events[0] == O:
        out.append(DECL)
        i = 1
    while i < n:
        e = events[i]
        k = e[0]
        if k == "S":
            parts = [e[1]]
            for a, v in e[2]:
                q = "'" if (rng is not None and rng.random() < 0.2) else '"'
                if is_raw_attr(a):
                    parts.append('%s=%s%s%s' % (a, q, v, q))
                else:
                    parts.append('%s=%s%s%s' % (a, q, esc(v, rng, attr=q), q))
            sep = " " if rng is None or rng.random() < 0.8 else rng.choice(["  ", "\n ", "\t"])
            tag = sep.join(parts)
            nxt = events[i + 1] if i + 1 < n else None
            if nxt is not None and nxt[0] == "E" and nxt[1] == e[1] and (rng is None or rng.random() < 0.7):
                out.append("<%s/>" % tag)
                i += 2
                continue
            out.append("<%s>" % tag)
        elif k == "E":
            out.append("</%s>" % e[1])
        elif k == "T":
            out.append(esc(e[1], rng))
        elif k == "C":
            assert "]]>" not in e[1]
            out.append("<![CDATA[%s]]>" % e[1])
        else:
            out.append("<!-- c -->")
        i += 1
    return "".join(out)


# ------------------------------------------------------------------ numeric cells of a sheet
def f64_bits(x):
    return struct.unpack("<Q", struct.pack("<d", x))[0]


def sheet_cells(rng):
    """a few numbers; style 1 = date format (numFmtId 14), style 0 = General.
    returns list of (row, col, style, float)"""
    cells = []
    n = rng.randrange(1, 4)
    for k in range(n):
        cells.append((rng.randrange(0, 5) + 6 * k, rng.randrange(0, 4), 1,
                      float(rng.choice([0, 1, 59, 60, 61, 366, 1462, 40000, 45000.5, 2958465]))))
    if rng.random() < 0.5:
        cells.append((6 * n + 1, 0, 0, 12.5))
    cells.sort()
    return cells


def expected_cells(cells):
    """{(row, col): canonical cell string without the date-system flag part} for checking"""
    out = {}
    for r, c, s, v in cells:
        out[(r, c)] = ("D%d:0" % f64_bits(v)) if s == 1 else ("F%d" % f64_bits(v))
    return out


def col_name(c):
    s = ""
    c += 1
    while c > 0:
        c, r = divmod(c - 1, 26)
        s = chr(65 + r) + s
    return s


# ------------------------------------------------------------------ xlsx
STYLES_XML = (DECL + '<styleSheet xmlns="%s"><cellXfs count="2"><xf numFmtId="0"/><xf numFmtId="14"/>'
              '</cellXfs></styleSheet>' % NS_MAIN)


def xlsx_sheet_xml(cells):
    rows = {}
    for r, c, s, v in cells:
        rows.setdefault(r, []).append((c, s, v))
    out = [DECL, '<worksheet xmlns="%s"><sheetData>' % NS_MAIN]
    for r in sorted(rows):
        out.append('<row r="%d">' % (r + 1))
        for c, s, v in sorted(rows[r]):
            out.append('<c r="%s%d" s="%d"><v>%s</v></c>' % (col_name(c), r + 1, s, repr(v)))
        out.append("</row>")
    out.append("</sheetData></worksheet>")
    return "".join(out)


OTHER_PART_XML = {
    "chart": DECL + '<chartsheet xmlns="%s"><sheetViews><sheetView workbookViewId="0"/></sheetViews></chartsheet>' % NS_MAIN,
    "dlg": DECL + '<dialogsheet xmlns="%s"/>' % NS_MAIN,
    "mac": DECL + '<xm:macrosheet xmlns:xm="http://schemas.microsoft.com/office/excel/2006/main"><xm:sheetData/></xm:macrosheet>',
}


def xlsx_file(rels_xml, wb_xml, parts, rng=None):
    """parts: list of (zip path, text)"""
    ct = (DECL + '<Types xmlns="http://schemas.openxmlformats.org/package/2006/content-types">'
          '<Default Extension="rels" ContentType="application/vnd.openxmlformats-package.relationships+xml"/>'
          '<Default Extension="xml" ContentType="application/xml"/></Types>')
    root = (DECL + '<Relationships xmlns="%s"><Relationship Id="rId1" Type="%s/officeDocument" '
            'Target="xl/workbook.xml"/></Relationships>' % (NS_PKG, NS_REL))
    allp = [("[Content_Types].xml", ct), ("_rels/.rels", root), ("xl/workbook.xml", wb_xml),
            ("xl/_rels/workbook.xml.rels", rels_xml), ("xl/styles.xml", STYLES_XML)] + parts
    return zip_bytes(allp, rng)


# ------------------------------------------------------------------ xlsb
def xlsb_styles_bin():
    st = brec(0x0116)
    st += brec(0x0269, struct.pack("<I", 2))
    for ifmt in (0, 14):
        st += brec(0x002F, struct.pack("<HHHHHBBBB", 0, ifmt, 0, 0, 0, 0, 0, 0, 0x10) + b"\0\0")
    st += brec(0x026A) + brec(0x0117)
    return st


def xlsb_sheet_bin(cells):
    rows = {}
    for r, c, s, v in cells:
        rows.setdefault(r, []).append((c, s, v))
    maxr = max(rows) if rows else 0
    maxc = max((c for r, c, s, v in cells), default=0)
    sh = (brec(0x0081) + brec(0x0094, struct.pack("<IIII", 0, maxr, 0, maxc)) + brec(0x0091))
    for r in sorted(rows):
        sh += brec(0x0000, struct.pack("<IIHBBBI", r, 0, 300, 0, 0, 0, 0))
        for c, s, v in sorted(rows[r]):
            sh += brec(0x0005, struct.pack("<II", c, s & 0xFFFFFF) + struct.pack("<d", v))
    sh += brec(0x0092) + brec(0x0082)
    return sh


def xlsb_file(rels_xml, wb_bin, parts, rng=None):
    ct = (DECL + '<Types xmlns="http://schemas.openxmlformats.org/package/2006/content-types">'
          '<Default Extension="bin" ContentType="application/vnd.ms-excel.sheet.binary.macroEnabled.main"/>'
          '<Default Extension="rels" ContentType="application/vnd.openxmlformats-package.relationships+xml"/>'
          '</Types>')
    root = (DECL + '<Relationships xmlns="%s"><Relationship Id="rId1" Type="%s/officeDocument" '
            'Target="xl/workbook.bin"/></Relationships>' % (NS_PKG, NS_REL))
    allp = [("[Content_Types].xml", ct), ("_rels/.rels", root), ("xl/workbook.bin", wb_bin),
            ("xl/_rels/workbook.bin.rels", rels_xml), ("xl/styles.bin", xlsb_styles_bin())] + parts
    return zip_bytes(allp, rng)


# ------------------------------------------------------------------ xls
def rec(t, data=b""):
    assert len(data) <= 8224
    return struct.pack("<HH", t, len(data)) + data


# CodePage records (0x0042, [MS-XLS] 2.4.52) as real BIFF8 writers put them among the globals: Excel
# 1200, JExcelApi 1252 (the repository's tests/sheet_name_parsing.xls), localised writers, UTF-8,
# Mac Roman, values the `codepage` crate does not know (437, 0, 54321, 65535).  BIFF8 text is
# Unicode whatever the record says (audit-2 finding XLS-1).
CODEPAGES = [1200, 1200, 1252, 1252, 1251, 1250, 932, 936, 949, 950, 874, 65001, 10000, 1201, 437, 0, 54321, 65535]


def codepage_record(rng):
    """(type, body): two bytes as the format says; sometimes more (the reader takes the first two)"""
    body = struct.pack("<H", rng.choice(CODEPAGES))
    if rng.random() < 0.08:
        body += bytes(rng.randrange(256) for _ in range(rng.choice([1, 2, 6])))
    return (0x0042, body)


def xls_style_records():
    """(type, body) records: General XF and a date XF (ifmt 14)"""
    out = []
    for ifmt in (0, 14):
        out.append((0x00E0, struct.pack("<HHHBBBBHHHHH", 0, ifmt, 0x0001, 0x20, 0, 0, 0, 0, 0, 0, 0, 0x20C0)))
    return out


def xls_sheet_substream(cells, dt=0x0010):
    bof = rec(0x0809, struct.pack("<HHHHII", 0x0600, dt, 0x0DBB, 0x07CC, 0, 0x0306))
    maxr = max((r for r, c, s, v in cells), default=0)
    maxc = max((c for r, c, s, v in cells), default=0)
    body = rec(0x0200, struct.pack("<IIHHH", 0, maxr + 1, 0, maxc + 1, 0))
    for r, c, s, v in cells:
        body += rec(0x0203, struct.pack("<HHH", r, c, s) + struct.pack("<d", v))
    return bof + body + rec(0x000A)


def xls_file(stream):
    return cfb_write("Workbook", stream)


# ------------------------------------------------------------------ ods
def ods_rows_events(strings, pretty=False):
    """one row per string: a string cell; pretty: indented the way a pretty-printing writer does
    it (white space between the rows, between the cells and around the paragraph)"""
    ev = []
    w = (lambda k: [T("\n" + "  " * k)]) if pretty else (lambda k: [])
    for s in strings:
        ev += w(3) + [S("table:table-row")] + w(4) + [S("table:table-cell", [("office:value-type", "string")])] + w(5) + \
              [S("text:p"), T(s), E("text:p")] + w(4) + [E("table:table-cell")] + w(3) + [E("table:table-row")]
    return ev


ODS_NS = [
    ("xmlns:office", "urn:oasis:names:tc:opendocument:xmlns:office:1.0"),
    ("xmlns:style", "urn:oasis:names:tc:opendocument:xmlns:style:1.0"),
    ("xmlns:table", "urn:oasis:names:tc:opendocument:xmlns:table:1.0"),
    ("xmlns:text", "urn:oasis:names:tc:opendocument:xmlns:text:1.0"),
    ("office:version", "1.2"),
]


def ods_file(content_xml, rng=None):
    manifest = ('<?xml version="1.0" encoding="UTF-8"?>'
                '<manifest:manifest xmlns:manifest="urn:oasis:names:tc:opendocument:xmlns:manifest:1.0" manifest:version="1.2">'
                '<manifest:file-entry manifest:full-path="/" manifest:media-type="application/vnd.oasis.opendocument.spreadsheet"/>'
                '<manifest:file-entry manifest:full-path="content.xml" manifest:media-type="text/xml"/>'
                '</manifest:manifest>')
    bio = io.BytesIO()
    with zipfile.ZipFile(bio, "w") as z:
        zi = zipfile.ZipInfo("mimetype", date_time=(2020, 1, 1, 0, 0, 0))
        zi.compress_type = zipfile.ZIP_STORED
        z.writestr(zi, b"application/vnd.oasis.opendocument.spreadsheet")
        for name, data in (("META-INF/manifest.xml", manifest), ("content.xml", content_xml)):
            zi = zipfile.ZipInfo(name, date_time=(2020, 1, 1, 0, 0, 0))
            zi.compress_type = zipfile.ZIP_DEFLATED if (rng is None or rng.random() < 0.5) else zipfile.ZIP_STORED
            z.writestr(zi, data.encode("utf-8"))
    return bio.getvalue()


def add_ods_namespaces(events):
    """the Coq encoder writes the root element without namespace declarations (the reader does not
    look at them); add them so that the file is namespace-well-formed"""
    out = []
    done = False
    for e in events:
        if not done and e[0] == "S" and e[1] == "office:document-content":
            out.append(S(e[1], list(ODS_NS) + list(e[2])))
            done = True
        else:
            out.append(e)
    return out
