"""xlsxgen_c01 — structured xlsx cases for property C01 and the package writer.

A case is a python dict mirroring the Coq records of coq/theories/XlsxSheet.v (esheet / erow /
ecell / env / eworkbook).  `sheet_wire` / `env_wire` / `wb_wire` print them in the wire format parsed
by ocaml/cmd_xlsxsheet.ml; the extracted Coq encoder turns them into event lists, which
`part_xml` serialises (tools/textgen.py) and `package` zips.  All randomness comes from the rng
given by the caller."""
import io, zipfile
from textgen import S, E, T, C, O, hx, unhx, wire, unwire, serialise, esc_text, col_name, qn, NS_MAIN, NS_REL, NS_PKG

MAX_ROW, MAX_COL = 1048575, 16383

# ------------------------------------------------------------------ wire
def w(events):
    return wire(events) if events else "-"
def attrs_wire(a):
    return ",".join("%s=%s" % (hx(k), hx(v)) for k, v in a) if a else "-"

def value_wire(v):
    k = v[0]
    if k == "N": return "N" + hx(v[1])
    if k == "S": return "S" + hx(v[1])
    if k == "B": return "B1" if v[1] else "B0"
    if k == "X": return "X%d" % v[1]
    if k == "I": return "I" + hx(v[1])
    return "K"

def cell_wire(c):
    sf = c.get("sform", "i")
    return "~".join([
        str(c["col"]), "1" if c.get("explicit", True) else "0", "1" if c.get("lower") else "0",
        "-" if c.get("style") is None else str(c["style"]), value_wire(c["val"]),
        sf if isinstance(sf, str) else "h%d" % sf[1], "1" if c.get("tn") else "0", "1" if c.get("alt") else "0",
        "-" if c.get("formula") is None else "F" + hx(c["formula"]),
        attrs_wire(c.get("extra", [])), w(c.get("inner", [])), w(c.get("junk", []))])

def row_wire(r):
    return ":".join([str(r["row"]), "1" if r.get("explicit", True) else "0", attrs_wire(r.get("extra", [])),
                     w(r.get("junk0", [])), w(r.get("junk", [])),
                     "/".join(cell_wire(c) for c in r["cells"]) or "-"])

def dim_wire(d):
    if d is None:
        return "-"
    return ".".join(str(x) for x in d)

def sheet_wire(sh):
    return "|".join([hx(sh["pfx"]) if sh.get("pfx") else "-", dim_wire(sh.get("dim")),
                     w(sh.get("pre", [])), w(sh.get("pre2", [])), w(sh.get("junk0", [])), w(sh.get("post", [])),
                     ";".join(row_wire(r) for r in sh["rows"]) or "-"])

def env_wire(env):
    return "|".join([",".join("x" + hx(s) for s in env["strings"]), env["formats"] or "-",
                     "1" if env["is1904"] else "0"])

NS_REL_DOC = "http://schemas.openxmlformats.org/officeDocument/2006/relationships"
NS_REL_STRICT = "http://purl.oclc.org/ooxml/officeDocument/relationships"
NS_REL_MS = "http://schemas.microsoft.com/office/2006/relationships"
# the relationship types that name a sheet part (the kind of the sheet comes from these, not from
# the folder of the part)
SHEET_REL_TYPES = [NS_REL_DOC + "/worksheet", NS_REL_STRICT + "/worksheet",
                   NS_REL_DOC + "/chartsheet", NS_REL_STRICT + "/chartsheet",
                   NS_REL_DOC + "/dialogsheet", NS_REL_STRICT + "/dialogsheet",
                   NS_REL_MS + "/xlMacrosheet", NS_REL_MS + "/xlIntlMacrosheet"]
CONVENTIONAL_FOLDERS = ["worksheets", "chartsheets", "dialogsheets", "macrosheets"]


def gen_part_name(rng, i):
    """a part name relative to xl/ for sheet i; OPC part names are free, so about half of the draws
    leave the folder Excel uses: no folder, another folder, nested folders, the folder of another
    kind of sheet"""
    r = rng.random()
    if r < 0.40:
        return "worksheets/sheet%d.xml" % (i + 1)
    if r < 0.48:
        return "worksheets/Tab_%d.xml" % i
    if r < 0.58:
        return "sheet%d.xml" % (i + 1)
    if r < 0.68:
        return "ws/a%d.xml" % i
    if r < 0.78:
        return "data/s%d.xml" % i
    if r < 0.88:
        return "%s/sheet%d.xml" % (rng.choice(CONVENTIONAL_FOLDERS[1:]), i + 1)
    if r < 0.94:
        return "a/b/c/%d.xml" % i
    return rng.choice(["Tabelle%d.xml", "worksheets%d.xml", "w s/Sheet %d.xml"]) % i


def wb_wire(wb):
    sheets = ";".join("~".join([hx(s["name"]), hx(s["rid"]), hx(s["part"]), str(s["spelling"]),
                                attrs_wire(s.get("extra", [])),
                                hx(s.get("type", SHEET_REL_TYPES[0])) or "-"]) for s in wb["sheets"])
    return "|".join([hx(wb["pfx"]) if wb.get("pfx") else "-", hx(wb["relpfx"]) if wb.get("relpfx") else "-",
                     hx(wb["relspfx"]) if wb.get("relspfx") else "-",
                     "-" if wb.get("date1904") is None else "v" + hx(wb["date1904"]), sheets or "-"])

# ------------------------------------------------------------------ XML parts
def part_xml(events, rng=None):
    """events -> XML text; a leading O stands for the XML declaration"""
    if events and events[0] == O:
        return '<?xml version="1.0" encoding="UTF-8" standalone="yes"?>' + serialise(events[1:], rng, decl=False)
    return serialise(events, rng, decl=False)

def sst_xml(strings, rng=None, pfx=""):
    p = pfx + ":" if pfx else ""
    ns = 'xmlns:%s="%s"' % (pfx, NS_MAIN) if pfx else 'xmlns="%s"' % NS_MAIN
    out = ['<?xml version="1.0" encoding="UTF-8" standalone="yes"?><%ssst %s count="%d" uniqueCount="%d">'
           % (p, ns, len(strings), len(strings))]
    for s in strings:
        if s == "" and rng is not None and rng.random() < 0.8:
            # an item without text is still an item: every spelling of it holds its index
            out.append(rng.choice(["<%ssi><%st/></%ssi>" % (p, p, p), "<%ssi/>" % p, "<%ssi></%ssi>" % (p, p),
                                   "<%ssi><%srPh sb=\"0\" eb=\"1\"><%st>x</%st></%srPh></%ssi>" % (p, p, p, p, p, p)]))
        else:
            out.append('<%ssi><%st xml:space="preserve">%s</%st></%ssi>' % (p, p, esc_text(s, rng), p, p))
    out.append("</%ssst>" % p)
    return "".join(out)

FMT_ID = {"o": "0", "d": "14", "t": "46"}
def styles_xml(formats):
    out = ['<?xml version="1.0" encoding="UTF-8" standalone="yes"?><styleSheet xmlns="%s">' % NS_MAIN,
           '<fonts count="1"><font><sz val="11"/></font></fonts>',
           '<fills count="1"><fill><patternFill patternType="none"/></fill></fills>',
           '<borders count="1"><border/></borders>',
           '<cellStyleXfs count="1"><xf numFmtId="14" fontId="0"/></cellStyleXfs>',
           '<cellXfs count="%d">' % len(formats)]
    for f in formats:
        out.append('<xf numFmtId="%s" fontId="0" fillId="0" borderId="0" xfId="0"/>' % FMT_ID[f])
    out.append("</cellXfs></styleSheet>")
    return "".join(out)

def content_types(sheet_parts):
    out = ['<?xml version="1.0" encoding="UTF-8" standalone="yes"?>'
           '<Types xmlns="http://schemas.openxmlformats.org/package/2006/content-types">'
           '<Default Extension="rels" ContentType="application/vnd.openxmlformats-package.relationships+xml"/>'
           '<Default Extension="xml" ContentType="application/xml"/>'
           '<Override PartName="/xl/workbook.xml" ContentType="application/vnd.openxmlformats-officedocument.spreadsheetml.sheet.main+xml"/>']
    for p in sheet_parts:
        out.append('<Override PartName="/%s" ContentType="application/vnd.openxmlformats-officedocument.spreadsheetml.worksheet+xml"/>' % p)
    out.append("</Types>")
    return "".join(out)

ROOT_RELS = ('<?xml version="1.0" encoding="UTF-8" standalone="yes"?>'
             '<Relationships xmlns="%s"><Relationship Id="rId1" Type="%s/officeDocument" Target="xl/workbook.xml"/></Relationships>'
             % (NS_PKG, NS_REL))

def package(parts, rng=None, method=None):
    """parts: list of (zip entry name, text or bytes) in central-directory order.
    method: None = per entry at random, 'stored', 'deflated'"""
    bio = io.BytesIO()
    with zipfile.ZipFile(bio, "w") as z:
        for name, data in parts:
            if method == "stored":
                m = zipfile.ZIP_STORED
            elif method == "deflated":
                m = zipfile.ZIP_DEFLATED
            else:
                m = zipfile.ZIP_DEFLATED if (rng is None or rng.random() < 0.5) else zipfile.ZIP_STORED
            zi = zipfile.ZipInfo(name, date_time=(2020, 1, 1, 0, 0, 0))
            zi.compress_type = m
            z.writestr(zi, data if isinstance(data, bytes) else data.encode("utf-8"))
    return bio.getvalue()

def recase(rng, s, mode=None):
    """an ASCII-case variation of a part name"""
    mode = mode if mode is not None else rng.choice(["same", "same", "upper", "lower", "title", "random"])
    if mode == "same":
        return s
    if mode == "upper":
        return s.upper()
    if mode == "lower":
        return s.lower()
    if mode == "title":
        return "/".join(x[:1].upper() + x[1:] for x in s.split("/"))
    return "".join(ch.upper() if rng.random() < 0.5 else ch.lower() for ch in s)

# ------------------------------------------------------------------ ignorable content
def ws(rng):
    return T(rng.choice(["\n", "\n  ", " ", "\t", "\n\n    "]))

def frag_pre(rng, pfx):
    q = lambda l: qn(pfx, l)
    k = rng.randrange(7)
    if k == 0:
        return [S(q("sheetPr")), S(q("tabColor"), [("rgb", "FFFF0000")]), E(q("tabColor")), E(q("sheetPr"))]
    if k == 1:
        return [S(q("sheetViews")), S(q("sheetView"), [("workbookViewId", "0"), ("tabSelected", "1")]),
                S(q("selection"), [("activeCell", "B2"), ("sqref", "B2")]), E(q("selection")),
                E(q("sheetView")), E(q("sheetViews"))]
    if k == 2:
        return [S(q("sheetFormatPr"), [("defaultRowHeight", "15")]), E(q("sheetFormatPr"))]
    if k == 3:
        return [S(q("cols")), S(q("col"), [("min", "1"), ("max", "3"), ("width", "12.5")]), E(q("col")), E(q("cols"))]
    if k == 4:
        return [ws(rng)]
    if k == 5:
        return [O]
    return [S("mc:AlternateContent", [("xmlns:mc", "http://schemas.openxmlformats.org/markup-compatibility/2006")]),
            S("mc:Choice", [("Requires", "x14")]), T("row c v"), E("mc:Choice"), E("mc:AlternateContent")]

def frag_junk(rng, pfx):
    """ignorable content between rows / cells"""
    q = lambda l: qn(pfx, l)
    k = rng.randrange(6)
    if k <= 2:
        return [ws(rng)]
    if k == 3:
        return [O]
    if k == 4:
        return [S(q("extLst")), S(q("ext"), [("uri", "{78C0D931-6437-407d-A8EE-F0AAD7539E65}")]),
                T("1"), E(q("ext")), E(q("extLst"))]
    return [C("row")]

def frag_post(rng, pfx):
    q = lambda l: qn(pfx, l)
    k = rng.randrange(6)
    if k == 0:
        return [S(q("mergeCells"), [("count", "1")]), S(q("mergeCell"), [("ref", "A1:B2")]), E(q("mergeCell")), E(q("mergeCells"))]
    if k == 1:
        return [S(q("pageMargins"), [("left", "0.7"), ("right", "0.7"), ("top", "0.75"), ("bottom", "0.75"),
                                     ("header", "0.3"), ("footer", "0.3")]), E(q("pageMargins"))]
    if k == 2:
        return [S(q("sheetProtection"), [("sheet", "1")]), E(q("sheetProtection"))]
    if k == 3:
        # cells after the sheet data are not cells
        return [S(q("extLst")), S(q("ext"), [("uri", "u")]), S(q("row"), [("r", "1")]), S(q("c"), [("r", "A1")]),
                S(q("v")), T("999"), E(q("v")), E(q("c")), E(q("row")), E(q("ext")), E(q("extLst"))]
    if k == 4:
        return [ws(rng)]
    return [O]

def many(rng, f, pfx, lo=0, hi=3):
    out = []
    for _ in range(rng.randrange(lo, hi + 1)):
        out += f(rng, pfx)
    return out

# (the prefixed ones are attributes of OTHER namespaces that share the local name of an attribute
# the reader looks for: they stand in front of the unqualified one and are not it)
ROW_EXTRA = [("spans", "1:3"), ("ht", "15"), ("customHeight", "1"), ("s", "1"), ("customFormat", "1"),
             ("x14ac:dyDescent", "0.25"), ("hidden", "0"), ("rv:r", "99"), ("xr:r", "A7")]
CELL_EXTRA = [("cm", "1"), ("vm", "0"), ("ph", "1"), ("rv:r", "Z99"), ("rv:t", "b"), ("rv:s", "1"), ("xr:uid", "{00}")]

# ------------------------------------------------------------------ values
NUMBERS = ["0", "1", "-1", "42", "3.14159", "-2.5", "1E5", "1e-7", "0.1", "123456789012345678", "1.7976931348623157E308",
           "5e-324", "2.2250738585072014E-308", "43831", "43831.5", "0.75", "1e400", "-0", "+7", ".5", "5.", "60", "59.999",
           "1.0000000000000002", "9007199254740993", "4.35", "0.30000000000000004"]
ERR_TEXT = ["#DIV/0!", "#N/A", "#NAME?", "#NULL!", "#NUM!", "#REF!", "#VALUE!", "#GETTING_DATA"]
STRS = ["", "a", "hello world", "<&>\"'", " lead", "trail ", "Zeile\nzwei", "é中\U0001F600", "0", "1E5", "TRUE", "#N/A",
        "A1", "x" * 40, "tab\there"]
ISO = ["2021-01-01", "2021-01-01T12:34:56Z", "1899-12-31", "12:00:00", "2024-02-29T23:59:59.999"]

def gen_number(rng):
    r = rng.random()
    if r < 0.5:
        return rng.choice(NUMBERS)
    if r < 0.7:
        return str(rng.randrange(-10 ** 6, 10 ** 6))
    if r < 0.9:
        return repr(rng.uniform(-1e6, 1e6))
    return "%de%d" % (rng.randrange(1, 999), rng.randrange(-30, 30))

def gen_env(rng):
    strings = [("" if rng.random() < 0.12 else rng.choice(STRS) + (str(i) if rng.random() < 0.5 else ""))
               for i in range(rng.choice([0, 1, 2, 3, 5, 12]))]
    formats = "".join(rng.choice("ooodt") for _ in range(rng.choice([0, 1, 2, 3, 5])))
    return {"strings": strings, "formats": formats, "is1904": rng.random() < 0.2}

def gen_value(rng, env, cell, allow_known=True):
    """fills val / sform / tn / formula of a cell dict"""
    r = rng.random()
    if r < 0.34:
        cell["val"] = ("N", gen_number(rng))
        cell["tn"] = rng.random() < 0.4
    elif r < 0.64:
        sf = rng.choice(["h", "i", "f"]) if env["strings"] else rng.choice(["i", "f"])
        if sf == "h":
            idx = rng.randrange(len(env["strings"]))
            cell["val"] = ("S", env["strings"][idx])
            cell["sform"] = ("h", idx)
        else:
            cell["val"] = ("S", rng.choice(STRS))
            cell["sform"] = sf
    elif r < 0.72:
        cell["val"] = ("B", rng.random() < 0.5)
        cell["alt"] = rng.random() < 0.3          # the words true / false
    elif r < 0.80:
        cell["val"] = ("X", rng.randrange(8))
    elif r < 0.86:
        cell["val"] = ("I", rng.choice(ISO))
    else:
        cell["val"] = ("K",)
        cell["tn"] = rng.random() < 0.3
        cell["alt"] = rng.random() < 0.4          # an empty <v/>
    if cell["val"][0] in "NBXK" or (cell["val"][0] == "S" and cell.get("sform") == "f"):
        if rng.random() < 0.3:
            cell["formula"] = rng.choice(["A1+1", "SUM(B1:B9)", "IF(A1<2,\"x\",\"y\")", "", "1/0"])
    if rng.random() < 0.35:
        cell["style"] = rng.choice([0, 1, 2, 3, 4, 7]) if rng.random() < 0.9 else rng.choice([10 ** 6, 2 ** 64 - 1])

# ------------------------------------------------------------------ position sets
COL_EDGES = [0, 1, 24, 25, 26, 27, 50, 51, 52, 53, 676, 677, 700, 701, 702, 703, 728, 16382, 16383, 18277, 18278]
ROW_EDGES = [0, 1, 8, 9, 10, 98, 99, 100, 65535, 65536, 99999, 100000, 999999, 1048574, 1048575]

def gen_positions(rng, profile):
    """a dict row -> sorted list of columns; the bounding box stays small enough to allocate"""
    rows = {}
    def add(r, c):
        rows.setdefault(r, set()).add(c)
    if profile == "corner":
        k = rng.randrange(6)
        if k == 0:
            add(0, 0); add(0, MAX_COL)
        elif k == 1:
            add(0, 0); add(MAX_ROW, 0)
        elif k == 2:
            add(MAX_ROW, MAX_COL)
        elif k == 3:
            add(0, MAX_COL); add(MAX_ROW, MAX_COL)
        elif k == 4:
            add(MAX_ROW, 0); add(MAX_ROW, MAX_COL)
        else:
            add(rng.choice([0, MAX_ROW]), rng.choice([0, MAX_COL]))
    elif profile == "edges":
        r0 = rng.choice(ROW_EDGES)
        for _ in range(rng.randrange(1, 4)):
            r = min(MAX_ROW, r0 + rng.randrange(0, 3))
            for c in rng.sample(COL_EDGES, rng.randrange(1, 6)):
                add(r, c)
    elif profile == "dense":
        r0, c0 = rng.choice(ROW_EDGES[:10]), rng.choice([0, 1, 25, 26, 701])
        h, wd = rng.randrange(1, 6), rng.randrange(1, 8)
        for i in range(h):
            for j in range(wd):
                if rng.random() < 0.8:
                    add(r0 + i, c0 + j)
    else:   # sparse
        r0, c0 = rng.randrange(0, 2000), rng.randrange(0, 800)
        for _ in range(rng.randrange(1, 9)):
            add(r0 + rng.randrange(0, 40), c0 + rng.randrange(0, 60))
    return {r: sorted(cs) for r, cs in rows.items()}

# ------------------------------------------------------------------ sheets
def gen_sheet(rng, env, profile=None, legal=True, pfx=None):
    """a structured sheet (dict).  legal=True: every choice respects legal_sheet (implicit
    references only where the cursor allows them); legal=False: a few choices are made blindly."""
    profile = profile or rng.choice(["dense"] * 9 + ["sparse"] * 8 + ["edges"] * 7 + ["corner"])
    pfx = pfx if pfx is not None else rng.choice(["", "", "x", "ss", "main"])
    pos = gen_positions(rng, profile)
    style_r = rng.choice(["explicit", "implicit", "mixed", "mixed"])
    rows, cur_row = [], 0
    all_rows = sorted(pos)
    for r in all_rows:
        # optional empty rows before this one
        while rng.random() < 0.15 and cur_row < r:
            er = rng.randrange(cur_row, r)
            ex = True if er != cur_row else rng.random() < 0.5
            rows.append({"row": er, "explicit": ex, "cells": [], "junk": many(rng, frag_junk, pfx, 0, 1),
                         "extra": rng.sample(ROW_EXTRA, rng.randrange(0, 3))})
            cur_row = er + 1
        can_implicit = (r == cur_row)
        if style_r == "explicit":
            ex = True
        elif style_r == "implicit":
            ex = not can_implicit
        else:
            ex = (not can_implicit) or rng.random() < 0.5
        if not legal and rng.random() < 0.15:
            ex = False
        cells, cur_col = [], 0
        cols = list(pos[r])
        # style-only / blank cells in between
        for c in cols:
            can_imp = (c == cur_col)
            cex = (not can_imp) or rng.random() < 0.5
            if style_r == "explicit":
                cex = True
            if not legal and rng.random() < 0.15:
                cex = False
            cell = {"col": c, "explicit": cex, "lower": cex and rng.random() < 0.1}
            gen_value(rng, env, cell)
            if rng.random() < 0.2:
                cell["extra"] = rng.sample(CELL_EXTRA, rng.randrange(1, 3))
            if rng.random() < 0.15:
                cell["inner"] = [ws(rng)] if rng.random() < 0.7 else [O]
            if rng.random() < 0.2:
                cell["junk"] = many(rng, frag_junk, pfx, 1, 2)
            cells.append(cell)
            cur_col = c + 1
        rows.append({"row": r, "explicit": ex, "cells": cells,
                     "extra": rng.sample(ROW_EXTRA, rng.randrange(0, 3)),
                     "junk0": many(rng, frag_junk, pfx, 0, 1) if rng.random() < 0.3 else [],
                     "junk": many(rng, frag_junk, pfx, 0, 2) if rng.random() < 0.3 else []})
        cur_row = r + 1
    if not legal and len(rows) > 1 and rng.random() < 0.3:
        i = rng.randrange(len(rows) - 1)
        rows[i], rows[i + 1] = rows[i + 1], rows[i]
    # dimension: absent / exact / wrong
    k = rng.random()
    used = [(r["row"], c["col"]) for r in rows for c in r["cells"] if c["val"][0] != "K"]
    if k < 0.3 or not used:
        dim = None if (k < 0.3 or rng.random() < 0.5) else (0, 0)
    elif k < 0.6:
        rs, cs = [p[0] for p in used], [p[1] for p in used]
        dim = (min(rs), min(cs), max(rs), max(cs))
        if dim[0] == dim[2] and dim[1] == dim[3] and rng.random() < 0.5:
            dim = (dim[0], dim[1])
    else:
        a, b = rng.randrange(0, 50), rng.randrange(0, 30)
        dim = rng.choice([(0, 0), (a, b), (a, b, a + rng.randrange(0, 5), b + rng.randrange(0, 5)),
                          (0, 0, MAX_ROW, MAX_COL), (5, 5, 6, 6)])
    nsdecl = [("xmlns:%s" % pfx if pfx else "xmlns", NS_MAIN), ("xmlns:r", NS_REL),
              ("xmlns:rv", "http://schemas.microsoft.com/office/spreadsheetml/2017/richdata"),
              ("xmlns:xr", "http://schemas.microsoft.com/office/spreadsheetml/2014/revision"),
              ("xmlns:x14ac", "http://schemas.microsoft.com/office/spreadsheetml/2009/9/ac")]
    pre = [O] + ([ws(rng)] if rng.random() < 0.2 else []) + [S(qn(pfx, "worksheet"), nsdecl)] + many(rng, frag_pre, pfx, 0, 2)
    pre2 = many(rng, frag_pre, pfx, 0, 3)
    post = many(rng, frag_post, pfx, 0, 3) + [E(qn(pfx, "worksheet"))]
    return {"pfx": pfx, "dim": dim, "pre": pre, "pre2": pre2,
            "junk0": many(rng, frag_junk, pfx, 0, 1) if rng.random() < 0.3 else [],
            "post": post, "rows": rows}

def reader_positions(sheet):
    """the positions the cursor rule assigns (third, trivial implementation): used only to keep
    the bounding box of blindly encoded sheets allocatable"""
    out, ri = [], 0
    for r in sheet["rows"]:
        if r.get("explicit", True):
            ri = r["row"]
        ci = 0
        for c in r["cells"]:
            if c.get("explicit", True):
                ci = c["col"]
                out.append((r["row"], ci))
            else:
                out.append((ri, ci))
            ci += 1
        ri += 1
    return out

def bbox_area(sheet):
    ps = reader_positions(sheet)
    if not ps:
        return 0
    rs, cs = [p[0] for p in ps], [p[1] for p in ps]
    return (max(rs) - min(rs) + 1) * (max(cs) - min(cs) + 1)

def simple_sheet(cells, pfx="", dim=None):
    """cells: list of (row, col, value tuple) sorted; everything explicit"""
    rows = {}
    for r, c, v in cells:
        rows.setdefault(r, []).append({"col": c, "explicit": True, "val": v, "sform": "i"})
    nsdecl = [("xmlns:%s" % pfx if pfx else "xmlns", NS_MAIN)]
    return {"pfx": pfx, "dim": dim, "pre": [O, S(qn(pfx, "worksheet"), nsdecl)], "pre2": [], "junk0": [],
            "post": [E(qn(pfx, "worksheet"))],
            "rows": [{"row": r, "explicit": True, "cells": cs} for r, cs in sorted(rows.items())]}

# ------------------------------------------------------------------ a whole single-sheet file
def single_sheet_parts(env, sheet_xml, rng, sheet_name="S", target="worksheets/sheet1.xml",
                       zip_sheet="xl/worksheets/sheet1.xml"):
    wbx = ('<?xml version="1.0" encoding="UTF-8" standalone="yes"?>'
           '<workbook xmlns="%s" xmlns:r="%s">%s<sheets><sheet name="%s" sheetId="1" r:id="rId1"/></sheets></workbook>'
           % (NS_MAIN, NS_REL, '<workbookPr date1904="1"/>' if env["is1904"] else "", sheet_name))
    rels = ('<?xml version="1.0" encoding="UTF-8" standalone="yes"?><Relationships xmlns="%s">'
            '<Relationship Id="rId1" Type="%s/worksheet" Target="%s"/>'
            '<Relationship Id="rId2" Type="%s/sharedStrings" Target="sharedStrings.xml"/>'
            '<Relationship Id="rId3" Type="%s/styles" Target="styles.xml"/></Relationships>'
            % (NS_PKG, NS_REL, target, NS_REL, NS_REL))
    parts = [("[Content_Types].xml", content_types([zip_sheet])), ("_rels/.rels", ROOT_RELS),
             ("xl/workbook.xml", wbx), ("xl/_rels/workbook.xml.rels", rels)]
    if env["strings"] or rng.random() < 0.3:
        parts.append(("xl/sharedStrings.xml", sst_xml(env["strings"], rng)))
    if env["formats"] or rng.random() < 0.3:
        parts.append(("xl/styles.xml", styles_xml(env["formats"])))
    parts.append((zip_sheet, sheet_xml))
    return parts
