(* Range.v — faithful executable model of calamine's Range<T> (src/lib.rs).
   Model only; proofs are in Range_proofs.v.  Coordinates are N (u32 in Rust), the inner
   vector is a list.  Every panic site of the Rust code that a caller can reach is a [Panic]. *)
From Calamine Require Import Prelude.
Open Scope N_scope.
Set Implicit Arguments.

Definition pos := (N * N)%type.

Record range (T : Type) : Type := mkRange {
  r_start : pos;
  r_end : pos;
  r_inner : list T
}.
Arguments mkRange {T}.
Arguments r_start {T}.
Arguments r_end {T}.
Arguments r_inner {T}.

Section Range.
Variable T : Type.
Variable d : T.                     (* T::default() *)
Variable teqb : T -> T -> bool.     (* PartialEq *)

Definition is_empty (r : range T) : bool :=
  match r_inner r with [] => true | _ => false end.

(* width()/height(): (end - start + 1) as usize, computed in u32.  On every state reachable from
   the constructors end >= start componentwise, so the truncated N subtraction coincides with
   Rust's.  MODELLING ASSUMPTION (Range_spec.fits32): no range has 2^32 rows or 2^32 columns; on
   such a range (at least 2^32 cells allocated) the "+ 1" overflows u32 in the real code, which
   these two total functions do not show.  Every theorem that goes through width()/height()
   states the bound it needs. *)
Definition width (r : range T) : N :=
  if is_empty r then 0 else snd (r_end r) - snd (r_start r) + 1.
Definition height (r : range T) : N :=
  if is_empty r then 0 else fst (r_end r) - fst (r_start r) + 1.

Definition start (r : range T) : option pos := if is_empty r then None else Some (r_start r).
Definition end_ (r : range T) : option pos := if is_empty r then None else Some (r_end r).

(* tuple comparison in Rust is lexicographic *)
Definition pos_le_lex (a b : pos) : bool :=
  (fst a <? fst b) || ((fst a =? fst b) && (snd a <=? snd b)).

(* usize is 64 bits on the harness target: usize::MAX = U64MAX *)
Definition sat_mul_usize (a b : N) : N := N.min (a * b) U64MAX.

(* Range::new — assert!(start <= end) (lexicographic); the two differences are u32 subtractions
   (overflow = panic: reached when start.0 < end.0 and start.1 > end.1); since 19d4f5b the number
   of cells is ((end.0 - start.0) as usize + 1) * ((end.1 - start.1) as usize + 1): the "+ 1"
   cannot overflow a 64-bit usize, the product overflows exactly for 2^32 x 2^32 cells.
   The allocation vec![default; n] itself is outside the model ([requested_new] is its size). *)
Definition new (s e : pos) : outcome (range T) :=
  if negb (pos_le_lex s e) then Panic else
  do h0 <- sub32 (fst e) (fst s);
  do w0 <- sub32 (snd e) (snd s);
  let n := (h0 + 1) * (w0 + 1) in
  if U64MAX <? n then Panic else
  Ok (mkRange s e (repeat d (N.to_nat n))).

(* number of cells Range::new asks the allocator for (when it does not panic before) *)
Definition requested_new (s e : pos) : N := (fst e - fst s + 1) * (snd e - snd s + 1).

Definition empty : range T := mkRange (0, 0) (0, 0) [].

(* Range::from_sparse (as of 3140dd1): all four bounds are running min / max over the cells,
   starting from u32::MAX / 0; cols and rows are (end - start) as usize + 1 (no u32 addition);
   len = cols.saturating_mul(rows); every cell goes to row.saturating_mul(cols) + col when that
   index exists (v.get_mut), and is dropped silently otherwise.  For u32 coordinates the usize
   addition row * cols + col is below 2^64, so it is not a guarded step.  The allocation of
   [len] cells is outside the model: [requested_from_sparse] is its size. *)
Definition sparse_bounds (cells : list (pos * T)) : pos * pos :=
  let row_start := fold_left (fun m c => if fst (fst c) <? m then fst (fst c) else m) cells U32MAX in
  let row_end := fold_left (fun m c => if m <? fst (fst c) then fst (fst c) else m) cells 0 in
  let col_start := fold_left (fun m c => if snd (fst c) <? m then snd (fst c) else m) cells U32MAX in
  let col_end := fold_left (fun m c => if m <? snd (fst c) then snd (fst c) else m) cells 0 in
  ((row_start, col_start), (row_end, col_end)).

Definition from_sparse (cells : list (pos * T)) : outcome (range T) :=
  match cells with
  | [] => Ok empty
  | _ :: _ =>
    let '((row_start, col_start), (row_end, col_end)) := sparse_bounds cells in
    do c0' <- sub32 col_end col_start;
    let cols := c0' + 1 in
    do r0' <- sub32 row_end row_start;
    let rows := r0' + 1 in
    let len := sat_mul_usize cols rows in
    let v0 := repeat d (N.to_nat len) in
    do v <- fold_left (fun (acc : outcome (list T)) c =>
              do v <- acc;
              do row <- sub32 (fst (fst c)) row_start;
              do col <- sub32 (snd (fst c)) col_start;
              let idx := sat_mul_usize row cols + col in
              if idx <? len then Ok (list_set v (N.to_nat idx) (snd c)) else Ok v)
            cells (Ok v0);
    Ok (mkRange (row_start, col_start) (row_end, col_end) v)
  end.

(* number of cells from_sparse asks the allocator for: the area of the bounding box of the
   cells, whatever their number (two cells suffice for any area up to 2^64 - 1) *)
Definition requested_from_sparse (cells : list (pos * T)) : N :=
  match cells with
  | [] => 0
  | _ :: _ =>
    let '((row_start, col_start), (row_end, col_end)) := sparse_bounds cells in
    sat_mul_usize (col_end - col_start + 1) (row_end - row_start + 1)
  end.

(* Range::get (relative) *)
Definition get (r : range T) (rel : pos) : option T :=
  let '(row, col) := rel in
  if (width r <=? col) || (height r <=? row) then None
  else nth_error (r_inner r) (N.to_nat (row * width r + col)).

(* Range::get_value (absolute) *)
Definition get_value (r : range T) (p : pos) : option T :=
  let '(sr, sc) := r_start r in
  let '(er, ec) := r_end r in
  if (sr <=? fst p) && (fst p <=? er) && (sc <=? snd p) && (snd p <=? ec)
  then get r (fst p - sr, snd p - sc) else None.

(* Index<(usize,usize)> *)
Definition index2 (r : range T) (rel : pos) : outcome T :=
  let '(row, col) := rel in
  if (col <? width r) && (row <? height r)
  then of_option (nth_error (r_inner r) (N.to_nat (row * width r + col)))
  else Panic.

(* Range::set_value as of the pinned tree + fix commits (see DESIGN.md section 6, F2/F3):
   the model follows the code statement by statement. *)
Definition set_value (r : range T) (p : pos) (v : T) : outcome (range T) :=
  let '(pr, pc) := p in
  let '(sr, sc) := r_start r in
  let '(er, ec) := r_end r in
  if is_empty r then Ok (mkRange p p [v]) else
  if negb ((sr <=? pr) && (sc <=? pc)) then Panic else
  do r1 <-
    match (er <? pr, ec <? pc) with
    | (false, false) => Ok r
    | (true, false) =>
        let len := (pr - er) * width r in
        Ok (mkRange (sr, sc) (pr, ec) (r_inner r ++ repeat d (N.to_nat len)))
    | (e, true) =>
        do hh <- (if e then add32 (pr - sr) 1 else Ok (height r));
        do w <- add32 (pc - sc) 1;
        let old_w := width r in
        if old_w =? 0 then Panic   (* chunks(0) *)
        else
          let empty_tail := repeat d (N.to_nat (w - old_w)) in
          let data := flat_map (fun sce => sce ++ empty_tail) (chunks (N.to_nat old_w) (r_inner r))
                      ++ repeat d (N.to_nat (w * (hh - height r))) in
          Ok (mkRange (sr, sc) (if e then (pr, pc) else (er, pc)) data)
    end;
  let idx := (pr - sr) * width r1 + (pc - sc) in
  if idx <? N.of_nat (length (r_inner r1))
  then Ok (mkRange (r_start r1) (r_end r1) (list_set (r_inner r1) (N.to_nat idx) v))
  else Panic.

(* rows(): chunks(width) of the inner vector, nothing when empty *)
Definition rows (r : range T) : list (list T) :=
  if is_empty r then [] else chunks (N.to_nat (width r)) (r_inner r).

(* cells(): enumerate with i / width, i % width.  With width = 0 the inner vector is empty,
   so the division by zero of the Rust code is never evaluated. *)
Fixpoint enum_from (i : N) (l : list T) : list (N * T) :=
  match l with [] => [] | x :: t => (i, x) :: enum_from (i + 1) t end.
Definition cells (r : range T) : list (N * N * T) :=
  map (fun iv => (fst iv / width r, fst iv mod width r, snd iv)) (enum_from 0 (r_inner r)).
Definition used_cells (r : range T) : list (N * N * T) :=
  filter (fun c => negb (teqb (snd c) d)) (cells r).

(* Range::range (window copy) *)
Definition firstn_skipn_rows (take skip : nat) (l : list (list T)) : list (list T) :=
  skipn skip (firstn take l).

Fixpoint zip_rows (a b : list (list T)) : list (list T * list T) :=
  match a, b with
  | x :: a', y :: b' => (x, y) :: zip_rows a' b'
  | _, _ => []
  end.

(* copy src[sc0..sc1] over dst[dc0..dc1]; slices panic when out of range or of unequal length *)
Definition copy_cols (src dst : list T) (sc0 sc1 dc0 dc1 : nat) : outcome (list T) :=
  if (Nat.ltb (length src) sc1) || (Nat.ltb sc1 sc0) || (Nat.ltb (length dst) dc1) || (Nat.ltb dc1 dc0)
     || negb (Nat.eqb (sc1 - sc0) (dc1 - dc0))
  then Panic
  else Ok (firstn dc0 dst ++ firstn (sc1 - sc0) (skipn sc0 src) ++ skipn dc1 dst).

Fixpoint copy_rows (src_rows : list (list T)) (dst_rows : list (list T))
         (sc0 sc1 dc0 dc1 : nat) : outcome (list (list T)) :=
  match src_rows, dst_rows with
  | s :: src', t :: dst' =>
      do t' <- copy_cols s t sc0 sc1 dc0 dc1;
      do rest <- copy_rows src' dst' sc0 sc1 dc0 dc1;
      Ok (t' :: rest)
  | _, _ => Ok dst_rows
  end.

Definition window (r : range T) (s e : pos) : outcome (range T) :=
  do other <- new s e;
  let '(ssr, ssc) := r_start r in
  let '(ser, sec) := r_end r in
  let '(osr, osc) := s in
  let '(oer, oec) := e in
  let start_row := N.max ssr osr in
  let end_row := N.min ser oer in
  let start_col := N.max ssc osc in
  let end_col := N.min sec oec in
  if is_empty r then Ok other else
  if (end_row <? start_row) || (end_col <? start_col) then Ok other else
  let self_width := width r in
  let other_width := width other in
  let er1 := end_row + 1 in     (* the + 1 is done in usize after the fix: no overflow *)
  let ec1 := end_col + 1 in
  let self_row_start := N.to_nat (start_row - ssr) in
  let self_row_end := N.to_nat (er1 - ssr) in
  let self_col_start := N.to_nat (start_col - ssc) in
  let self_col_end := N.to_nat (ec1 - ssc) in
  let other_row_start := N.to_nat (start_row - osr) in
  let other_row_end := N.to_nat (er1 - osr) in
  let other_col_start := N.to_nat (start_col - osc) in
  let other_col_end := N.to_nat (ec1 - osc) in
  if self_width =? 0 then Panic else     (* chunks(0): F33 *)
  if other_width =? 0 then Panic else
  let self_rows := firstn_skipn_rows self_row_end self_row_start
                     (chunks (N.to_nat self_width) (r_inner r)) in
  let other_all := chunks (N.to_nat other_width) (r_inner other) in
  let other_head := firstn other_row_start other_all in
  let other_mid := firstn_skipn_rows other_row_end other_row_start other_all in
  let other_tail := skipn other_row_end other_all in
  do mid <- copy_rows self_rows other_mid self_col_start self_col_end other_col_start other_col_end;
  Ok (mkRange s e (concat (other_head ++ mid ++ other_tail))).

(* ---------- operation histories ---------- *)
Inductive op : Type :=
| ONew (s e : pos)
| OEmpty
| OFromSparse (cs : list (pos * T))
| OSetValue (p : pos) (v : T)
| OWindow (s e : pos).

Definition step (r : range T) (o : op) : outcome (range T) :=
  match o with
  | ONew s e => new s e
  | OEmpty => Ok empty
  | OFromSparse cs => from_sparse cs
  | OSetValue p v => set_value r p v
  | OWindow s e => window r s e
  end.

Fixpoint run (r : range T) (ops : list op) : outcome (range T) :=
  match ops with
  | [] => Ok r
  | o :: rest => do r' <- step r o; run r' rest
  end.

End Range.

Arguments ONew {T} s e.
Arguments OEmpty {T}.
Arguments OFromSparse {T} cs.
Arguments OSetValue {T} p v.
Arguments OWindow {T} s e.
Arguments empty {T}.
