(* ReaderCache.v — the xlsx reader's two lazily filled caches as part of the reader state machine
   (property C07).  src/xlsx/mod.rs: `merged_regions: Option<Vec<…>>` filled by
   `load_merged_regions` (only when it is None), read by `merged_regions` /
   `merged_regions_by_sheet` (`.expect(…)`: a panic when nothing was loaded); `tables:
   Option<Vec<…>>` filled by `load_tables`, read by `table_names`, `table_names_in_sheet`,
   `table_by_name` (which also reads the sheet's range under the header-row option in force).
   Every other read call (worksheet_range*, worksheet_formula, worksheet_merge_cells, vba_project,
   metadata) re-opens the part it needs and leaves both caches alone.
   What the file determines is a parameter: [file_merged] / [file_tables] are the outcomes of
   `read_merged_regions` / `read_table_metadata` on the file, [sem] the answers of the other calls.
   Definitions only; proofs in ReaderCache_proofs.v. *)
From Calamine Require Import Prelude HeaderRow.
Set Implicit Arguments.

Section ReaderCache.
Variable Name : Type.          (* sheet / table names *)
Variable Call : Type.          (* the read calls that do not touch a cache *)
Variable MR TB : Type.         (* the merged-region table and the table-metadata table of a file *)
Variable Result : Type.        (* canonical answers of the cache-free calls *)

Variable file_merged : option MR.      (* Some m: read_merged_regions succeeds with m; None: Err *)
Variable file_tables : option TB.      (* likewise for read_table_metadata *)
Variable sem : header_row -> Call -> Result.

Inductive kop : Type :=
| KSetHeader (h : header_row)
| KLoadMerged                  (* load_merged_regions *)
| KMergedAll                   (* merged_regions *)
| KMergedBy (n : Name)         (* merged_regions_by_sheet *)
| KLoadTables                  (* load_tables *)
| KTableNames                  (* table_names *)
| KTablesIn (n : Name)         (* table_names_in_sheet *)
| KTableBy (n : Name)          (* table_by_name *)
| KOther (c : Call).

Inductive kans : Type :=
| ANone                                    (* with_header_row returns the reader *)
| ALoaded (ok : bool)                      (* Ok(()) / Err of a load call *)
| AMerged (m : MR)
| AMergedBy (m : MR) (n : Name)            (* the filter by sheet name, applied by the caller's spec *)
| ATableNames (t : TB)
| ATablesIn (t : TB) (n : Name)
| ATableBy (t : TB) (h : header_row) (n : Name)   (* metadata + the sheet window under option h *)
| AResult (r : Result)
| APanic.                                  (* .expect(…) on a cache that was never loaded *)

Record kstate : Type := mkK { k_hdr : header_row; k_merged : option MR; k_tables : option TB }.
Definition kinit : kstate := mkK FirstNonEmptyRow None None.

Definition kstep (s : kstate) (o : kop) : kstate * kans :=
  match o with
  | KSetHeader h => (mkK h (k_merged s) (k_tables s), ANone)
  | KLoadMerged =>
      match k_merged s with
      | Some _ => (s, ALoaded true)
      | None => match file_merged with
                | Some m => (mkK (k_hdr s) (Some m) (k_tables s), ALoaded true)
                | None => (s, ALoaded false)
                end
      end
  | KMergedAll => (s, match k_merged s with Some m => AMerged m | None => APanic end)
  | KMergedBy n => (s, match k_merged s with Some m => AMergedBy m n | None => APanic end)
  | KLoadTables =>
      match k_tables s with
      | Some _ => (s, ALoaded true)
      | None => match file_tables with
                | Some t => (mkK (k_hdr s) (k_merged s) (Some t), ALoaded true)
                | None => (s, ALoaded false)
                end
      end
  | KTableNames => (s, match k_tables s with Some t => ATableNames t | None => APanic end)
  | KTablesIn n => (s, match k_tables s with Some t => ATablesIn t n | None => APanic end)
  | KTableBy n => (s, match k_tables s with Some t => ATableBy t (k_hdr s) n | None => APanic end)
  | KOther c => (s, AResult (sem (k_hdr s) c))
  end.

Fixpoint krun (s : kstate) (ops : list kop) : kstate * list kans :=
  match ops with
  | [] => (s, [])
  | o :: rest =>
      let '(s1, a) := kstep s o in
      let '(s2, l) := krun s1 rest in
      (s2, a :: l)
  end.

(* what a history has done, read off the history alone *)
Fixpoint khdr (h0 : header_row) (ops : list kop) : header_row :=
  match ops with
  | [] => h0
  | KSetHeader h :: rest => khdr h rest
  | _ :: rest => khdr h0 rest
  end.

Definition is_load_merged (o : kop) : bool := match o with KLoadMerged => true | _ => false end.
Definition is_load_tables (o : kop) : bool := match o with KLoadTables => true | _ => false end.

(* the cache content after a history: the file's table once a load call has been made (and the
   file's part is readable), nothing otherwise *)
Definition merged_after (ops : list kop) : option MR :=
  if existsb is_load_merged ops then file_merged else None.
Definition tables_after (ops : list kop) : option TB :=
  if existsb is_load_tables ops then file_tables else None.

(* the specified answer of one call made after the history [ops] *)
Definition kspec (ops : list kop) (o : kop) : kans :=
  let h := khdr FirstNonEmptyRow ops in
  match o with
  | KSetHeader _ => ANone
  | KLoadMerged => ALoaded (match merged_after (ops ++ [KLoadMerged]) with Some _ => true | None => false end)
  | KMergedAll => match merged_after ops with Some m => AMerged m | None => APanic end
  | KMergedBy n => match merged_after ops with Some m => AMergedBy m n | None => APanic end
  | KLoadTables => ALoaded (match tables_after (ops ++ [KLoadTables]) with Some _ => true | None => false end)
  | KTableNames => match tables_after ops with Some t => ATableNames t | None => APanic end
  | KTablesIn n => match tables_after ops with Some t => ATablesIn t n | None => APanic end
  | KTableBy n => match tables_after ops with Some t => ATableBy t h n | None => APanic end
  | KOther c => AResult (sem h c)
  end.

End ReaderCache.

Arguments KLoadMerged {Name Call}.
Arguments KMergedAll {Name Call}.
Arguments KLoadTables {Name Call}.
Arguments KTableNames {Name Call}.
Arguments KSetHeader {Name Call} h.
Arguments KOther {Name Call} c.
Arguments kinit : clear implicits.
Arguments ANone {Name MR TB Result}.
Arguments APanic {Name MR TB Result}.
Arguments ALoaded {Name MR TB Result} ok.
Arguments KMergedBy {Name Call} n.
Arguments KTablesIn {Name Call} n.
Arguments KTableBy {Name Call} n.
Arguments AMerged {Name MR TB Result} m.
Arguments AMergedBy {Name MR TB Result} m n.
Arguments ATableNames {Name MR TB Result} t.
Arguments ATablesIn {Name MR TB Result} t n.
Arguments ATableBy {Name MR TB Result} t h n.
Arguments AResult {Name MR TB Result} r.
