# P5: shared strings / styles parts under other names (located by workbook.xml.rels)
from xlsx_base import *
sst = DECL + '<sst xmlns="%s" count="1" uniqueCount="1"><si><t>hello</t></si></sst>' % NS
sty = styles('<numFmt numFmtId="164" formatCode="yyyy\\-mm\\-dd"/>', '<xf numFmtId="0"/><xf numFmtId="164" applyNumberFormat="1"/>')
rels = wbrels((('rId1','worksheet','worksheets/sheet1.xml'),('rId2','sharedStrings','strings/sst.xml'),('rId3','styles','style/st.xml')))
p = build('xlsx_5_parts_by_rel.xlsx', sheet('<row r="1"><c r="A1" t="s"><v>0</v></c><c r="B1" s="1"><v>44000</v></c></row>'), rels=rels,
          more=[('xl/strings/sst.xml', sst), ('xl/style/st.xml', sty)])
run(p)
