"""C06 — malformed or hostile files yield an error, never a panic, hang or memory blow-up.
Partial by nature (DESIGN.md section 5/C06).  Parts:
 1. proof: Properties/C06.v re-exports, with the same statements, the totality (no Panic / fuel)
    theorems of every slice — one per parser entry point, grouped by format — and adds the
    allocation bound of the sector-chain walk (Totality.v on Cfb.v's model).  Its header lists which
    entry points have NO theorem.  The models are tied to the code by the correspondence checks of
    the slices that own them (./check C01 … C20), not again here;
 2. function-level malformed streams: every other property module that exposes `malformed(ctx)`;
 3. whole-file fault enumeration through every reader and every read call (`open … everything`),
    under a capped allocator (relative to the input size), a per-case watchdog, a 2 MiB stack and an
    address-space limit:
      a. corpus/C06: one witness per failure site that was repaired (a reverted fix fails here
         first) and one per known finding;
      b. systematic pass: for a few seed files, each structure (BIFF / xlsb record, CFB header field,
         FAT / DIFAT / mini FAT / directory entry, zip member, XML element, attribute and text, VBA dir
         record, compressed chunk) x each truncation length x each boundary value — no randomness;
      c. random single- and multi-fault mutations (blind and record-aware) of every fixture.
A failure is keyed `file::function::class` from the innermost calamine frame of the backtrace that
is not a src/utils.rs helper — never a line number — and compared with notes/C06_known.json."""
import hashlib, importlib, json, os, re, shutil, time, warnings, vlib, mutate

warnings.filterwarnings("ignore", category=UserWarning, module="zipfile")

ASSUMPTIONS = [
    "allocation blow-up = a single request above 64 MiB + 1000 x input size (capped allocator; never above 512 MiB) or exhaustion of a 4 GB address space; hang = a case exceeding the 10 s watchdog (inputs are below 2 MB); unbounded recursion = overflow of a 2 MiB stack (the default of a Rust thread; the case runs on a thread of that size)",
    "zip and quick-xml internals, the allocator and real time are sampled by this run only, not modelled",
    "the totality theorems of Properties/C06.v are those of the slices' models (tied to the code by the slices' own correspondence checks); the entry points listed in its header as having no theorem are covered by the fault enumeration only",
]
FMT_EXT = {"xlsx": "xlsx", "xlsb": "xlsb", "xls": "xls", "ods": "ods"}
ENV = {"VH_PANIC_INFO": "1", "VH_CASE_TIMEOUT_MS": "10000", "VH_ALLOC_REL": "67108864:1000", "VH_STACK_MB": "2"}
CORPUS = os.path.join(vlib.ROOT, "corpus", "C06")
KNOWN_FILE = os.path.join(vlib.ROOT, "notes", "C06_known.json")
_fn_cache = {}

# ------------------------------------------------------------------ failure keys

def enclosing_fn(path, line):
    """name of the function that contains path:line (nearest preceding `fn name`)"""
    key = (path, line)
    if key in _fn_cache:
        return _fn_cache[key]
    name = "?"
    try:
        src = open(path, errors="replace").read().split("\n")
        for i in range(min(line, len(src)) - 1, -1, -1):
            m = re.match(r"\s*(?:pub(?:\([a-z]+\))?\s+)?(?:const\s+|unsafe\s+|async\s+)*fn\s+([A-Za-z_0-9]+)", src[i])
            if m:
                name = m.group(1)
                break
    except OSError:
        pass
    _fn_cache[key] = name
    return name

def failure_class(msg):
    m = msg.lower()
    if "verif-alloc-cap" in m or "capacity overflow" in m or "memory allocation" in m:
        return "alloc"
    if "index out of bounds" in m or "out of range for slice" in m or "slice index" in m or "range end index" in m \
       or "range start index" in m or "byte index" in m or "mid > len" in m or "removal index" in m or "is out of bounds" in m \
       or "char boundary" in m:
        return "index"
    if "overflow" in m or "attempt to" in m:
        return "overflow"
    if "unwrap()" in m or "expect" in m or "called `option" in m or "called `result" in m:
        return "unwrap"
    if "assert" in m or "invalid range bounds" in m:
        return "assert"
    if "not implemented" in m or "unreachable" in m or "not yet implemented" in m:
        return "unimplemented"
    if "chunk size must be non-zero" in m or "chunks" in m:
        return "index"
    if "no entry found for key" in m:
        return "index"
    return "panic"

def repo_src():
    return os.path.join(os.environ.get("VERIF_REPO", vlib.REPO), "src")

def symbol_site(sym):
    """'calamine::xlsx::cells_reader::XlsxCellReader::next_formula::h…' -> ('xlsx/cells_reader.rs', 'next_formula')"""
    s = re.sub(r"::h[0-9a-f]{16}$", "", sym.strip())
    s = s.split(" as ")[0]                      # <calamine::auto::Sheets<RS> as calamine::ReaderRef<RS>>::f
    tail = re.sub(r"<[^<>]*>", "", sym)         # function name: last identifier of the whole symbol
    while re.search(r"<[^<>]*>", tail):
        tail = re.sub(r"<[^<>]*>", "", tail)
    tail = re.sub(r"::h[0-9a-f]{16}$", "", tail.strip())
    idents = [x for x in re.split(r"::", tail) if re.match(r"^[A-Za-z_][A-Za-z_0-9]*$", x.strip(">< "))]
    fn = idents[-1].strip(">< ") if idents else "?"
    while re.search(r"<[^<>]*>", s):
        s = re.sub(r"<[^<>]*>", "", s)
    segs = [x.strip("<> ") for x in s.split("::")]
    segs = segs[1:] if segs and segs[0].endswith("calamine") else segs
    mods = []
    for x in segs:
        if re.match(r"^[a-z_][a-z_0-9]*$", x):
            mods.append(x)
        else:
            break
    src = repo_src()
    f = "lib.rs"
    for k in range(len(mods), 0, -1):
        cand = ["/".join(mods[:k]) + ".rs", "/".join(mods[:k]) + "/mod.rs"]
        hit = [c for c in cand if os.path.exists(os.path.join(src, c))]
        if hit:
            f = hit[0]
            break
    return f, fn

def failure_key(info):
    """'<message> @ <site>' -> 'file::function::class' (no line numbers)"""
    msg, _, loc = info.rpartition(" @ ")
    cls = failure_class(msg)
    loc = loc.strip()
    if loc.startswith("fn:"):
        f, fn = symbol_site(loc[3:])
        return "%s::%s::%s" % (f, fn, cls)
    m = re.match(r"(.*):(\d+)$", loc)
    if not m:
        return "unknown::?::" + cls
    path, line = m.group(1), int(m.group(2))
    fn = enclosing_fn(path, line)
    if "/src/" in path and (path.startswith(vlib.REPO + "/") or path.startswith(os.environ.get("VERIF_REPO", "\0"))):
        short = path.split("/src/", 1)[-1]
    elif "/registry/src/" in path:
        crate = path.split("/registry/src/", 1)[1].split("/", 2)
        short = crate[1] + "/" + crate[2] if len(crate) > 2 else crate[-1]
        short = re.sub(r"-\d+\.\d+\.\d+[^/]*", "", short)
    elif "/rustc/" in path or "/library/" in path:
        short = "std/" + path.split("/library/", 1)[-1]
    else:
        short = path
    return "%s::%s::%s" % (short, fn, cls)

def load_known(ctx):
    """known findings of this property: known_findings.json plus notes/C06_known.json (the list
    this slice delivers; merged into ctx.known so that the check prints the texts)"""
    have = {f["id"] for f in ctx.known.get("findings", []) if f.get("property") == "C06"}
    if os.path.exists(KNOWN_FILE):
        for f in json.load(open(KNOWN_FILE)):
            if f["id"] not in have:
                ctx.known.setdefault("findings", []).append(f)
    return {f["id"]: f for f in ctx.known.get("findings", []) if f.get("property") == "C06"}

def classify_answer(ans):
    """-> (outcome class, key or None).  outcome: ok | err | panic | alloc | timeout | abort"""
    if ans is None:
        return "abort", "process::abort::abort"
    if ans == "timeout":
        return "timeout", "process::watchdog::hang"
    if ans == "abort":
        return "abort", "process::abort::abort"
    last = ans.split(";;")[-1]
    if last.startswith(("panic", "alloc")):
        parts = last.split("\t", 1)
        info = parts[1] if len(parts) > 1 else ""
        return parts[0], failure_key(info)
    if ans.startswith("openerr") or "err" in last[:4]:
        return "err", None
    return "ok", None

# ------------------------------------------------------------------ running cases

class Batch:
    """cases = (fmt, source name, fault kind, bytes); written to a temp dir, run through the reader
    of their format and through the auto-detecting one, classified, then removed"""
    def __init__(self, ctx, tag, auto_every=1, size=6000):
        self.ctx, self.tag, self.auto_every, self.size = ctx, tag, auto_every, size
        self.tmp = vlib.tmpdir(ctx)
        self.lines, self.meta, self.k = [], {}, 0
        self.known = load_known(ctx)
        self.failures = {}          # key -> [(bytes size, fmt, reader, kind, source, path)]
        self.collect = None         # when set: dict key -> list of witnesses (corpus building)

    def add(self, fmt, src, kind, data, readers=None):
        path = os.path.join(self.tmp, "%s%d.%s" % (self.tag, self.k, FMT_EXT[fmt]))
        with open(path, "wb") as f:
            f.write(data)
        rds = readers or ([fmt, "auto"] if self.k % self.auto_every == 0 else [fmt])
        for rd in rds:
            lid = "%s%d%s" % (self.tag, self.k, "A" if rd == "auto" else rd[0] if rd in ("ods",) else rd[:4])
            self.lines.append("%s\topen\t%s\t%s\teverything" % (lid, rd, path))
            self.meta[lid] = (fmt, src, kind, path, rd, len(data))
        self.k += 1
        if len(self.lines) >= self.size:
            self.flush()

    def flush(self):
        ctx = self.ctx
        if not self.lines:
            return
        t0 = time.time()
        impl = ctx.run_impl(self.lines, timeout=1500, env=ENV)
        # a timeout or an abort may be an artefact of machine load: re-run such cases alone, with
        # the same limit, and believe only what reproduces
        retry = [l for l in self.lines if classify_answer(impl.get(l.split("\t", 1)[0]))[0] in ("timeout", "abort")]
        if retry:
            ctx.count("retried_alone", len(retry))
            for l in retry[:60]:
                r = vlib.run_exe(vlib.VH, [l], timeout=60, shards=1, env=ENV)
                impl.update(r)
        ctx.count("phase_s:" + self.tag, round(time.time() - t0, 1))
        for lid, (fmt, src, kind, path, rd, size) in self.meta.items():
            out, key = classify_answer(impl.get(lid))
            ctx.count("outcome:" + out)
            ctx.traces += 1
            if out in ("ok", "err"):
                ctx.nontrivial(lid + kind)
                continue
            if self.collect is not None:
                self.collect.setdefault(key, []).append((size, fmt, rd, kind, src, open(path, "rb").read(),
                                                          (impl.get(lid) or out).split(";;")[-1][:200]))
                continue
            if key in self.known:
                ctx.known_hits.setdefault(key, {"file": src, "mutation": kind, "reader": rd})
                continue
            if key not in self.failures:
                keep = os.path.join(vlib.ROOT, "replays", "C06-" + hashlib.sha1(key.encode()).hexdigest()[:10] + "." + FMT_EXT[fmt])
                os.makedirs(os.path.dirname(keep), exist_ok=True)
                shutil.copy(path, keep)
                self.failures[key] = keep
                ctx.violations.append({"case": "open %s %s everything" % (rd, keep), "expected": "Ok or Err",
                                       "actual": (impl.get(lid) or "abort").split(";;")[-1][:300], "model": "",
                                       "what": "%s at %s (fault %s on %s, reader %s)" % (out, key, kind, src, rd)})
        for (_, _, _, path, _, _) in self.meta.values():
            try:
                os.remove(path)
            except OSError:
                pass
        self.lines, self.meta = [], {}

    def close(self):
        self.flush()
        shutil.rmtree(self.tmp, ignore_errors=True)

def fixture(name):
    # seed files of our own (corpus/C06/seed_*): shapes no repository fixture has
    if name.startswith("seed_"):
        return os.path.join(CORPUS, name)
    return os.path.join(vlib.FIXTURE_DIR, name)

def all_fixtures():
    src = [(vlib.fmt_of_ext(e), p) for e, p in vlib.fixtures(("xlsx", "xlsm", "xlsb", "xls", "ods", "xla", "xlam"))]
    return [(f, p) for f, p in src if os.path.getsize(p) < 2_000_000]

# seeds of the systematic pass: (fixture, which generators)
SEEDS_QUICK = [
    ("issues.xls", "xls", ("cfb", "biff", "vba")),          # BIFF8: SST, formulas, names, extern sheets, VBA project
    ("biff5_write.xls", "xls", ("biff",)),                   # BIFF5: Label, Number, BoolErr
    ("merge_cells.xls", "xls", ("biff-only", (0x00E5, 0x00BD, 0x027E, 0x0200))),
    ("issues.xlsb", "xlsb", ("zip", "xlsb")),
    ("date.xlsb", "xlsb", ("xlsb-parts", r"styles\.bin")),      # custom number formats (BrtFmt)
    ("issues.xlsx", "xlsx", ("zip", "xml")),
    ("temperature-table.xlsx", "xlsx", ("xml-parts", r"(tables/|_rels/sheet)")),
    ("vba.xlsm", "xlsx", ("vba",)),
    ("any_sheets.ods", "ods", ("zip", "xml")),
    ("with-annotation.ods", "ods", ("xml-parts", r"content\.xml")),
]
SEEDS_QUICK += [
    # worksheets with chart substreams nested in them (one and two levels deep): every record of the
    # sheet AND of the nested substreams cut, resized and overrun
    ("seed_embedded_chart.xls", "xls", ("biff",)),
    ("seed_two_charts_nested.xls", "xls", ("biff",)),
]
SEEDS_THOROUGH = SEEDS_QUICK + [
    ("any_sheets.xls", "xls", ("cfb", "biff", "vba")),
    ("date.xls", "xls", ("biff",)),
    ("xls_formula.xls", "xls", ("biff",)),
    ("any_sheets.xlsb", "xlsb", ("zip", "xlsb")),
    ("date.xlsb", "xlsb", ("xlsb",)),
    ("any_sheets.xlsx", "xlsx", ("zip", "xml")),
    ("merge_cells.xlsx", "xlsx", ("xml",)),
    ("richtext-namespaced.xlsx", "xlsx", ("xml",)),
    ("issue221.xlsm", "xlsx", ("vba",)),
    ("number_rows_repeated.ods", "ods", ("xml",)),
    ("covered.ods", "ods", ("xml",)),
]

def seed_faults(fmt, data, gens, per_key):
    g = gens[0]
    if g == "biff-only":
        name, stream = mutate.xls_workbook_stream(data)
        if stream is None:
            return
        c = mutate.Cfb(data)
        others = c.streams()
        recs = mutate.biff_records(stream)
        done = set()
        for i, (o, t, b) in enumerate(recs):
            if t in gens[1] and t not in done:
                done.add(t)
                for kind, nb in mutate.body_faults(b, window=48):
                    m = list(recs)
                    m[i] = (o, t, nb)
                    ns = mutate.biff_join(m)
                    yield "biff-%04x#%d-%s" % (t, i, kind), mutate.cfb_rebuild([(n, ns if n == name else x) for n, x in others])
        return
    if g == "xlsb-parts":
        members = mutate.zip_members(data)
        for n, b in members:
            if re.search(gens[1], n):
                for kind, nb in mutate.systematic_xlsb_part(b, per_key=per_key):
                    yield "%s@%s" % (kind, n), mutate.zip_replace(members, n, nb)
        return
    if g == "xml-parts":
        yield from mutate.crafted_xlsx_layouts(data)
        members = mutate.zip_members(data)
        extra = mutate.ODS_EXTRA if fmt == "ods" else mutate.XLSX_EXTRA
        for n, b in members:
            if re.search(gens[1], n) and (n.endswith((".xml", ".rels"))):
                for kind, nb in mutate.systematic_xml(b, extra):
                    yield "%s@%s" % (kind, n), mutate.zip_replace(members, n, nb)
        return
    for g in gens:
        if g == "cfb":
            yield from mutate.systematic_cfb(data)
        elif g == "biff":
            yield from mutate.systematic_xls(data, per_key=per_key)
        elif g == "vba":
            yield from mutate.systematic_vba(fmt, data)
        elif g == "zip":
            yield from mutate.systematic_zip_container(data)
        elif g == "xlsb":
            yield from mutate.systematic_xlsb(data, per_key=per_key)
        elif g == "xml":
            yield from mutate.systematic_zip_xml(fmt, data)

def run_systematic(ctx, batch=None):
    own = batch is None
    b = batch or Batch(ctx, "s", auto_every=4)
    seeds = SEEDS_THOROUGH if ctx.tier == "thorough" else SEEDS_QUICK
    for (name, fmt, gens) in seeds:
        p = fixture(name)
        if not os.path.exists(p):
            ctx.notes.append("seed fixture missing: " + name)
            continue
        data = open(p, "rb").read()
        n = 0
        for kind, mut in seed_faults(fmt, data, gens, 2 if ctx.tier == "thorough" else 1):
            b.add(fmt, name, kind, mut)
            n += 1
        ctx.count("systematic:" + name, n)
    if own:
        b.close()

def run_random(ctx, n_mut, batch=None):
    own = batch is None
    b = batch or Batch(ctx, "m", auto_every=1)
    srcs = all_fixtures()
    for (f, p) in srcs:
        data = open(p, "rb").read()
        for j in range(n_mut):
            faults = 1 if ctx.rng.random() < 0.7 else ctx.rng.randrange(2, 5)
            if ctx.rng.random() < 0.5:
                kind, mut = mutate.mutate_file(f, data, ctx.rng, faults)
            else:
                kind, mut = mutate.mutate_structured(f, data, ctx.rng, faults)
            b.add(f, os.path.basename(p), kind, mut)
            ctx.count("mut:" + re.sub(r"[@:#\[=].*", "", kind.split("+")[0]))
            ctx.count("fmt:" + f)
    ctx.sample({"random_mutations_per_file": n_mut, "files": len(srcs)})
    if own:
        b.close()

def run_corpus(ctx):
    """corpus/C06: witnesses of repaired failure sites (must be Ok/Err now) and of known findings"""
    idx = os.path.join(CORPUS, "index.json")
    if not os.path.exists(idx):
        ctx.notes.append("no corpus/C06/index.json")
        return
    b = Batch(ctx, "c", auto_every=1)
    entries = json.load(open(idx))
    for e in entries:
        p = os.path.join(CORPUS, e["file"])
        if not os.path.exists(p):
            ctx.notes.append("corpus file missing: " + e["file"])
            continue
        b.add(e["fmt"], "corpus/" + e["file"], e.get("fault", "") + " [was " + e.get("key", "?") + "]", open(p, "rb").read(),
              readers=[e.get("reader", e["fmt"])])
    ctx.count("corpus_files", len(entries))
    b.close()

def run_valid_fixtures(ctx):
    """the unmutated fixtures under the same limits: the relative allocation cap and the watchdog
    must not flag legitimate behaviour"""
    b = Batch(ctx, "v", auto_every=1)
    for (f, p) in all_fixtures():
        b.add(f, os.path.basename(p), "unmutated", open(p, "rb").read())
    b.close()

def run_function_level(ctx):
    """malformed streams of the other properties' modules (model predicts the outcome class)"""
    pdir = os.path.dirname(os.path.abspath(__file__))
    for f in sorted(os.listdir(pdir)):
        if not re.match(r"c\d+\.py$", f) or f == "c06.py":
            continue
        try:
            mod = importlib.import_module("props." + f[:-3])
        except Exception as e:
            ctx.notes.append("could not import %s: %s" % (f, e))
            continue
        if hasattr(mod, "malformed"):
            before = (len(ctx.violations), len(ctx.disagreements))
            try:
                mod.malformed(ctx)
                ctx.count("function_level:" + f[:-3])
            except Exception as e:
                ctx.notes.append("malformed stream of %s failed to run: %s" % (f, e))
            # a disagreement on a malformed input where the code panics and the model does not is
            # a C06 violation with that input as the replay
            for dg in ctx.disagreements[before[1]:]:
                if str(dg.get("impl", "")).startswith(("panic", "alloc", "timeout", "abort")):
                    ctx.violations.append({"case": dg.get("case"), "expected": "Ok or Err (model: %s)" % str(dg.get("model"))[:80],
                                           "actual": str(dg.get("impl"))[:200], "model": str(dg.get("model"))[:200],
                                           "what": "unpredicted failure in %s" % dg.get("function", f[:-3])})

def run(ctx):
    load_known(ctx)
    run_corpus(ctx)
    run_valid_fixtures(ctx)
    run_function_level(ctx)
    run_systematic(ctx)
    run_random(ctx, ctx.scale(6, 600))

def search(ctx):
    run_random(ctx, ctx.scale(60, 600))

def run_only(ctx, what):
    load_known(ctx)
    for w in what.split(","):
        if w == "random":
            run_random(ctx, ctx.scale(40, 300))
        elif w == "systematic":
            run_systematic(ctx)
        elif w == "corpus":
            run_corpus(ctx)
        elif w == "valid":
            run_valid_fixtures(ctx)
        elif w == "function":
            run_function_level(ctx)
        elif w == "buildcorpus":
            build_corpus(ctx)

def replay(ctx, rep):
    case = rep.get("case", "") or ""
    if "\t" in case:
        # a correspondence case (function-level): the stored line itself, through both sides
        impl, model = ctx.run_both([case])
        lid = case.split("\t", 1)[0]
        print("impl :", impl.get(lid)); print("model:", model.get(lid))
        return 0 if impl.get(lid) == model.get(lid) and impl.get(lid) is not None else 1
    m = re.match(r"open (\S+) (\S+) everything", case)
    if not m:
        print("cannot replay:", case); return 2
    line = "r\topen\t%s\t%s\teverything" % (m.group(1), m.group(2))
    out = ctx.run_impl([line], env=ENV)
    print(out.get("r"))
    o, key = classify_answer(out.get("r"))
    print("outcome:", o, "key:", key)
    return 0 if o in ("ok", "err") else 1

# ------------------------------------------------------------------ corpus building (development)

def build_corpus(ctx, n_random=40, per_group=1):
    """Runs the systematic pass (thorough seeds) and random faults against the tree named by
    VERIF_REPO (meant: the tree BEFORE the hardening commits) and keeps, for every distinct panic
    site (failure key + source line on that tree), the smallest failing file under corpus/C06."""
    global ENV
    old_env = ENV
    ENV = dict(ENV, VH_PANIC_LOC="1")
    coll = {}
    tier = ctx.tier
    ctx.tier = "thorough"
    b = Batch(ctx, "b", auto_every=3)
    b.collect = coll
    run_systematic(ctx, b)
    b.flush()
    b.auto_every = 1
    run_random(ctx, n_random, b)
    b.close()
    ctx.tier = tier
    ENV = old_env
    groups = {}
    for key, ws in coll.items():
        for (size, fmt, rd, kind, src, data, ans) in ws:
            m = re.search(r"\[at ([^\]]*)\]", ans)
            site = m.group(1) if m else re.sub(r"[#@=\[].*", "", kind)
            site = re.sub(r"^.*/src/", "", site)
            g = (key, site)
            groups.setdefault(g, []).append((size, kind, fmt, rd, src, data, ans))
    os.makedirs(CORPUS, exist_ok=True)
    idx_path = os.path.join(CORPUS, "index.json")
    entries = json.load(open(idx_path)) if os.path.exists(idx_path) else []
    have = {(e["key"], e.get("site")) for e in entries}
    n = len(entries)
    for g in sorted(groups):
        if g in have:
            continue
        ws = sorted(groups[g], key=lambda w: (w[0], w[1]))
        for (size, kind, fmt, rd, src, data, ans) in ws[:per_group]:
            name = "w%03d.%s" % (n, FMT_EXT[fmt])
            open(os.path.join(CORPUS, name), "wb").write(data)
            entries.append({"file": name, "fmt": fmt, "reader": rd, "key": g[0], "site": g[1], "fault": kind, "source": src,
                            "was": re.sub(r"\s+", " ", ans)[:160]})
            n += 1
    json.dump(entries, open(idx_path, "w"), indent=1)
    print("corpus: %d groups, %d entries" % (len(groups), len(entries)))
    for g in sorted(groups):
        print("   %-60s %-34s %5d cases" % (g[0], g[1], len(groups[g])))
