"""C01 — XLSX: every cell reads back at its position with its value and type, whatever the legal
physical encoding.

Correspondence, end to end.  A case is a logical sheet (sparse cells anywhere in A1..XFD1048576 and
a little beyond, every cell type and style) together with one physical encoding of it (explicit or
implicit row / cell references, dimension absent / exact / wrong, shared / inline / formula strings,
ignorable elements and white space everywhere the reader skips them, a namespace prefix, empty
rows, style-only cells).  The EXTRACTED Coq encoder (vm `xlsxsheet enc`) turns it into the event
list, and answers with the model (M), the specification (S), the known class and legal_sheet;
tools/textgen.py serialises those very events, tools/xlsxgen_c01.py zips them into a real .xlsx,
and the harness command `xlsxsheet open` reads the file through Xlsx::new + worksheet_range +
worksheet_range_ref (+ worksheets()).  impl vs M is the tie, impl vs S on legal cases outside the
known classes is the search.  Workbook-level cases vary 1..n sheets, part-name case, relationship
target spelling, prefixes in workbook.xml / .rels and the zip method against the model
`workbook_ranges`.  get_row_and_optional_column is swept exhaustively over all 16384 columns
through the hook (command col26 groc)."""
import os, hashlib
import vlib
from textgen import S, E, T, C, O, hx, unhx, wire, unwire, qn, NS_MAIN, NS_REL, NS_PKG, col_name
import xlsxgen_c01 as g

ASSUMPTIONS = [
    "quick-xml maps the serialiser's output back to the intended events (tokenisation, unescaping, empty-element expansion, XML declaration = an ignored event); zip returns the stored bytes whatever the compression method",
    "str::parse::<f64> is an oracle of the model (parse_f64); the check instantiates it with a hand-written acceptor of Rust's float grammar + strtod",
    "the shared-string table and the cell-format table reach the sheet reader as read_shared_strings (C19) and read_styles (C10) deliver them; the files written here use plain <si><t> items and built-in numFmtIds 0 / 14 / 46",
    "the model's Panic for u32 overflow corresponds to the harness build (overflow checks on)",
]

KNOWN_IDS = {"K2": "F30"}

def tmp(ctx):
    d = os.path.join(vlib.CACHE, "tmp", "c01-%d" % os.getpid())
    os.makedirs(d, exist_ok=True)
    return d

def write_file(ctx, name, data):
    p = os.path.join(tmp(ctx), name)
    with open(p, "wb") as f:
        f.write(data)
    return p

# ------------------------------------------------------------------ expected range from S
def spec_range(spec_cells):
    """S cells 'r:c:V,…' (document order) -> canonical sparse range"""
    if not spec_cells:
        return "R[-]"
    cells = []
    for t in spec_cells.split(","):
        r, c, v = t.split(":", 2)
        cells.append((int(r), int(c), v))
    rs, cs = [x[0] for x in cells], [x[1] for x in cells]
    sr, er, sc, ec = min(rs), max(rs), min(cs), max(cs)
    n = (er - sr + 1) * (ec - sc + 1)
    cells.sort(key=lambda x: (x[0], x[1]))
    return "R[%d,%d,%d,%d|n=%d|%s]" % (sr, sc, er, ec, n, ",".join("%d:%d:%s" % x for x in cells))

def ref_to_data(r):
    """canonical DataRef range -> canonical Data range (SharedString becomes String)"""
    if not r.startswith("R[") or r == "R[-]":
        return r
    head, n, body = r[2:-1].split("|", 2)
    cells = []
    for t in body.split(",") if body else []:
        a, b, v = t.split(":", 2)
        cells.append("%s:%s:%s" % (a, b, "S" + v[1:] if v.startswith("H") else v))
    return "R[%s|%s|%s]" % (head, n, ",".join(cells))

def py_expected(env, sheet):
    """an independent rendering of the documented mapping (guards the Coq spec against typos):
    the set of non-empty cells with kind letters only"""
    out = {}
    for r in sheet["rows"]:
        for c in r["cells"]:
            k = c["val"][0]
            if k == "K":
                continue
            kind = {"N": "F", "S": "S", "B": "B", "X": "X", "I": "T"}[k]
            if k == "N":
                st = c.get("style")
                idx = 0 if st is None else st
                f = env["formats"][idx] if idx < len(env["formats"]) else "o"
                kind = "D" if f in "dt" else "F"
            out[(r["row"], c["col"])] = kind
    return out

# ------------------------------------------------------------------ structured single-sheet cases
def classify_sheet(ctx, cid, line, impl, enc, path, env, sheet):
    f = enc.split("#")
    if len(f) != 6:
        ctx.disagreements.append({"function": "xlsx-encoder", "case": line, "impl": impl, "model": enc})
        return True
    _, m_range, m_ref, spec, known, legal = f
    impl = impl or "abort"
    parts = impl.split(";;")
    i_range, i_ref = (parts + ["?", "?"])[:2]
    keep = False
    if i_range != m_range or i_ref != m_ref:
        ctx.disagreements.append({"function": "worksheet_range(_ref)", "case": line, "impl": impl,
                                  "model": m_range + ";;" + m_ref, "file": path})
        keep = True
    ctx.count("legal" if legal == "1" else "illegal")
    if legal == "1":
        want = spec_range(spec)
        ok = (i_range == want and ref_to_data(i_ref) == want)
        # cross-check S against the independent python rendering (kinds and positions)
        pe = py_expected(env, sheet)
        got = {}
        if spec:
            for t in spec.split(","):
                a, b, v = t.split(":", 2)
                got[(int(a), int(b))] = v[0]
        if known == "-" and pe != got:
            ctx.disagreements.append({"function": "spec-vs-python", "case": line, "impl": str(sorted(pe.items()))[:300],
                                      "model": str(sorted(got.items()))[:300]})
        if known == "-":
            if not ok:
                ctx.violations.append({"case": line, "expected": want, "actual": i_range + ";;" + i_ref,
                                       "model": m_range, "file": path,
                                       "what": "legal encoding of a logical sheet: worksheet_range differs from the bounding rectangle / values the file stores"})
                keep = True
        else:
            ctx.count("known:" + known)
            if not ok:
                fid = KNOWN_IDS.get(known, known)
                if ctx.known_finding(fid) is not None:
                    ctx.known_hits.setdefault(fid, {"case": line, "expected": want, "actual": i_range})
                else:
                    ctx.violations.append({"case": line, "expected": want, "actual": i_range, "model": m_range,
                                           "file": path, "what": "class %s is not a registered finding" % fid})
                    keep = True
    return keep

def run_sheet_batch(ctx, cases, tag):
    """cases: list of (env, sheet, opts)"""
    ids = ["%s%d" % (tag, i) for i in range(len(cases))]
    vm_lines = ["%s\txlsxsheet\tenc\t%s\t%s" % (cid, g.env_wire(env), g.sheet_wire(sh))
                for cid, (env, sh, _) in zip(ids, cases)]
    enc = ctx.run_model(vm_lines)
    vh_lines, meta = [], {}
    for cid, (env, sh, opts), line in zip(ids, cases, vm_lines):
        a = enc.get(cid, "")
        f = a.split("#")
        if len(f) != 6:
            ctx.disagreements.append({"function": "xlsx-encoder", "case": line, "impl": None, "model": a[:300]})
            continue
        xml = g.part_xml(unwire(f[0]), ctx.rng if opts.get("vary_xml", True) else None)
        zip_sheet = opts.get("zip_sheet", "xl/worksheets/sheet1.xml")
        parts = g.single_sheet_parts(env, xml, ctx.rng, target=opts.get("target", "worksheets/sheet1.xml"),
                                     zip_sheet=zip_sheet)
        path = write_file(ctx, cid + ".xlsx", g.package(parts, ctx.rng, opts.get("method")))
        vh_lines.append("%s\txlsxsheet\topen\t%s\trange %s;ref %s" % (cid, path, hx("S"), hx("S")))
        meta[cid] = (line, a, path, env, sh)
    impl = ctx.run_impl(vh_lines)
    for cid, (line, a, path, env, sh) in meta.items():
        keep = classify_sheet(ctx, cid, line, impl.get(cid), a, path, env, sh)
        ctx.traces += 1
        ctx.nontrivial(line.split("\t", 2)[2])
        ctx.count("sheet:file")
        ctx.count("pfx:" + ("yes" if sh.get("pfx") else "no"))
        ctx.count("dim:" + ("absent" if sh.get("dim") is None else "present"))
        for r in sh["rows"]:
            ctx.count("row:" + ("explicit" if r.get("explicit", True) else "implicit"))
            if not r["cells"]:
                ctx.count("row:empty")
            for c in r["cells"]:
                ctx.count("cell:" + ("explicit" if c.get("explicit", True) else "implicit"))
                ctx.count("val:" + c["val"][0] + (":" + (c["sform"] if isinstance(c.get("sform"), str) else "h")
                                                  if c["val"][0] == "S" else ""))
        if len(ctx.samples) < 3:
            ctx.sample({"case": line[:400], "impl": (impl.get(cid) or "")[:200]})
        if not keep:
            try:
                os.remove(path)
            except OSError:
                pass

def structured_cases(rng, n, legal_ratio=0.8):
    out = []
    for i in range(n):
        env = g.gen_env(rng)
        legal = rng.random() < legal_ratio
        sh = g.gen_sheet(rng, env, legal=legal)
        while g.bbox_area(sh) > 1100000:
            sh = g.gen_sheet(rng, env, legal=True, profile="dense")
        opts = {}
        if rng.random() < 0.15:
            opts["target"] = rng.choice(["/xl/worksheets/sheet1.xml", "xl/worksheets/sheet1.xml"])
        if rng.random() < 0.15:
            opts["zip_sheet"] = g.recase(rng, "xl/worksheets/sheet1.xml")
        elif rng.random() < 0.25:
            # a part outside the conventional folder (the relationship Type says it is a worksheet)
            part = rng.choice(["sheet1.xml", "ws/a.xml", "data/s.xml", "chartsheets/sheet1.xml", "a/b/1.xml"])
            opts["target"] = rng.choice(["", "/xl/", "xl/"]) + part
            opts["zip_sheet"] = "xl/" + part
        if rng.random() < 0.2:
            opts["method"] = rng.choice(["stored", "deflated"])
        out.append((env, sh, opts))
    return out

def boundary_cases(rng):
    """the corner / column-edge grid crossed with the reference style, deterministically"""
    out = []
    env0 = {"strings": ["s0", "s1"], "formats": "odt", "is1904": False}
    corner_sets = [[(0, 0)], [(0, g.MAX_COL)], [(g.MAX_ROW, 0)], [(g.MAX_ROW, g.MAX_COL)],
                   [(0, 0), (0, g.MAX_COL)], [(0, 0), (g.MAX_ROW, 0)], [(0, g.MAX_COL), (g.MAX_ROW, g.MAX_COL)],
                   [(g.MAX_ROW, 0), (g.MAX_ROW, g.MAX_COL)]]
    edge_cols = [25, 26, 51, 52, 701, 702, 16383]
    for cells in corner_sets + [[(5, c) for c in edge_cols], [(0, c) for c in range(0, 30)],
                                [(r, 26) for r in (8, 9, 10, 99, 100)]]:
        for style in ("explicit", "implicit-rows", "lower"):
            rows = {}
            for r, c in cells:
                rows.setdefault(r, []).append(c)
            erows, cur = [], 0
            for r in sorted(rows):
                cs, ccur = [], 0
                for c in sorted(rows[r]):
                    cs.append({"col": c, "explicit": style != "implicit-rows" or c != ccur,
                               "lower": style == "lower", "val": ("N", str(r * 100 + c % 97)), "sform": "i"})
                    ccur = c + 1
                erows.append({"row": r, "explicit": not (style == "implicit-rows" and r == cur), "cells": cs})
                cur = r + 1
            pfx = "x" if style == "lower" else ""
            sh = {"pfx": pfx, "dim": None,
                  "pre": [O, S(qn(pfx, "worksheet"), [("xmlns:x" if pfx else "xmlns", NS_MAIN)])],
                  "pre2": [], "junk0": [], "post": [E(qn(pfx, "worksheet"))], "rows": erows}
            out.append((env0, sh, {"vary_xml": False}))
    # every value kind / storage form / style once, fully explicit, all dims
    kinds = [("N", "1.5"), ("N", "43831"), ("S", "s1"), ("S", "inline"), ("S", "fstr"), ("B", True), ("B", False),
             ("I", "2021-01-01"), ("K",)] + [("X", k) for k in range(8)]
    for dim in (None, (0, 0), (0, 0, 3, 30), (7, 7, 9, 9)):
        for tn in (False, True):
            cs = []
            for j, v in enumerate(kinds):
                c = {"col": j * 2, "explicit": True, "val": v, "sform": "i", "tn": tn, "style": j % 4 if j % 3 else None,
                     "alt": (dim is None) != tn}
                if v == ("S", "s1"):
                    c["sform"] = ("h", 1)
                if v == ("S", "fstr"):
                    c["sform"] = "f"; c["formula"] = "A1&\"x\""
                cs.append(c)
            sh = g.simple_sheet([], dim=dim)
            sh["rows"] = [{"row": 2, "explicit": True, "cells": cs}]
            out.append((env0, sh, {"vary_xml": False}))
    # #GETTING_DATA (a known class until it was fixed)
    sh = g.simple_sheet([(0, 0, ("N", "1")), (1, 1, ("X", 7))])
    out.append((env0, sh, {"vary_xml": False}))
    return out

# ------------------------------------------------------------------ raw event lists (robustness of the tie)
def raw_cases(rng, n):
    """hand-made and randomly damaged sheet parts: M only (no S).  Well-formed XML throughout."""
    def c(attrs, *kids):
        return [S("c", attrs)] + [e for k in kids for e in k] + [E("c")]
    def v(s, name="v"):
        return [S(name)] + ([T(s)] if s else []) + [E(name)]
    def row(attrs, *cells):
        return [S("row", attrs)] + [e for k in cells for e in k] + [E("row")]
    def sheet(*rows, dim=None, pre=(), post=()):
        ev = [S("worksheet", [("xmlns", NS_MAIN)])] + list(pre)
        if dim is not None:
            ev += [S("dimension", dim), E("dimension")]
        ev += [S("sheetData")] + [e for r in rows for e in r] + [E("sheetData")] + list(post) + [E("worksheet")]
        return ev
    fixed = [
        # implicit cell after an explicit one; explicit row r resets the implicit row cursor
        sheet(row([("r", "3")], c([("r", "C3")], v("1")), c([], v("2")), c([("r", "F3")], v("3")), c([], v("4"))),
              row([], c([], v("5"))), row([("r", "10")], c([], v("6"))), row([], c([("r", "B11")], v("7")), c([], v("8")))),
        # a cell whose r names another row than its <row>; following implicit cell uses the row cursor
        sheet(row([("r", "2")], c([("r", "B7")], v("1")), c([], v("2")))),
        # row r with letters, lower-case cell reference, $ is rejected
        sheet(row([("r", "A5")], c([("r", "b5")], v("1")))),
        sheet(row([("r", "5")], c([("r", "$B$5")], v("1")))),
        sheet(row([("r", "0")], c([], v("1")))),
        sheet(row([("r", "")], c([], v("1")))),
        sheet(row([], c([("r", "5")], v("1")))),
        sheet(row([], c([("r", "B")], v("1")))),
        sheet(row([], c([("r", "1B")], v("1")))),
        sheet(row([], c([("r", "AAAAAAA1")], v("1")))),            # 7 letters: pow *= 26 overflows
        sheet(row([], c([("r", "FXSHRXX1")], v("1")))),
        sheet(row([], c([("r", "A1000000000")], v("1")))),         # 10 digits: pow *= 10 overflows
        sheet(row([], c([("r", "A4294967295")], v("1")))),
        sheet(row([], c([("r", "A999999999")], v("1")))),
        sheet(row([], c([("r", "ZZZZZZ1")], v("1")))),
        # rows out of order, duplicate positions (last write wins inside the rectangle)
        sheet(row([("r", "5")], c([("r", "A5")], v("1"))), row([("r", "2")], c([("r", "B2")], v("2")))),
        sheet(row([("r", "1")], c([("r", "A1")], v("1")), c([("r", "A1")], v("2")))),
        sheet(row([("r", "2")], c([("r", "C2")], v("1")), c([("r", "A2")], v("2")), c([], v("3")))),
        # typing table: unknown t, inlineStr with <v>, t="is", missing <v>, empty <v>
        sheet(row([], c([("t", "zz")], v("1")))),
        sheet(row([], c([("t", "inlineStr")], v("1")))),
        sheet(row([], c([("t", "is")], v("1")))),
        sheet(row([], c([("t", "n")]), c([("t", "s")]), c([("t", "b")]))),
        sheet(row([], c([("t", "n")], v("")), c([], v("")), c([("t", "str")], v("")), c([("t", "b")], v("")),
                  c([("t", "d")], v("")))),
        sheet(row([], c([("t", "e")], v("")))),
        sheet(row([], c([("t", "s")], v("")))),
        sheet(row([], c([("t", "s")], v("1")))),                     # strings[1]: out of range with 1 string -> panic
        sheet(row([], c([("t", "s")], v("x")))),
        sheet(row([], c([("t", "s")], v("-1")))),
        sheet(row([], c([("t", "s")], v("18446744073709551616")))),
        sheet(row([], c([("t", "s")], v("00000000000000000000")), c([("t", "s")], v("000000000000000000000")))),
        sheet(row([], c([("t", "b")], v("true")), c([("t", "b")], v("false")), c([("t", "b")], v("1")),
                  c([("t", "b")], v("0")), c([("t", "b")], v("00")))),
        sheet(row([], c([("t", "e")], v("#SPILL!")))),
        sheet(row([], c([("t", "e")], v("#GETTING_DATA")))),
        sheet(row([], c([("t", "e")], v("#n/a")))),
        sheet(row([], c([("t", "n")], v("abc")))),
        sheet(row([], c([], v("abc")), c([], v("nan")), c([], v("inf")), c([], v("-Infinity")), c([], v(" 1")),
                  c([], v("1_0")), c([], v("0x10")), c([], v("1e")), c([], v("+")), c([], v(".")), c([], v("1.e5")))),
        # style attribute spellings (s parsed by atoi_simd, 0 on failure); style 1 = date
        sheet(row([], c([("s", "1")], v("5")), c([("s", "01")], v("5")), c([("s", "+1")], v("5")), c([("s", " 1")], v("5")),
                  c([("s", "")], v("5")), c([("s", "2")], v("5")), c([("s", "3")], v("5")), c([("s", "99")], v("5")),
                  c([("s", "00000000000000000001")], v("5")), c([("s", "000000000000000000001")], v("5")),
                  c([("s", "18446744073709551615")], v("5")), c([("s", "18446744073709551616")], v("5")),
                  c([("s", "1"), ("t", "n")], v("5")), c([("s", "1"), ("t", "str")], v("5")))),
        # children order and nesting: <v> then <f> resets to Empty; nested <f>; text pieces and CDATA in <v>
        sheet(row([], c([], v("1"), v("x", "f")), c([], v("x", "f"), v("2")),
                  c([], [S("f"), S("f"), T("a"), E("f"), T("b"), E("f")], v("3")),
                  c([], [S("v"), T("4"), C("2"), O, T("1"), E("v")]),
                  c([], [S("v"), T("7"), S("x"), T("8"), E("x"), E("v")]))),
        sheet(row([], c([], [S("extLst"), E("extLst")]))),             # unexpected child: error
        # inline strings: plain, rich, phonetic, empty, no <t>
        sheet(row([], c([("t", "inlineStr")], [S("is"), S("t"), T("ab"), E("t"), E("is")]),
                  c([("t", "inlineStr")], [S("is"), S("r"), S("t"), T("a"), E("t"), E("r"), S("r"), S("rPr"), E("rPr"), S("t"), T("b"), E("t"), E("r"), E("is")]),
                  c([("t", "inlineStr")], [S("is"), S("t"), T("k"), E("t"), S("rPh"), S("t"), T("ph"), E("t"), E("rPh"), E("is")]),
                  c([("t", "inlineStr")], [S("is"), E("is")]),
                  c([("t", "inlineStr")], [S("is"), S("t"), E("t"), E("is")]),
                  c([], [S("is"), S("t"), T("no t attr"), E("t"), E("is")]))),
        # ST_Xstring escapes (decoded in <t> and in <v> of t="str" only)
        sheet(row([], c([("t", "inlineStr")], [S("is"), S("t"), T("a_x000D_b_x005F_x000D__xD800__x41__x0041_"), E("t"), E("is")]),
                  c([("t", "str")], v("_x000a__x005f__x00e9__xFFFF__x000G__x0041")),
                  c([("t", "d")], v("_x0041_")), c([], v("_x0041_")),
                  c([("t", "inlineStr")], [S("is"), S("r"), S("t"), T("_x00"), E("t"), E("r"), S("r"), S("t"), T("41_"), E("t"), E("r"), E("is")]))),
        # dimension: missing ref, reversed (u32 underflow), three parts, garbage, lower case
        sheet(row([], c([], v("1"))), dim=[]),
        sheet(row([], c([], v("1"))), dim=[("ref", "B2:A1")]),
        sheet(row([], c([], v("1"))), dim=[("ref", "A1:B2:C3")]),
        sheet(row([], c([], v("1"))), dim=[("ref", "")]),
        sheet(row([], c([], v("1"))), dim=[("ref", "A")]),
        sheet(row([], c([], v("1"))), dim=[("ref", "a1:xfd1048576")]),
        sheet(row([], c([], v("1"))), dim=[("x", "1"), ("ref", "C3")]),
        # no sheetData: not a worksheet -> empty range; nothing at all -> error
        [S("chartsheet", [("xmlns", NS_MAIN)]), S("drawing"), E("drawing"), E("chartsheet")],
        [O],
        # sheetData nested deeper, rows outside sheetData are ignored
        [S("worksheet"), S("x"), S("sheetData"), S("row"), S("c"), S("v"), T("1"), E("v"), E("c"), E("row"), E("sheetData"), E("x"),
         S("row"), S("c"), S("v"), T("2"), E("v"), E("c"), E("row"), E("worksheet")],
        # cells directly under sheetData, c inside c
        sheet([S("c", []), S("v"), T("1"), E("v"), E("c")], row([], c([], v("2")))),
        # empty rows move the implicit cursor
        sheet(row([]), row([]), row([], c([], v("1"))), row([("r", "2")], c([], v("2")))),
    ]
    out = [("raw", ev) for ev in fixed]
    return out

def run_raw(ctx, cases, tag):
    env = {"strings": ["only"], "formats": "odt", "is1904": False}
    envw = g.env_wire(env)
    ids = ["%s%d" % (tag, i) for i in range(len(cases))]
    vm_lines, vh_lines, paths = [], [], {}
    for cid, (_, ev) in zip(ids, cases):
        xml = g.part_xml(ev, None)
        parts = g.single_sheet_parts(env, xml, ctx.rng)
        path = write_file(ctx, cid + ".xlsx", g.package(parts, ctx.rng))
        paths[cid] = path
        hdr = "-"
        vm_lines.append("%s\txlsxsheet\trun\t%s\t%s\t%s" % (cid, envw, hdr, g.w(ev)))
        vh_lines.append("%s\txlsxsheet\topen\t%s\trange %s;ref %s" % (cid, path, hx("S"), hx("S")))
    model = ctx.run_model(vm_lines)
    impl = ctx.run_impl(vh_lines)
    for cid, line in zip(ids, vm_lines):
        m = (model.get(cid) or "?").replace("#", ";;")
        i = impl.get(cid) or "abort"
        ctx.traces += 1
        ctx.nontrivial(line.split("\t", 2)[2])
        ctx.count("raw:" + ("panic" if "panic" in i else "err" if "err" in i else "ok"))
        if m != i:
            ctx.disagreements.append({"function": "raw sheet", "case": line, "impl": i, "model": m, "file": paths[cid]})
        else:
            try:
                os.remove(paths[cid])
            except OSError:
                pass

# ------------------------------------------------------------------ workbook-level cases
SHEET_NAMES = ["Sheet1", "Data", "Übersicht", "a b", "S", "Feuil&1", "x'y", "1", "sheet1"]

def gen_workbook(rng, force_relpfx=None):
    n = rng.choice([1, 1, 2, 3, 4])
    names = rng.sample(SHEET_NAMES, n)
    order = list(range(n))
    rng.shuffle(order)
    sheets = []
    for i, nm in enumerate(names):
        part = g.gen_part_name(rng, i)
        r = rng.random()
        # the Type of the relationship: mostly a worksheet type; any of the eight sheet types is
        # legal (the parts all hold worksheet XML: the reader goes by the content of the part)
        typ = g.SHEET_REL_TYPES[0] if r < 0.6 else g.SHEET_REL_TYPES[1] if r < 0.8 else rng.choice(g.SHEET_REL_TYPES)
        if rng.random() < 0.04:
            # outside legal_workbook: a Type that names no sheet kind — the reader then goes by the
            # folder (implementation vs model only)
            typ = rng.choice([g.NS_REL_DOC + "/styles", "http://example.org/worksheet", g.NS_REL_DOC, ""])
        sheets.append({"name": nm, "rid": "rId%d" % (order[i] + 1) if rng.random() < 0.8 else "R%x" % (order[i] + 10),
                       "part": part, "type": typ,
                       "spelling": rng.choice([0, 0, 1, 2]),
                       "extra": [("sheetId", str(i + 1))] + ([("state", rng.choice(["visible", "hidden", "veryHidden"]))] if rng.random() < 0.3 else [])})
    relpfx = force_relpfx if force_relpfx is not None else rng.choice(["r", "r", "r", "relationships"])
    return {"pfx": rng.choice(["", "", "x", "wb"]), "relpfx": relpfx, "relspfx": rng.choice(["", "", "rel"]),
            "date1904": rng.choice([None, None, "1", "true", "0", "false"]), "sheets": sheets}

def run_workbooks(ctx, n, tag, relpfx=None):
    rng = ctx.rng
    wbs = [gen_workbook(rng, relpfx) for _ in range(n)]
    ids = ["%s%d" % (tag, i) for i in range(n)]
    # 1. encode workbook.xml / rels and every sheet with the extracted encoders
    lines = ["%s\txlsxsheet\twbenc\t%s" % (cid, g.wb_wire(wb)) for cid, wb in zip(ids, wbs)]
    sheet_lines, sheet_meta = [], {}
    envs = {}
    for cid, wb in zip(ids, wbs):
        env = g.gen_env(rng)
        env["is1904"] = wb["date1904"] in ("1", "true")
        envs[cid] = env
        for j, s in enumerate(wb["sheets"]):
            sh = g.gen_sheet(rng, env, profile=rng.choice(["dense", "sparse", "edges"]), legal=True)
            while g.bbox_area(sh) > 300000:
                sh = g.gen_sheet(rng, env, profile="dense", legal=True)
            sid = "%s_s%d" % (cid, j)
            sheet_lines.append("%s\txlsxsheet\tenc\t%s\t%s" % (sid, g.env_wire(env), g.sheet_wire(sh)))
            sheet_meta[sid] = sh
    enc = ctx.run_model(lines + sheet_lines)
    vm_lines, vh_lines, meta = [], [], {}
    for cid, wb, line in zip(ids, wbs, lines):
        f = (enc.get(cid) or "").split("#")
        if len(f) != 4:
            ctx.disagreements.append({"function": "workbook-encoder", "case": line, "impl": None, "model": enc.get(cid)})
            continue
        rels_w, wb_w, known, wb_legal = f
        env = envs[cid]
        specs, sheet_parts, ok = [], [], True
        for j, s in enumerate(wb["sheets"]):
            e = (enc.get("%s_s%d" % (cid, j)) or "").split("#")
            if len(e) != 6:
                ok = False
                break
            zipname = g.recase(rng, "xl/" + s["part"])
            sheet_parts.append((zipname, e[0]))
            specs.append((s["name"], spec_range(e[3]), e[4], e[5]))
        if not ok:
            ctx.disagreements.append({"function": "xlsx-encoder", "case": line, "impl": None, "model": "sheet encoding failed"})
            continue
        # the workbook part needs its namespace declarations: add them to the root element
        wbev = unwire(wb_w)
        for k, e in enumerate(wbev):
            if e[0] == "S":
                decl = [("xmlns:%s" % wb["pfx"] if wb["pfx"] else "xmlns", NS_MAIN), ("xmlns:%s" % wb["relpfx"], NS_REL)]
                wbev[k] = S(e[1], list(e[2]) + decl)
                break
        relev = unwire(rels_w)
        for k, e in enumerate(relev):
            if e[0] == "S":
                relev[k] = S(e[1], list(e[2]) + [("xmlns:%s" % wb["relspfx"] if wb["relspfx"] else "xmlns", NS_PKG)])
                break
        zn_wb = g.recase(rng, "xl/workbook.xml")
        zn_rels = g.recase(rng, "xl/_rels/workbook.xml.rels")
        xml_parts = [(zn_wb, g.part_xml(wbev, rng)), (zn_rels, g.part_xml(relev, rng))] + \
                    [(zn, g.part_xml(unwire(w_), rng)) for zn, w_ in sheet_parts]
        model_parts = [(zn_wb, wire(wbev)), (zn_rels, wire(relev))] + sheet_parts
        extra = [("[Content_Types].xml", g.content_types([p for p, _ in sheet_parts])), ("_rels/.rels", g.ROOT_RELS),
                 ("docProps/app.xml", "<Properties/>"), ("xl/theme/theme1.xml", "<a:theme xmlns:a='urn:a'/>")]
        if env["strings"]:
            extra.append((g.recase(rng, "xl/sharedStrings.xml"), g.sst_xml(env["strings"], rng)))
        if env["formats"]:
            extra.append((g.recase(rng, "xl/styles.xml"), g.styles_xml(env["formats"])))
        allparts = extra[:2] + xml_parts + extra[2:]
        # central-directory order matters only between parts: shuffle everything after the content types
        head, tail = allparts[:1], allparts[1:]
        rng.shuffle(tail)
        order = [nm for nm, _ in head + tail]
        mp = dict(model_parts)
        model_pk = "|".join("%s@%s" % (hx(nm), mp[nm]) for nm in order if nm in mp)
        path = write_file(ctx, cid + ".xlsx", g.package(head + tail, rng, rng.choice([None, "stored", "deflated"])))
        vm_lines.append("%s\txlsxsheet\twb\t%s\t%s" % (cid, g.env_wire(env), model_pk))
        vh_lines.append("%s\txlsxsheet\topen\t%s\tall" % (cid, path))
        meta[cid] = (line, known, specs, path, wb, wb_legal)
    model = ctx.run_model(vm_lines)
    impl = ctx.run_impl(vh_lines)
    vmd = {l.split("\t", 1)[0]: l for l in vm_lines}
    for cid, (line, known, specs, path, wb, wb_legal) in meta.items():
        m = model.get(cid) or "?"
        i = impl.get(cid) or "abort"
        ctx.traces += 1
        ctx.nontrivial(vmd[cid].split("\t", 2)[2])
        ctx.count("workbook:file")
        ctx.count("workbook:sheets=%d" % len(wb["sheets"]))
        for s in wb["sheets"]:
            ctx.count("target:" + ["relative", "/xl/", "xl/"][s["spelling"]])
            ctx.count("part:" + ("conventional folder" if s["part"].startswith("worksheets/") else
                                 "folder of another kind" if s["part"].split("/")[0] in g.CONVENTIONAL_FOLDERS else
                                 "free name"))
            ctx.count("reltype:" + (s["type"].rsplit("/", 1)[-1] or "(empty)") +
                      (" strict" if "purl.oclc.org" in s["type"] else ""))
        ctx.count("relpfx:" + wb["relpfx"])
        keep = False
        if i == "openerr":
            i_all, i_ws = "openerr", "openerr"
        else:
            i_all, _, i_ws = i.partition("##")
        m_ws = m if m == "openerr" else "&".join(x for x in m.split("&") if not x.endswith("=err") and not x.endswith("=panic"))
        if i_all != m or i_ws != m_ws:
            ctx.disagreements.append({"function": "workbook", "case": vmd[cid], "impl": i, "model": m, "file": path})
            keep = True
        want = "&".join("%s=%s" % (hx(nm), sr) for nm, sr, _, _ in specs)
        sheet_known = [k for _, _, k, _ in specs if k != "-"]
        ctx.count("workbook:legal" if wb_legal == "1" else "workbook:illegal")
        if wb_legal != "1":
            pass
        elif known == "-" and not sheet_known:
            if i_all != want or i_ws != want:
                ctx.violations.append({"case": vmd[cid], "expected": want, "actual": i, "model": m, "file": path,
                                       "what": "workbook with %d sheet(s): worksheet_range / worksheets() differ from the stored sheets (part-name case, target spelling, prefixes, zip method varied)" % len(specs)})
                keep = True
        else:
            fid = KNOWN_IDS.get(known if known != "-" else sheet_known[0])
            if i_all != want:
                if ctx.known_finding(fid) is not None:
                    ctx.known_hits.setdefault(fid, {"case": vmd[cid][:2000], "expected": want[:500], "actual": i[:500]})
                else:
                    ctx.violations.append({"case": vmd[cid], "expected": want, "actual": i, "model": m, "file": path,
                                           "what": "class %s is not a registered finding" % fid})
                    keep = True
        if not keep:
            try:
                os.remove(path)
            except OSError:
                pass

# ------------------------------------------------------------------ the A1 scanner through the hook
def sweep_columns(ctx, rows, lower_every):
    lines, want = [], {}
    k = 0
    for c in range(0, 16384):
        name = col_name(c)
        for r in rows:
            for lo in ((False, True) if c % lower_every == 0 else (False,)):
                txt = (name.lower() if lo else name) + str(r + 1)
                cid = "a%d" % k
                k += 1
                lines.append("%s\txlsxsheet\tgroc\t%s" % (cid, hx(txt)))
                want[cid] = "ok:%d,%d" % (r, c)
    # beyond the grid, up to the scanner's limits, and the malformed neighbours
    extra = ["XFE1", "ZZZ1", "AAAA1", "ZZZZZZ1", "AAAAAAA1", "A999999999", "A1000000000", "A4294967296", "A4294967297",
             "A18446744073709551616", "A99999999999999999999999", "MWLQKWU1", "MWLQKWV1", "ZZZZZZZZZZZZZZZZZZZZ1", "A0", "A", "1", "", "A1A",
             "1A", "$A$1", "A$1", "a1", "xfd1048576", "A01", "A1 ", " A1", "A-1", "Ä1", "A1:B2", "AA", "@1", "[1", "`1", "{1"]
    for t in extra:
        cid = "a%d" % k
        k += 1
        lines.append("%s\txlsxsheet\tgroc\t%s" % (cid, hx(t)))
    impl, model = ctx.run_both(lines)
    for l in lines:
        cid = l.split("\t", 1)[0]
        i, m = impl.get(cid), model.get(cid)
        if i != m:
            ctx.disagreements.append({"function": "get_row_and_optional_column", "case": l, "impl": i, "model": m})
        if cid in want and i != want[cid]:
            ctx.violations.append({"case": l, "expected": want[cid], "actual": i, "model": m,
                                   "what": "get_row_and_optional_column(%s) is not the position the name denotes" % unhx(l.split("\t")[3])})
    ctx.count("a1:sweep", len(lines))
    ctx.traces += len(lines)
    ctx.nontrivial("a1-sweep-%d" % len(lines))

# ------------------------------------------------------------------ entry points
def run(ctx):
    rng = ctx.rng
    sweep_columns(ctx, rows=(0, 1048575) if ctx.tier == "quick" else (0, 8, 9, 99, 65535, 999999, 1048575),
                  lower_every=4 if ctx.tier == "quick" else 1)
    run_sheet_batch(ctx, boundary_cases(rng), "b")
    run_raw(ctx, raw_cases(rng, 0), "r")
    n = ctx.scale(6, 40)
    for k in range(n):
        run_sheet_batch(ctx, structured_cases(rng, 300), "s%d_" % k)
        run_workbooks(ctx, 60, "w%d_" % k)
    run_workbooks(ctx, 6, "wk_", relpfx="rel")          # the registered class F30
    try:
        os.rmdir(tmp(ctx))
    except OSError:
        pass

def search(ctx):
    for k in range(ctx.scale(4, 20)):
        run_sheet_batch(ctx, structured_cases(ctx.rng, 400, legal_ratio=0.95), "x%d_" % k)
        run_workbooks(ctx, 80, "y%d_" % k)

def replay(ctx, rep):
    case = rep.get("case") or ""
    print("replaying:", case[:600])
    f = case.split("\t")
    cid = f[0]
    if len(f) >= 5 and f[1] == "xlsxsheet" and f[2] == "enc":
        enc = ctx.run_model([case]).get(cid, "")
        e = enc.split("#")
        if len(e) != 6:
            print("encoder failed:", enc[:300]); return 1
        env = {"strings": [unhx(x[1:]) for x in f[3].split("|")[0].split(",") if x], "formats": f[3].split("|")[1].replace("-", ""),
               "is1904": f[3].split("|")[2] == "1"}
        xml = g.part_xml(unwire(e[0]), None)
        path = write_file(ctx, "replay.xlsx", g.package(g.single_sheet_parts(env, xml, ctx.rng), None, "deflated"))
        impl = ctx.run_impl(["%s\txlsxsheet\topen\t%s\trange %s;ref %s" % (cid, path, hx("S"), hx("S"))]).get(cid)
        want = spec_range(e[3])
        print("file    :", path)
        print("impl    :", impl)
        print("model   :", e[1])
        print("expected:", want, "(legal=%s known=%s)" % (e[5], e[4]))
        return 0 if (impl or "").split(";;")[0] == want else 1
    impl, model = ctx.run_both([case])
    print("impl :", impl.get(cid)); print("model:", model.get(cid)); print("expected:", rep.get("expected"))
    return 0 if impl.get(cid) == rep.get("expected") else 1
