# xlsb_5: C19 — BrtCellRString (0x003E): an INLINE string cell holding a RichStr (flags, text, runs, phonetic) —
# the inline counterpart of a rich BrtSSTItem.  The cell reader ignores the record, the cell vanishes.
# Also a rich / phonetic BrtSSTItem (fRichStr | fExtStr) as control (handled: only the text is read).
import struct, sys
sys.path.insert(0, '/tmp/ag/audit2/repro')
from xlsb_common import *

def richstr(text, runs=(), phon=None):
    fl = (1 if runs else 0) | (2 if phon is not None else 0)
    b = bytes([fl]) + wide(text)
    if runs:
        b += struct.pack('<I', len(runs)) + b''.join(struct.pack('<HH', ich, ifnt) for ich, ifnt in runs)
    if phon is not None:
        b += wide(phon) + struct.pack('<I', 1) + struct.pack('<HHH', 0, 0, len(text)) + struct.pack('<HH', 0, 0x37)
    return b
sst = (rec(0x009F, struct.pack('<II', 1, 1)) + rec(0x0013, richstr('rich shared', [(0, 0), (5, 1)], 'phon')) + rec(0x00A0))
body = (rowhdr(0) +
        rec(0x0007, cell(0) + struct.pack('<I', 0)) +            # A1 shared, rich + phonetic
        rec(0x003E, cell(1) + richstr('rich inline', [(0, 0), (5, 1)])) +  # B1 BrtCellRString
        rec(0x0006, cell(2) + wide('plain inline')))             # C1 BrtCellSt
p = OUT + '/xlsb_5_rstring.xlsb'
package(p, [('Sheet1', sheet(body, (0, 0, 0, 2)))], sst=sst)
print(pretty(run(p, ['range ' + hx('Sheet1')])))
