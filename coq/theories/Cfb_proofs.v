(* Cfb_proofs: lemmas and theorems about the compound-file model (Cfb.v).
   Part 1: the sector cache (Sectors::get) reads the file lazily but always returns the sector of
           the file; chain following (C13_chain_follow), cyclic chains, the mini stream
           (C13_mini_compose).
   Part 2: the tables written by cfb_write (FAT, mini FAT, sector placement) describe the chains of
           the layout; layout independence over the parsed tables.
   Part 3: the bytes of the tables are read back (FAT sectors, directory chain, mini FAT, mini stream).
   Part 4: header, DIFAT walk, directory entries; Cfb::new on a written file; layout independence
           through the bytes (layout_independent).
   Part 5: totality (no panic, the only fuel is bounded by the file). *)
From Coq Require Import FinFun.
From Calamine Require Import Prelude Utf16 Utf16_proofs Cfb.
Open Scope N_scope.
Set Implicit Arguments.

(* ------------------------------------------------------------------ basics *)
Lemma fold_succ_len : forall (A : Type) (l : list A) a,
  fold_left (fun n _ => N.succ n) l a = a + N.of_nat (length l).
Proof.
  induction l as [|x l IH]; intros a; cbn [fold_left length].
  - lia.
  - rewrite IH. lia.
Qed.

Lemma lenN_length : forall (A : Type) (l : list A), lenN l = N.of_nat (length l).
Proof. intros. unfold lenN. rewrite fold_succ_len. lia. Qed.

Lemma firstn_skipn_prefix : forall (A : Type) (a b : list A) n k,
  (n + k <= length a)%nat -> firstn k (skipn n (a ++ b)) = firstn k (skipn n a).
Proof.
  intros A a b n k H.
  rewrite skipn_app. replace (n - length a)%nat with 0%nat by lia. cbn [skipn].
  rewrite firstn_app. rewrite skipn_length.
  replace (k - (length a - n))%nat with 0%nat by lia. cbn [firstn]. apply app_nil_r.
Qed.

Lemma firstn_all_exact : forall (A : Type) (l : list A) n, n = length l -> firstn n l = l.
Proof. intros; subst; apply firstn_all. Qed.

Lemma sector_length : forall ss body id,
  (id + 1) * ss <= lenN body -> length (sector ss body id) = N.to_nat ss.
Proof.
  intros ss body id H. unfold sector, takeN, dropN. rewrite lenN_length in H.
  rewrite firstn_length, skipn_length. lia.
Qed.

Lemma sector_app : forall ss a b id,
  (id + 1) * ss <= lenN a -> sector ss (a ++ b) id = sector ss a id.
Proof.
  intros ss a b id H. unfold sector, takeN, dropN. rewrite lenN_length in H.
  apply firstn_skipn_prefix. lia.
Qed.

(* ------------------------------------------------------------------ Sectors::get *)
(* the cache and the unread rest of the reader always recompose the bytes after the header *)
Definition Inv (ss : N) (body : list N) (s : sectors) (r : list N) : Prop :=
  ssize s = ss /\ sdata s ++ r = body.

(* get never panics and never loses a byte: cache ++ reader is unchanged *)
Lemma get_total : forall s id r,
  get s id r = Err ERR_IO \/
  exists sl s' r', get s id r = Ok (sl, s', r') /\ ssize s' = ssize s /\
                   sdata s' ++ r' = sdata s ++ r /\ lenN (sdata s) <= lenN (sdata s').
Proof.
  intros s id r. unfold get.
  destruct (lenN (sdata s) <? id * ssize s + ssize s) eqn:E; cbn beta iota zeta.
  - match goal with |- context [if ?c then _ else _] => destruct c end; [left; reflexivity|].
    right. eexists; eexists; eexists; split; [reflexivity|]. cbn [ssize sdata].
    split; [reflexivity|split].
    + unfold takeN, dropN. rewrite <- app_assoc, firstn_skipn. reflexivity.
    + rewrite !lenN_length, app_length. lia.
  - match goal with |- context [if ?c then _ else _] => destruct c end; [left; reflexivity|].
    right. eexists; eexists; eexists; split; [reflexivity|]. cbn [ssize sdata].
    split; [reflexivity|split; [reflexivity|lia]].
Qed.

Lemma get_in_body : forall ss body s r id,
  Inv ss body s r -> (id + 1) * ss <= lenN body ->
  exists s' r', get s id r = Ok (sector ss body id, s', r') /\ Inv ss body s' r' /\
                (id + 1) * ss <= lenN (sdata s') /\ lenN (sdata s) <= lenN (sdata s').
Proof.
  intros ss body s r id [Hs Hb] Hin. unfold get. rewrite Hs.
  rewrite !lenN_length. rewrite lenN_length in Hin.
  assert (Hlen : length body = (length (sdata s) + length r)%nat)
    by (rewrite <- Hb, app_length; reflexivity).
  destruct (N.of_nat (length (sdata s)) <? id * ss + ss) eqn:E; cbn beta iota zeta.
  - (* the cache grows *)
    set (need := id * ss + ss - N.of_nat (length (sdata s))).
    assert (Hneed : need <= N.of_nat (length r)) by (unfold need; lia).
    rewrite (N.min_l _ _ Hneed).
    assert (Hl : lenN (sdata s ++ takeN need r) = id * ss + ss).
    { rewrite lenN_length, app_length. unfold takeN. rewrite firstn_length. unfold need. lia. }
    rewrite Hl, N.min_id.
    replace (id * ss + ss <? id * ss) with false by (symmetry; apply N.ltb_ge; lia).
    eexists; eexists; split.
    + apply f_equal. apply (f_equal2 pair); [apply (f_equal2 pair); [|reflexivity]|reflexivity].
      unfold sector, takeN, dropN.
      rewrite <- Hb.
      rewrite <- (firstn_skipn (N.to_nat need) r) at 2.
      rewrite app_assoc.
      replace (N.to_nat (id * ss + ss - id * ss)) with (N.to_nat ss) by lia.
      symmetry. apply firstn_skipn_prefix.
      rewrite app_length, firstn_length. unfold need. lia.
    + split; [split; [reflexivity|]|split]; cbn [sdata].
      * unfold takeN, dropN. rewrite <- app_assoc, firstn_skipn. exact Hb.
      * rewrite Hl. lia.
      * rewrite Hl. lia.
  - rewrite lenN_length.
    rewrite (N.min_l (id * ss + ss)) by lia.
    replace (id * ss + ss <? id * ss) with false by (symmetry; apply N.ltb_ge; lia).
    eexists; eexists; split; [|split; [split; [exact Hs|exact Hb]|cbn [sdata]; rewrite lenN_length; lia]].
    apply f_equal. apply (f_equal2 pair); [apply (f_equal2 pair); [|destruct s; cbn in *; subst; reflexivity]|reflexivity].
    unfold sector, takeN, dropN. rewrite <- Hb.
    replace (N.to_nat (id * ss + ss - id * ss)) with (N.to_nat ss) by lia.
    symmetry. apply firstn_skipn_prefix. lia.
Qed.

(* ------------------------------------------------------------------ chains *)
Lemma Chain_in_bounds : forall fat start ids, Chain fat start ids ->
  forall id, In id ids -> (N.to_nat id < length fat)%nat.
Proof.
  induction 1 as [|id nx rest Hne Hnth Hc IH]; intros x Hin; [destruct Hin|].
  destruct Hin as [<-|Hin]; [|apply IH; exact Hin].
  apply nth_error_Some. rewrite Hnth. discriminate.
Qed.

Lemma Chain_length_bound : forall fat start ids, Chain fat start ids -> NoDup ids ->
  (length ids <= length fat)%nat.
Proof.
  intros fat start ids Hc Hnd.
  rewrite <- (map_length N.to_nat ids). rewrite <- (seq_length (length fat) 0).
  apply NoDup_incl_length.
  - apply FinFun.Injective_map_NoDup; [|exact Hnd]. intros a b Hab. lia.
  - intros x Hx. apply in_map_iff in Hx. destruct Hx as [y [<- Hy]].
    apply in_seq. pose proof (Chain_in_bounds Hc y Hy). lia.
Qed.

Lemma chain_loop_ok : forall fat ss body start ids, Chain fat start ids ->
  forall remaining s r, (length ids <= remaining)%nat -> Inv ss body s r ->
  (forall id, In id ids -> (id + 1) * ss <= lenN body) ->
  exists s' r', get_chain_loop remaining s start fat r
                = Ok (concat (map (sector ss body) ids), s', r') /\ Inv ss body s' r'.
Proof.
  induction 1 as [|id nx rest Hne Hnth Hc IH]; intros fuel s r Hf HI Hin.
  - destruct fuel as [|f]; cbn [get_chain_loop]; rewrite N.eqb_refl;
      (eexists; eexists; split; [reflexivity|exact HI]).
  - destruct fuel as [|f]; [cbn in Hf; lia|]. cbn [get_chain_loop].
    apply N.eqb_neq in Hne. rewrite Hne.
    destruct (get_in_body id HI (Hin id (or_introl eq_refl))) as [s1 [r1 [Hg [HI1 _]]]].
    rewrite Hg. cbn [obind]. rewrite Hnth.
    destruct (IH f s1 r1) as [s2 [r2 [Hl HI2]]].
    + cbn [length] in Hf. lia.
    + exact HI1.
    + intros x Hx. apply Hin. right. exact Hx.
    + rewrite Hl. cbn [obind map concat]. eexists; eexists; split; [reflexivity|exact HI2].
Qed.

(* the truncation of get_chain, as a specification *)
Definition trunc_spec (len : N) (c : list N) : list N :=
  if 0 <? len then firstn (N.to_nat len) c else c.

Lemma truncate_spec : forall len c, truncate len c = trunc_spec len c.
Proof.
  intros len c. unfold truncate, trunc_spec, takeN. rewrite lenN_length.
  destruct (0 <? len) eqn:E0; cbn [andb]; [|reflexivity].
  destruct (len <? N.of_nat (length c)) eqn:E1; [reflexivity|].
  symmetry. apply firstn_all2. lia.
Qed.

(* (1) chain following: any FAT, any chain without repetition, any sector contents, any
   permutation / fragmentation of the sector ids, any declared length *)
Theorem chain_follow : forall fat ss body start ids len s r,
  Chain fat start ids -> NoDup ids ->
  Inv ss body s r ->
  (forall id, In id ids -> (id + 1) * ss <= lenN body) ->
  exists s' r',
    get_chain s start fat r len
    = Ok (trunc_spec len (concat (map (sector ss body) ids)), s', r') /\ Inv ss body s' r'.
Proof.
  intros fat ss body start ids len s r Hc Hnd HI Hin.
  unfold get_chain.
  destruct (chain_loop_ok Hc (Chain_length_bound Hc Hnd) HI Hin) as [s' [r' [Hl HI']]].
  rewrite Hl. cbn [obind]. rewrite truncate_spec. eexists; eexists; split; [reflexivity|exact HI'].
Qed.

(* totality: the loop needs no fuel (it is bounded by the length of the allocation table), never
   panics, and a chain that never reaches ENDOFCHAIN ends in an I/O error *)
Lemma get_chain_loop_total : forall fats remaining s id r,
  get_chain_loop remaining s id fats r = Err ERR_IO \/
  exists c s' r', get_chain_loop remaining s id fats r = Ok (c, s', r') /\ ssize s' = ssize s /\
                  sdata s' ++ r' = sdata s ++ r.
Proof.
  intros fats. induction remaining as [|k IH]; intros s id r; cbn [get_chain_loop];
    (destruct (id =? ENDOFCHAIN);
     [right; eexists; eexists; eexists; split; [reflexivity|split; reflexivity]|]).
  - left. reflexivity.
  - destruct (get_total s id r) as [He|[sl [s1 [r1 [Hg [Hs1 [Hd1 _]]]]]]]; [rewrite He; left; reflexivity|].
    rewrite Hg. cbn [obind]. destruct (nth_error fats (N.to_nat id)) as [nx|]; [|left; reflexivity].
    destruct (IH s1 nx r1) as [He|[c [s2 [r2 [Hl [Hs2 Hd2]]]]]]; [rewrite He; left; reflexivity|].
    rewrite Hl. cbn [obind]. right. eexists; eexists; eexists. split; [reflexivity|].
    split; [congruence|congruence].
Qed.

Theorem chain_total : forall s id fats r len,
  get_chain s id fats r len <> Panic /\ get_chain s id fats r len <> OutOfFuel.
Proof.
  intros s id fats r len. unfold get_chain.
  destruct (get_chain_loop_total fats (length fats) s id r) as [He|[c [s' [r' [Hl _]]]]];
    rewrite ?He, ?Hl; cbn [obind]; split; discriminate.
Qed.

(* a chain that never reaches ENDOFCHAIN (a repetition): I/O error, whatever the bound.
   P is any set of sector ids closed under "next" *)
Theorem chain_cycle_is_error : forall fat ss body (P : N -> Prop),
  (forall id, P id -> id <> ENDOFCHAIN /\ (id + 1) * ss <= lenN body /\
                      exists nx, nth_error fat (N.to_nat id) = Some nx /\ P nx) ->
  forall remaining s r id, P id -> Inv ss body s r -> get_chain_loop remaining s id fat r = Err ERR_IO.
Proof.
  intros fat ss body P HP. induction remaining as [|f IH]; intros s r id Hid HI;
    cbn [get_chain_loop]; destruct (HP id Hid) as [Hne [Hin [nx [Hnth Hnx]]]];
    apply N.eqb_neq in Hne; rewrite Hne; [reflexivity|].
  destruct (get_in_body id HI Hin) as [s1 [r1 [Hg [HI1 _]]]]. rewrite Hg. cbn [obind]. rewrite Hnth.
  rewrite (IH s1 r1 nx Hnx HI1). reflexivity.
Qed.

(* the concrete shape of a repetition: from start one reaches x, and from x one comes back to x *)
Lemma Path_closed : forall fat x q, Path fat x q x -> q <> [] ->
  forall id, In id q -> id <> ENDOFCHAIN /\ exists nx, nth_error fat (N.to_nat id) = Some nx /\ In nx q.
Proof.
  intros fat x q Hp Hq.
  assert (G : forall a l last, Path fat a l last ->
              forall id, In id l -> id <> ENDOFCHAIN /\
                exists nx, nth_error fat (N.to_nat id) = Some nx /\ (In nx l \/ nx = last)).
  { induction 1 as [a|a nx rest last Hne Hnth Hp' IH]; intros id Hin; [destruct Hin|].
    destruct Hin as [<-|Hin].
    - split; [exact Hne|]. exists nx. split; [exact Hnth|].
      inversion Hp'; subst; [right; reflexivity|left; right; left; reflexivity].
    - destruct (IH id Hin) as [H1 [n2 [H2 H3]]]. split; [exact H1|]. exists n2. split; [exact H2|].
      destruct H3 as [H3|H3]; [left; right; exact H3|right; exact H3]. }
  intros id Hin. destruct (G x q x Hp id Hin) as [H1 [nx [H2 H3]]].
  split; [exact H1|]. exists nx. split; [exact H2|].
  destruct H3 as [H3|H3]; [exact H3|].
  subst nx. inversion Hp; subst; [contradiction|]. left; reflexivity.
Qed.

Theorem chain_repetition_is_error : forall fat ss body start p x q,
  Path fat start p x -> Path fat x q x -> q <> [] ->
  (forall id, In id (p ++ q) -> (id + 1) * ss <= lenN body) ->
  forall s r len, Inv ss body s r -> get_chain s start fat r len = Err ERR_IO.
Proof.
  intros fat ss body start p x q Hp Hq Hne Hin.
  assert (Hx : In x q) by (inversion Hq; subst; [contradiction|left; reflexivity]).
  assert (Hclosed : forall id, In id (p ++ q) -> id <> ENDOFCHAIN /\ (id + 1) * ss <= lenN body /\
             exists nx, nth_error fat (N.to_nat id) = Some nx /\ In nx (p ++ q)).
  { intros id Hid. split; [|split; [apply Hin; exact Hid|]].
    - apply in_app_or in Hid. destruct Hid as [Hid|Hid].
      + clear - Hp Hid. induction Hp as [a|a nx rest last H1 H2 H3 IH]; [destruct Hid|].
        destruct Hid as [<-|Hid]; [exact H1|apply IH; exact Hid].
      + apply (Path_closed Hq Hne id Hid).
    - apply in_app_or in Hid. destruct Hid as [Hid|Hid].
      + clear - Hp Hid Hx. induction Hp as [a|a nx rest last H1 H2 H3 IH]; [destruct Hid|].
        destruct Hid as [<-|Hid].
        * exists nx. split; [exact H2|]. inversion H3; subst.
          -- apply in_or_app. right. exact Hx.
          -- right. left. reflexivity.
        * destruct (IH Hx Hid) as [n2 [Ha Hb]]. exists n2. split; [exact Ha|]. right. exact Hb.
      + destruct (Path_closed Hq Hne id Hid) as [_ [nx [Ha Hb]]].
        exists nx. split; [exact Ha|apply in_or_app; right; exact Hb]. }
  assert (Hstart : In start (p ++ q)).
  { inversion Hp; subst; [apply in_or_app; right; exact Hx|left; reflexivity]. }
  intros s r len HI.
  pose proof (@chain_cycle_is_error fat ss body (fun id => In id (p ++ q)) Hclosed) as Hcyc.
  unfold get_chain. rewrite (Hcyc (length fat) s r start Hstart HI). reflexivity.
Qed.

(* ------------------------------------------------------------------ reads served by the cache *)
Lemma get_cached : forall s id r,
  (id + 1) * ssize s <= lenN (sdata s) ->
  get s id r = Ok (sector (ssize s) (sdata s) id, s, r).
Proof.
  intros s id r H. unfold get.
  replace (lenN (sdata s) <? id * ssize s + ssize s) with false by (symmetry; apply N.ltb_ge; lia).
  cbn beta iota zeta. rewrite (N.min_l (id * ssize s + ssize s)) by lia.
  replace (id * ssize s + ssize s <? id * ssize s) with false by (symmetry; apply N.ltb_ge; lia).
  replace (id * ssize s + ssize s - id * ssize s) with (ssize s) by lia.
  destruct s; reflexivity.
Qed.

Lemma chain_loop_cached : forall fat start ids, Chain fat start ids ->
  forall remaining s r, (length ids <= remaining)%nat ->
  (forall id, In id ids -> (id + 1) * ssize s <= lenN (sdata s)) ->
  get_chain_loop remaining s start fat r = Ok (concat (map (sector (ssize s) (sdata s)) ids), s, r).
Proof.
  induction 1 as [|id nx rest Hne Hnth Hc IH]; intros fuel s r Hf Hin.
  - destruct fuel; cbn [get_chain_loop]; rewrite N.eqb_refl; reflexivity.
  - destruct fuel as [|f]; [cbn in Hf; lia|]. cbn [get_chain_loop].
    apply N.eqb_neq in Hne. rewrite Hne.
    rewrite (get_cached s id r (Hin id (or_introl eq_refl))). cbn [obind]. rewrite Hnth.
    rewrite (IH f s r); [reflexivity|cbn [length] in Hf; lia|].
    intros x Hx. apply Hin. right. exact Hx.
Qed.

Lemma get_chain_cached : forall fat start ids s r len, Chain fat start ids -> NoDup ids ->
  (forall id, In id ids -> (id + 1) * ssize s <= lenN (sdata s)) ->
  get_chain s start fat r len
  = Ok (trunc_spec len (concat (map (sector (ssize s) (sdata s)) ids)), s, r).
Proof.
  intros fat start ids s r len Hc Hnd Hin. unfold get_chain.
  rewrite (chain_loop_cached Hc (remaining := length fat) s r (Chain_length_bound Hc Hnd) Hin).
  cbn [obind]. rewrite truncate_spec. reflexivity.
Qed.

(* ------------------------------------------------------------------ blocks of equal length *)
Lemma skipn_concat_blocks : forall (n : nat) (q : nat) (blocks : list (list N)) (rem : nat),
  (forall b, In b blocks -> length b = n) -> (q < length blocks)%nat -> (rem <= n)%nat ->
  skipn (q * n + rem) (concat blocks)
  = skipn rem (nth q blocks []) ++ concat (skipn (S q) blocks).
Proof.
  intros n. induction q as [|q IH]; intros blocks rem Hb Hq Hr.
  - destruct blocks as [|b rest]; [cbn in Hq; lia|]. cbn [Nat.mul Nat.add nth skipn concat].
    rewrite skipn_app. rewrite (Hb b (or_introl eq_refl)).
    replace (rem - n)%nat with 0%nat by lia. reflexivity.
  - destruct blocks as [|b rest]; [cbn in Hq; lia|]. cbn [nth concat].
    replace (S q * n + rem)%nat with (n + (q * n + rem))%nat by lia.
    rewrite skipn_app. rewrite (Hb b (or_introl eq_refl)).
    rewrite skipn_all2 by (rewrite (Hb b (or_introl eq_refl)); lia).
    replace (n + (q * n + rem) - n)%nat with (q * n + rem)%nat by lia. cbn [app].
    rewrite IH; [reflexivity| |cbn [length] in Hq; lia|exact Hr].
    intros x Hx. apply Hb. right. exact Hx.
Qed.

Lemma concat_length_blocks : forall (n : nat) (blocks : list (list N)),
  (forall b, In b blocks -> length b = n) -> length (concat blocks) = (length blocks * n)%nat.
Proof.
  intros n. induction blocks as [|b rest IH]; intros Hb; [reflexivity|].
  cbn [concat length]. rewrite app_length, (Hb b (or_introl eq_refl)), IH; [lia|].
  intros x Hx. apply Hb. right. exact Hx.
Qed.

(* a 64-byte mini sector inside a sequence of ss-byte blocks *)
Lemma mini_sector_in_blocks : forall ss (blocks : list (list N)) m,
  ss = 512 \/ ss = 4096 ->
  (forall b, In b blocks -> length b = N.to_nat ss) ->
  (m + 1) * 64 <= N.of_nat (length blocks) * ss ->
  sector 64 (concat blocks) m
  = takeN 64 (dropN ((m * 64) mod ss) (nth (N.to_nat (m * 64 / ss)) blocks [])).
Proof.
  intros ss blocks m Hss Hb Hm. unfold sector, takeN, dropN.
  assert (Hq : (N.to_nat (m * 64 / ss) < length blocks)%nat) by (destruct Hss; subst ss; lia).
  assert (Hrem : (m * 64) mod ss + 64 <= ss) by (destruct Hss; subst ss; lia).
  replace (N.to_nat (m * 64))
    with (N.to_nat (m * 64 / ss) * N.to_nat ss + N.to_nat ((m * 64) mod ss))%nat
    by (destruct Hss; subst ss; lia).
  rewrite (skipn_concat_blocks _ Hb Hq) by lia.
  rewrite firstn_app.
  rewrite skipn_length.
  assert (Hl : length (nth (N.to_nat (m * 64 / ss)) blocks []) = N.to_nat ss)
    by (apply Hb, nth_In, Hq).
  rewrite Hl.
  replace (N.to_nat 64 - (N.to_nat ss - N.to_nat ((m * 64) mod ss)))%nat with 0%nat by lia.
  cbn [firstn]. apply app_nil_r.
Qed.

Lemma sector_firstn : forall ss (x : list N) m (L : nat),
  (N.to_nat ((m + 1) * ss) <= L)%nat -> sector ss (firstn L x) m = sector ss x m.
Proof.
  intros ss x m L H. unfold sector, takeN, dropN.
  rewrite skipn_firstn_comm, firstn_firstn. f_equal. lia.
Qed.

Lemma sector_trunc_spec : forall ss (x : list N) m len,
  (0 < len -> (m + 1) * ss <= len) -> sector ss (trunc_spec len x) m = sector ss x m.
Proof.
  intros ss x m len H. unfold trunc_spec. destruct (0 <? len) eqn:E; [|reflexivity].
  apply sector_firstn. lia.
Qed.

(* (2) a stream below the cutoff is recovered through the mini FAT, and each of its mini sectors
   lies inside the root entry's chain of regular sectors *)
Theorem mini_compose : forall (c : cfb) path d r mids,
  find_entry (directories c) path = Some d -> 0 < d_len d -> d_len d < 4096 ->
  ssize (mini_sectors c) = 64 ->
  Chain (mini_fats c) (d_start d) mids -> NoDup mids ->
  (forall m, In m mids -> (m + 1) * 64 <= lenN (sdata (mini_sectors c))) ->
  get_stream c path r
  = Ok (trunc_spec (d_len d) (concat (map (sector 64 (sdata (mini_sectors c))) mids)), c, r).
Proof.
  intros c path d r mids Hf Hpos Hlen Hss Hc Hnd Hin. unfold get_stream. rewrite Hf.
  replace (d_len d =? 0) with false by (symmetry; apply N.eqb_neq; lia).
  replace (d_len d <? 4096) with true by (symmetry; apply N.ltb_lt; exact Hlen).
  rewrite (@get_chain_cached (mini_fats c) (d_start d) mids (mini_sectors c) r (d_len d) Hc Hnd).
  - cbn [obind]. rewrite Hss. destruct c; reflexivity.
  - rewrite Hss. exact Hin.
Qed.

(* a zero-length entry reads as the empty stream whatever its start field holds *)
Theorem empty_stream : forall (c : cfb) path d r,
  find_entry (directories c) path = Some d -> d_len d = 0 -> get_stream c path r = Ok ([], c, r).
Proof.
  intros c path d r Hf H0. unfold get_stream. rewrite Hf, H0. reflexivity.
Qed.

Theorem mini_sector_in_root_chain : forall ss body rootids rlen m,
  ss = 512 \/ ss = 4096 ->
  (forall id, In id rootids -> (id + 1) * ss <= lenN body) ->
  (m + 1) * 64 <= N.of_nat (length rootids) * ss -> (0 < rlen -> (m + 1) * 64 <= rlen) ->
  sector 64 (trunc_spec rlen (concat (map (sector ss body) rootids))) m
  = takeN 64 (dropN ((m * 64) mod ss)
                    (sector ss body (nth (N.to_nat (m * 64 / ss)) rootids ENDOFCHAIN))).
Proof.
  intros ss body rootids rlen m Hss Hin Hm Hr.
  rewrite sector_trunc_spec by exact Hr.
  rewrite mini_sector_in_blocks with (ss := ss); [|exact Hss| |rewrite map_length; exact Hm].
  - f_equal. f_equal.
    assert (Hq : (N.to_nat (m * 64 / ss) < length rootids)%nat) by (destruct Hss; subst ss; lia).
    rewrite (nth_indep _ [] (sector ss body ENDOFCHAIN)) by (rewrite map_length; exact Hq).
    apply map_nth.
  - intros b Hb. apply in_map_iff in Hb. destruct Hb as [id [<- Hid]].
    apply sector_length. apply Hin. exact Hid.
Qed.

(* ================================================================== Part 2: the written tables *)

(* ------------------------------------------------------------------ boolean reflections *)
Lemma list_eqb_eq : forall a b, list_eqb a b = true <-> a = b.
Proof.
  induction a as [|x a IH]; intros [|y b]; cbn [list_eqb]; split; intros H;
    try reflexivity; try discriminate.
  - apply andb_prop in H. destruct H as [H1 H2]. apply N.eqb_eq in H1. apply IH in H2. congruence.
  - inversion H; subst. rewrite N.eqb_refl. cbn [andb]. apply IH. reflexivity.
Qed.

Lemma memN_In : forall x l, memN x l = true <-> In x l.
Proof.
  intros x. induction l as [|y r IH]; cbn [memN In]; [split; [discriminate|tauto]|].
  rewrite orb_true_iff, N.eqb_eq, IH. tauto.
Qed.

Lemma memN_false : forall x l, memN x l = false <-> ~ In x l.
Proof.
  intros x l. rewrite <- memN_In. destruct (memN x l); split; intros H; try congruence.
Qed.

Lemma nodupb_NoDup : forall l, nodupb l = true -> NoDup l.
Proof.
  induction l as [|x r IH]; cbn [nodupb]; intros H; [constructor|].
  apply andb_prop in H. destruct H as [H1 H2]. constructor; [|apply IH; exact H2].
  apply memN_false. destruct (memN x r); [discriminate|reflexivity].
Qed.

Lemma mem_list_In : forall x l, mem_list x l = true <-> In x l.
Proof.
  intros x. induction l as [|y r IH]; cbn [mem_list In]; [split; [discriminate|tauto]|].
  rewrite orb_true_iff, list_eqb_eq, IH. tauto.
Qed.

Lemma nodup_listb_NoDup : forall l, nodup_listb l = true -> NoDup l.
Proof.
  induction l as [|x r IH]; cbn [nodup_listb]; intros H; [constructor|].
  apply andb_prop in H. destruct H as [H1 H2]. constructor; [|apply IH; exact H2].
  intros Hin. apply mem_list_In in Hin. rewrite Hin in H1. discriminate.
Qed.

(* names up to ASCII case: [name_eqb] decides equality of the keys *)
Definition name_equiv (a b : list N) : Prop := name_key a = name_key b.

Lemma name_eqb_equiv : forall a b, name_eqb a b = true <-> name_equiv a b.
Proof. intros a b. unfold name_eqb, name_equiv. apply list_eqb_eq. Qed.

Lemma name_eqb_refl : forall a, name_eqb a a = true.
Proof. intros a. apply name_eqb_equiv. reflexivity. Qed.

Lemma name_eqb_false : forall a b, name_eqb a b = false <-> ~ name_equiv a b.
Proof.
  intros a b. rewrite <- name_eqb_equiv. destruct (name_eqb a b); split; intros H; congruence.
Qed.

Lemma name_eqb_sym : forall a b, name_eqb a b = name_eqb b a.
Proof.
  intros a b. destruct (name_eqb a b) eqn:E1; destruct (name_eqb b a) eqn:E2; try reflexivity.
  - apply name_eqb_equiv in E1. apply name_eqb_false in E2. exfalso. apply E2. symmetry. exact E1.
  - apply name_eqb_equiv in E2. apply name_eqb_false in E1. exfalso. apply E1. symmetry. exact E2.
Qed.

(* the test only looks at the keys: equivalent names are interchangeable on either side *)
Lemma name_eqb_key_l : forall a a' b, name_equiv a a' -> name_eqb a b = name_eqb a' b.
Proof. intros a a' b H. unfold name_eqb. unfold name_equiv in H. rewrite H. reflexivity. Qed.
Lemma name_eqb_key_r : forall a b b', name_equiv b b' -> name_eqb a b = name_eqb a b'.
Proof. intros a b b' H. unfold name_eqb. unfold name_equiv in H. rewrite H. reflexivity. Qed.

Lemma mem_name_spec : forall x l, mem_name x l = true <-> exists y, In y l /\ name_equiv y x.
Proof.
  intros x. induction l as [|y r IH]; cbn [mem_name In].
  - split; [discriminate|intros [y [[] _]]].
  - rewrite orb_true_iff, name_eqb_equiv, IH. split.
    + intros [H|[z [Hz Hzx]]]; [exists y; auto|exists z; auto].
    + intros [z [[->|Hz] Hzx]]; [left; exact Hzx|right; exists z; auto].
Qed.

Lemma mem_name_In : forall x l, In x l -> mem_name x l = true.
Proof. intros x l H. apply mem_name_spec. exists x. split; [exact H|reflexivity]. Qed.

Lemma mem_name_key : forall x x' l, name_equiv x x' -> mem_name x l = mem_name x' l.
Proof.
  intros x x' l H. induction l as [|y r IH]; [reflexivity|]. cbn [mem_name].
  rewrite IH, (name_eqb_key_r y H). reflexivity.
Qed.

Lemma nodup_namesb_keys : forall l, nodup_namesb l = true -> NoDup (map name_key l).
Proof.
  induction l as [|x r IH]; cbn [nodup_namesb map]; intros H; [constructor|].
  apply andb_prop in H. destruct H as [H1 H2]. constructor; [|apply IH; exact H2].
  intros Hin. apply in_map_iff in Hin. destruct Hin as [y [Hy Hin]].
  assert (M : mem_name x r = true) by (apply mem_name_spec; exists y; split; [exact Hin|exact Hy]).
  rewrite M in H1. discriminate.
Qed.

Lemma NoDup_map_NoDup : forall (A B : Type) (f : A -> B) l, NoDup (map f l) -> NoDup l.
Proof.
  intros A B f. induction l as [|x r IH]; intros H; [constructor|]. cbn [map] in H.
  inversion H as [|? ? Hn Hr]; subst. constructor; [|apply IH; exact Hr].
  intros Hin. apply Hn. apply in_map. exact Hin.
Qed.

Lemma nodup_namesb_NoDup : forall l, nodup_namesb l = true -> NoDup l.
Proof. intros l H. apply (NoDup_map_NoDup name_key). apply nodup_namesb_keys. exact H. Qed.

(* ------------------------------------------------------------------ seqN *)
Lemma seqN_from_nth : forall n s i, (i < n)%nat ->
  nth_error (seqN_from s n) i = Some (s + N.of_nat i).
Proof.
  induction n as [|n IH]; intros s i Hi; [lia|].
  destruct i as [|i]; cbn [seqN_from nth_error]; [f_equal; lia|].
  rewrite IH by lia. f_equal. lia.
Qed.

Lemma seqN_from_length : forall n s, length (seqN_from s n) = n.
Proof. induction n as [|n IH]; intros s; cbn [seqN_from length]; [reflexivity|rewrite IH; reflexivity]. Qed.

Lemma seqN_length : forall n, length (seqN n) = n.
Proof. intros. apply seqN_from_length. Qed.

Lemma seqN_nth : forall n i, (i < n)%nat -> nth_error (seqN n) i = Some (N.of_nat i).
Proof. intros n i H. unfold seqN. rewrite seqN_from_nth by exact H. f_equal. Qed.

Lemma seqN_from_In : forall n s x, In x (seqN_from s n) <-> s <= x < s + N.of_nat n.
Proof.
  induction n as [|n IH]; intros s x; cbn [seqN_from In]; [lia|].
  rewrite IH. lia.
Qed.

Lemma map_seqN_nth : forall (A : Type) (f : N -> A) n i, i < N.of_nat n ->
  nth_error (map f (seqN n)) (N.to_nat i) = Some (f i).
Proof.
  intros A f n i H. rewrite nth_error_map, seqN_nth by lia. cbn [option_map]. f_equal. f_equal. lia.
Qed.

Lemma nodup_app_inv : forall (A : Type) (a b : list A),
  NoDup (a ++ b) -> NoDup a /\ NoDup b /\ (forall x, In x a -> ~ In x b).
Proof.
  induction a as [|y a IH]; intros b H; cbn [app] in H.
  - split; [constructor|split; [exact H|intros x []]].
  - inversion H as [|? ? Hn1 Hn2]; subst. destruct (IH b Hn2) as [Ha [Hb Hd]].
    split; [|split; [exact Hb|]].
    + constructor; [|exact Ha]. intros Hin. apply Hn1. apply in_or_app. left. exact Hin.
    + intros x [->|Hx]; [intros Hxb; apply Hn1; apply in_or_app; right; exact Hxb|apply Hd; exact Hx].
Qed.

(* ------------------------------------------------------------------ chain_next / chains_next *)
Lemma chain_next_notin : forall ch a, ~ In a ch -> chain_next ch a = None.
Proof.
  induction ch as [|x t IH]; intros a H; [reflexivity|]. cbn [chain_next].
  destruct (x =? a) eqn:E; [apply N.eqb_eq in E; subst; exfalso; apply H; left; reflexivity|].
  apply IH. intros Hin. apply H. right. exact Hin.
Qed.

Lemma chain_next_at : forall pre a post, ~ In a pre ->
  chain_next (pre ++ a :: post) a = Some (hd ENDOFCHAIN post).
Proof.
  induction pre as [|x t IH]; intros a post H; cbn [app chain_next].
  - rewrite N.eqb_refl. reflexivity.
  - destruct (x =? a) eqn:E; [apply N.eqb_eq in E; subst; exfalso; apply H; left; reflexivity|].
    apply IH. intros Hin. apply H. right. exact Hin.
Qed.

Lemma chains_next_at : forall cs ch pre a post,
  NoDup (concat cs) -> In ch cs -> ch = pre ++ a :: post ->
  chains_next cs a = Some (hd ENDOFCHAIN post).
Proof.
  induction cs as [|c r IH]; intros ch pre a post Hnd Hin Heq; [destruct Hin|].
  cbn [concat] in Hnd. cbn [chains_next].
  destruct (nodup_app_inv _ _ Hnd) as [Hc [Hr Hd]].
  destruct Hin as [->|Hin].
  - subst ch. rewrite chain_next_at; [reflexivity|].
    destruct (nodup_app_inv _ _ Hc) as [_ [Hc2 Hd2]].
    intros Hp. apply (Hd2 a Hp). left. reflexivity.
  - rewrite chain_next_notin.
    + apply (IH ch pre a post); [exact Hr|exact Hin|exact Heq].
    + intros Hc'. apply (Hd a Hc').
      apply in_concat. exists ch. split; [exact Hin|]. subst ch. apply in_or_app. right. left. reflexivity.
Qed.

(* a table that holds, for every element of ch, its successor in ch, contains the chain *)
Lemma Chain_of_table : forall t ch,
  (forall pre a post, ch = pre ++ a :: post ->
     a <> ENDOFCHAIN /\ nth_error t (N.to_nat a) = Some (hd ENDOFCHAIN post)) ->
  Chain t (hd ENDOFCHAIN ch) ch.
Proof.
  intros t. induction ch as [|a post IH]; intros H; [constructor|].
  cbn [hd]. destruct (H [] a post eq_refl) as [Hne Hnth].
  apply Chain_step with (nx := hd ENDOFCHAIN post); [exact Hne|exact Hnth|].
  apply IH. intros pre b post' Heq. apply (H (a :: pre) b post'). rewrite Heq. reflexivity.
Qed.

(* ------------------------------------------------------------------ subsequences *)
Inductive subseq (A : Type) : list A -> list A -> Prop :=
| subseq_nil : subseq [] []
| subseq_skip : forall x l' l, subseq l' l -> subseq l' (x :: l)
| subseq_keep : forall x l' l, subseq l' l -> subseq (x :: l') (x :: l).

Lemma subseq_refl : forall (A : Type) (l : list A), subseq l l.
Proof. induction l; constructor; assumption. Qed.

Lemma subseq_nil_l : forall (A : Type) (l : list A), subseq [] l.
Proof. induction l; constructor; assumption. Qed.

Lemma subseq_In : forall (A : Type) (l' l : list A), subseq l' l -> forall x, In x l' -> In x l.
Proof.
  induction 1 as [|y l' l H IH|y l' l H IH]; intros x Hx; [destruct Hx|right; apply IH; exact Hx|].
  destruct Hx as [->|Hx]; [left; reflexivity|right; apply IH; exact Hx].
Qed.

Lemma subseq_NoDup : forall (A : Type) (l' l : list A), subseq l' l -> NoDup l -> NoDup l'.
Proof.
  induction 1 as [|y l' l H IH|y l' l H IH]; intros Hnd; [constructor| |];
    inversion Hnd as [|? ? Hn1 Hn2]; subst.
  - apply IH. exact Hn2.
  - constructor; [|apply IH; exact Hn2]. intros Hin. apply Hn1. apply (subseq_In H). exact Hin.
Qed.

Lemma subseq_app : forall (A : Type) (a' a b' b : list A),
  subseq a' a -> subseq b' b -> subseq (a' ++ b') (a ++ b).
Proof.
  induction 1 as [|y l' l H IH|y l' l H IH]; intros Hb; cbn [app]; [exact Hb| |];
    constructor; apply IH; exact Hb.
Qed.

Lemma subseq_firstn : forall (A : Type) n (l : list A), subseq (firstn n l) l.
Proof.
  induction n as [|n IH]; intros l; [apply subseq_nil_l|].
  destruct l as [|x l]; cbn [firstn]; [constructor|]. apply subseq_keep. apply IH.
Qed.

Lemma map_fst_combine : forall (A B : Type) (a : list A) (b : list B),
  map fst (combine a b) = firstn (length b) a.
Proof.
  induction a as [|x a IH]; intros [|y b]; cbn [combine map length firstn fst]; try reflexivity.
  rewrite IH. reflexivity.
Qed.

(* ------------------------------------------------------------------ association lists *)
Lemma assocN_In : forall (A : Type) (pl : list (N * A)) k v,
  NoDup (map fst pl) -> In (k, v) pl -> assocN k pl = Some v.
Proof.
  induction pl as [|[k0 v0] r IH]; intros k v Hnd Hin; [destruct Hin|].
  cbn [map fst] in Hnd. inversion Hnd as [|? ? Hn1 Hn2]; subst. cbn [assocN].
  destruct Hin as [Heq|Hin].
  - inversion Heq; subst. rewrite N.eqb_refl. reflexivity.
  - destruct (k0 =? k) eqn:E; [|apply IH; assumption].
    apply N.eqb_eq in E. subst k0. exfalso. apply Hn1.
    apply in_map_iff. exists (k, v). split; [reflexivity|exact Hin].
Qed.

Lemma map_content_combine : forall pad sz (pl : list (N * list N)) ids cs,
  NoDup (map fst pl) -> incl (combine ids cs) pl -> (length cs <= length ids)%nat ->
  map (content_of pad sz pl) ids = cs ++ map (content_of pad sz pl) (skipn (length cs) ids).
Proof.
  intros pad sz pl. induction ids as [|i ids IH]; intros cs Hnd Hinc Hlen.
  - destruct cs; [reflexivity|cbn in Hlen; lia].
  - destruct cs as [|x cs]; [reflexivity|].
    cbn [map length skipn app]. f_equal.
    + unfold content_of. rewrite (assocN_In pl i x Hnd); [reflexivity|].
      apply Hinc. left. reflexivity.
    + apply IH; [exact Hnd| |cbn [length] in Hlen; lia].
      intros p Hp. apply Hinc. right. exact Hp.
Qed.

(* ------------------------------------------------------------------ chunks *)
Lemma chunks_aux_nil : forall fuel n, chunks_aux fuel n (@nil N) = [].
Proof. destruct fuel; reflexivity. Qed.

Lemma chunks_aux_concat : forall fuel n (l : list N), (0 < n)%nat -> (length l <= fuel)%nat ->
  concat (chunks_aux fuel n l) = l.
Proof.
  induction fuel as [|f IH]; intros n l Hn Hl.
  - destruct l; [reflexivity|cbn in Hl; lia].
  - destruct l as [|x l]; [reflexivity|]. cbn [chunks_aux concat].
    rewrite IH; [apply firstn_skipn|exact Hn|]. rewrite skipn_length. cbn [length] in *. lia.
Qed.

Lemma chunks_aux_exact : forall k fuel n (l : list N), (0 < n)%nat ->
  length l = (k * n)%nat -> (length l <= fuel)%nat ->
  Forall (fun b => length b = n) (chunks_aux fuel n l) /\ length (chunks_aux fuel n l) = k.
Proof.
  induction k as [|k IH]; intros fuel n l Hn Hk Hf.
  - destruct l; [|cbn in Hk; lia]. rewrite chunks_aux_nil. split; [constructor|reflexivity].
  - destruct l as [|x l]; [cbn in Hk; lia|]. destruct fuel as [|f]; [cbn in Hf; lia|].
    cbn [chunks_aux].
    destruct (IH f n (skipn n (x :: l)) Hn) as [H1 H2].
    + rewrite skipn_length. lia.
    + rewrite skipn_length. cbn [length] in *. lia.
    + split; [constructor; [rewrite firstn_length; lia|exact H1]|cbn [length]; rewrite H2; reflexivity].
Qed.

Lemma chunks_whole : forall k n (l : list N), (0 < n)%nat -> length l = (k * n)%nat ->
  Forall (fun b => length b = n) (chunks n l) /\ length (chunks n l) = k /\ concat (chunks n l) = l.
Proof.
  intros k n l Hn Hk. unfold chunks.
  destruct (@chunks_aux_exact k (length l) n l Hn Hk (le_n _)) as [H1 H2].
  split; [exact H1|split; [exact H2|apply chunks_aux_concat; [exact Hn|apply le_n]]].
Qed.

Lemma chunks_aux_count : forall m fuel n (l : list N), (0 < n)%nat -> (length l <= m * n)%nat ->
  (length (chunks_aux fuel n l) <= m)%nat.
Proof.
  induction m as [|m IH]; intros fuel n l Hn Hl.
  - destruct l; [rewrite chunks_aux_nil; cbn; lia|cbn in Hl; lia].
  - destruct fuel as [|f]; [cbn; lia|]. destruct l as [|x l]; [cbn; lia|].
    cbn [chunks_aux length]. apply le_n_S. apply IH; [exact Hn|].
    rewrite skipn_length. cbn [length] in *. lia.
Qed.

Lemma pad_to_length : forall n p (b : list N), (length b <= n)%nat -> length (pad_to n p b) = n.
Proof. intros. unfold pad_to. rewrite app_length, repeat_length. lia. Qed.

Lemma chunk_pad_aux : forall fuel n p (l : list N), (0 < n)%nat -> (length l <= fuel)%nat ->
  Forall (fun b => length b = n) (map (pad_to n p) (chunks_aux fuel n l)) /\
  exists k, concat (map (pad_to n p) (chunks_aux fuel n l)) = l ++ repeat p k.
Proof.
  induction fuel as [|f IH]; intros n p l Hn Hl.
  - destruct l; [|cbn in Hl; lia]. split; [constructor|exists 0%nat; reflexivity].
  - destruct l as [|x l]; [split; [constructor|exists 0%nat; reflexivity]|].
    cbn [chunks_aux map concat].
    assert (Hs : (length (skipn n (x :: l)) <= f)%nat)
      by (rewrite skipn_length; cbn [length] in *; lia).
    destruct (IH n p (skipn n (x :: l)) Hn Hs) as [H1 [k H2]].
    split; [constructor; [apply pad_to_length; rewrite firstn_length; lia|exact H1]|].
    destruct (le_lt_dec n (length (x :: l))) as [Hge|Hlt].
    + exists k. rewrite H2. unfold pad_to. rewrite firstn_length.
      replace (n - Nat.min n (length (x :: l)))%nat with 0%nat by lia. cbn [repeat].
      rewrite app_nil_r, app_assoc, firstn_skipn. reflexivity.
    + exists (n - length (x :: l))%nat.
      rewrite (skipn_all2 (x :: l)) by lia. rewrite chunks_aux_nil. cbn [map concat].
      rewrite app_nil_r. unfold pad_to. rewrite (firstn_all2 (x :: l)) by lia. reflexivity.
Qed.

Lemma chunk_pad_props : forall n p (l : list N), (0 < n)%nat ->
  Forall (fun b => length b = n) (chunk_pad n p l) /\
  exists k, concat (chunk_pad n p l) = l ++ repeat p k.
Proof. intros. unfold chunk_pad, chunks. apply chunk_pad_aux; [assumption|apply le_n]. Qed.

Lemma chunk_pad_count : forall m n p (l : list N), (0 < n)%nat -> (length l <= m * n)%nat ->
  (length (chunk_pad n p l) <= m)%nat.
Proof.
  intros. unfold chunk_pad, chunks. rewrite map_length. apply chunks_aux_count; assumption.
Qed.

(* ------------------------------------------------------------------ a sequence of blocks *)
Lemma sector_flat_map : forall (f : N -> list N) n ss i,
  (forall j, j < N.of_nat n -> length (f j) = N.to_nat ss) -> i < N.of_nat n ->
  sector ss (flat_map f (seqN n)) i = f i.
Proof.
  intros f n ss i Hf Hi. rewrite flat_map_concat_map. unfold sector, takeN, dropN.
  assert (Hb : forall b, In b (map f (seqN n)) -> length b = N.to_nat ss).
  { intros b Hb. apply in_map_iff in Hb. destruct Hb as [j [<- Hj]].
    apply Hf. unfold seqN in Hj. apply seqN_from_In in Hj. lia. }
  replace (N.to_nat (i * ss)) with (N.to_nat i * N.to_nat ss + 0)%nat by lia.
  rewrite (skipn_concat_blocks _ Hb) by (rewrite ?map_length, ?seqN_length; lia).
  cbn [skipn].
  assert (Hn : nth (N.to_nat i) (map f (seqN n)) [] = f i).
  { apply nth_error_nth. apply map_seqN_nth. exact Hi. }
  rewrite Hn. rewrite firstn_app. rewrite (Hf i Hi). rewrite Nat.sub_diag. cbn [firstn].
  rewrite app_nil_r. apply firstn_all_exact. symmetry. apply Hf. exact Hi.
Qed.

Lemma flat_map_length_blocks : forall (f : N -> list N) n (sz : nat),
  (forall j, j < N.of_nat n -> length (f j) = sz) -> length (flat_map f (seqN n)) = (n * sz)%nat.
Proof.
  intros f n sz Hf. rewrite flat_map_concat_map.
  rewrite (@concat_length_blocks sz); [rewrite map_length, seqN_length; reflexivity|].
  intros b Hb. apply in_map_iff in Hb. destruct Hb as [j [<- Hj]].
  apply Hf. unfold seqN in Hj. apply seqN_from_In in Hj. lia.
Qed.

(* ------------------------------------------------------------------ what valid_layoutb gives *)
Ltac split_andb H :=
  repeat match type of H with
         | (_ && _) = true => let H' := fresh "V" in apply andb_prop in H; destruct H as [H H']
         end.

Lemma valid_ss : forall c l, valid_layout c l -> c_ss c = 512 \/ c_ss c = 4096.
Proof.
  intros c l H. unfold valid_layout, valid_layoutb in H. split_andb H.
  apply orb_prop in H. destruct H as [H|H]; apply N.eqb_eq in H; tauto.
Qed.

Lemma forallb_In : forall (A : Type) (f : A -> bool) l, forallb f l = true -> forall x, In x l -> f x = true.
Proof. intros A f l H. apply forallb_forall. exact H. Qed.

Lemma le32_length : forall x, length (le32 x) = 4%nat.
Proof. reflexivity. Qed.

Lemma flat_map_le32_length : forall l, length (flat_map le32 l) = (4 * length l)%nat.
Proof.
  induction l as [|x l IH]; [reflexivity|]. cbn [flat_map]. rewrite app_length, le32_length, IH.
  cbn [length]. lia.
Qed.

Lemma difat_sects_lengths : forall per ids rest,
  Forall (fun e => length e = S per) (difat_sects per ids rest).
Proof.
  intros per. induction ids as [|i ids IH]; intros rest; cbn [difat_sects]; constructor; [|apply IH].
  rewrite app_length, pad_to_length by (rewrite firstn_length; lia). cbn [length]. lia.
Qed.

Lemma difat_sects_count : forall per ids rest, length (difat_sects per ids rest) = length ids.
Proof.
  intros per. induction ids as [|i ids IH]; intros rest; cbn [difat_sects length]; [reflexivity|].
  rewrite IH. reflexivity.
Qed.

Lemma encode_entry_length : forall ss hi lk name typ start size,
  (length (utf16_encode name) <= 32)%nat ->
  length (encode_entry ss hi lk (name, typ, start, size)) = 128%nat.
Proof.
  intros ss hi [[lft rgt] chd] name typ start size Hn. unfold encode_entry.
  rewrite !app_length. rewrite pad_to_length by (rewrite bytes_le_length; lia).
  destruct (ss =? 512); unfold le64; rewrite ?app_length, ?le32_length; reflexivity.
Qed.

Lemma valid_name_units : forall n, valid_nameb n = true -> (length (utf16_encode n) <= 31)%nat.
Proof.
  intros n H. unfold valid_nameb in H. split_andb H. apply Nat.leb_le in V0. exact V0.
Qed.

Lemma items_names : forall c l it, In it (items c l) -> In (fst (fst (fst it))) (all_names c).
Proof.
  intros c l it H. unfold items in H. unfold all_names. apply in_app_or in H. apply in_or_app.
  destruct H as [H|H]; apply in_map_iff in H; destruct H as [x [<- Hx]]; cbn [fst].
  - left. exact Hx.
  - right. unfold stream_chains in Hx. destruct x as [nb ch]. apply in_combine_l in Hx.
    apply in_map_iff. exists nb. split; [reflexivity|exact Hx].
Qed.

Lemma assocN_Some_In : forall (A : Type) (pl : list (N * A)) k v, assocN k pl = Some v -> In (k, v) pl.
Proof.
  induction pl as [|[k0 v0] r IH]; intros k v H; [discriminate|]. cbn [assocN] in H.
  destruct (k0 =? k) eqn:E.
  - apply N.eqb_eq in E. inversion H; subst. left. reflexivity.
  - right. apply IH. exact H.
Qed.

Lemma dir_entry_length : forall c l i, valid_layout c l -> length (dir_entry c l i) = 128%nat.
Proof.
  intros c l i Hv. unfold dir_entry, dir_entry_of.
  destruct (dir_item_of (root_item l) (slot_table c l) i) as [[[name typ] start] size] eqn:E.
  apply encode_entry_length.
  unfold dir_item_of in E. destruct (i =? 0).
  - unfold root_item in E. inversion E; subst. vm_compute. lia.
  - destruct (assocN i (slot_table c l)) as [it|] eqn:Ea.
    + apply assocN_Some_In in Ea. unfold slot_table in Ea. apply in_combine_r in Ea.
      apply items_names in Ea. subst it. cbn [fst] in Ea.
      unfold valid_layout, valid_layoutb in Hv. split_andb Hv.
      pose proof (valid_name_units _ (forallb_In _ _ V8 _ Ea)). lia.
    + unfold unused_item in E. inversion E; subst. vm_compute. lia.
Qed.

Lemma epf_nat : forall ss, ss = 512 \/ ss = 4096 ->
  (4 * N.to_nat (epf ss) = N.to_nat ss)%nat /\ (N.to_nat (ss / 128) * 128 = N.to_nat ss)%nat /\
  (0 < N.to_nat ss)%nat /\ (1 <= N.to_nat (epf ss))%nat.
Proof. intros ss [->| ->]; vm_compute; repeat split; lia. Qed.

(* every placed sector content has exactly the sector size *)
Lemma placed_lengths : forall c l, valid_layout c l ->
  forall i b, In (i, b) (placed c l) -> length b = N.to_nat (c_ss c).
Proof.
  intros c l Hv i b Hin.
  pose proof (valid_ss Hv) as Hss. destruct (epf_nat Hss) as [He [Hd [Hpos He1]]].
  unfold placed in Hin.
  repeat (apply in_app_or in Hin; destruct Hin as [Hin|Hin]).
  - apply in_combine_r in Hin.
    destruct (@chunks_whole (length (l_fat_ids l)) (N.to_nat (c_ss c)) (flat_map le32 (fat_table c l)) Hpos)
      as [Hf _].
    + rewrite flat_map_le32_length. unfold fat_table. rewrite map_length, seqN_length. nia.
    + rewrite Forall_forall in Hf. apply Hf. exact Hin.
  - apply in_combine_r in Hin. apply in_map_iff in Hin. destruct Hin as [e [<- He']].
    rewrite flat_map_le32_length.
    pose proof (difat_sects_lengths (N.to_nat (epf (c_ss c)) - 1) (l_difat_ids l) (skipn 109 (l_fat_ids l))) as Hl.
    rewrite Forall_forall in Hl. rewrite (Hl e He'). lia.
  - apply in_combine_r in Hin.
    destruct (@chunks_whole (length (l_dir_ids l)) (N.to_nat (c_ss c)) (dir_bytes c l) Hpos) as [Hf _].
    + unfold dir_bytes. rewrite (@flat_map_length_blocks _ _ 128%nat).
      * unfold nslots. nia.
      * intros j _. apply dir_entry_length. exact Hv.
    + rewrite Forall_forall in Hf. apply Hf. exact Hin.
  - apply in_combine_r in Hin.
    destruct (@chunks_whole (length (l_minifat_ids l)) (N.to_nat (c_ss c)) (flat_map le32 (minifat_table c l)) Hpos)
      as [Hf _].
    + rewrite flat_map_le32_length. unfold minifat_table. rewrite map_length, seqN_length. nia.
    + rewrite Forall_forall in Hf. apply Hf. exact Hin.
  - apply in_combine_r in Hin.
    destruct (chunk_pad_props (l_pad l) (mini_stream c l) Hpos) as [Hf _].
    rewrite Forall_forall in Hf. apply Hf. exact Hin.
  - apply in_flat_map in Hin. destruct Hin as [p [_ Hp]]. apply in_combine_r in Hp.
    destruct (chunk_pad_props (l_pad l) (snd (fst p)) Hpos) as [Hf _].
    rewrite Forall_forall in Hf. apply Hf. exact Hp.
Qed.

Lemma sector_content_length : forall c l i, valid_layout c l ->
  length (sector_content c l i) = N.to_nat (c_ss c).
Proof.
  intros c l i Hv. unfold sector_content, content_of.
  destruct (assocN i (placed c l)) as [b|] eqn:E; [|apply repeat_length].
  apply assocN_Some_In in E. apply (placed_lengths Hv _ _ E).
Qed.

Lemma body_length : forall c l, valid_layout c l ->
  lenN (body_bytes c l) = l_nsect l * c_ss c.
Proof.
  intros c l Hv. rewrite lenN_length. unfold body_bytes.
  rewrite (@flat_map_length_blocks _ _ (N.to_nat (c_ss c))); [lia|].
  intros j _. apply sector_content_length. exact Hv.
Qed.

Lemma body_sector : forall c l i, valid_layout c l -> i < l_nsect l ->
  sector (c_ss c) (body_bytes c l) i = sector_content c l i.
Proof.
  intros c l i Hv Hi. unfold body_bytes. apply sector_flat_map; [|lia].
  intros j _. apply sector_content_length. exact Hv.
Qed.

(* ------------------------------------------------------------------ keys of the placement *)
Lemma subseq_flat_combine : forall (A : Type) (h : A * list N -> list (list N)) (L : list (A * list N)),
  subseq (map fst (flat_map (fun p => combine (snd p) (h p)) L)) (concat (map snd L)).
Proof.
  intros A h. induction L as [|p L IH]; [constructor|].
  cbn [flat_map map concat]. rewrite map_app, map_fst_combine.
  apply subseq_app; [apply subseq_firstn|exact IH].
Qed.

Lemma valid_ids : forall c l, valid_layout c l ->
  NoDup (all_sector_ids c l) /\ (forall i, In i (all_sector_ids c l) -> i < l_nsect l) /\
  l_nsect l <= N.of_nat (length (l_fat_ids l)) * epf (c_ss c) /\ l_nsect l < RESERVED_SECTORS.
Proof.
  intros c l Hv. unfold valid_layout, valid_layoutb in Hv. split_andb Hv.
  split; [apply nodupb_NoDup; exact V18|]. split; [|split; [apply N.leb_le; exact V16|apply N.ltb_lt; exact V15]].
  intros i Hi. apply N.ltb_lt. apply (forallb_In _ _ V17 _ Hi).
Qed.

Lemma placed_keys_nodup : forall c l, valid_layout c l -> NoDup (map fst (placed c l)).
Proof.
  intros c l Hv. destruct (valid_ids Hv) as [Hnd _].
  apply (subseq_NoDup (l := all_sector_ids c l)); [|exact Hnd].
  unfold placed, all_sector_ids, sector_chains. cbn [concat].
  rewrite !map_app, !map_fst_combine.
  repeat (apply subseq_app; [apply subseq_firstn|]).
  unfold big_chains. apply subseq_flat_combine.
Qed.

Lemma NoDup_concat_In : forall (cs : list (list N)) ch, NoDup (concat cs) -> In ch cs -> NoDup ch.
Proof.
  induction cs as [|c r IH]; intros ch Hnd Hin; [destruct Hin|].
  cbn [concat] in Hnd. destruct (nodup_app_inv _ _ Hnd) as [Hc [Hr _]].
  destruct Hin as [->|Hin]; [exact Hc|apply IH; assumption].
Qed.

(* every chain of the layout is a chain of the written FAT *)
Lemma sector_chain_in_fat : forall c l ch, valid_layout c l -> In ch (sector_chains c l) ->
  Chain (fat_table c l) (hd ENDOFCHAIN ch) ch /\ NoDup ch /\ (forall id, In id ch -> id < l_nsect l).
Proof.
  intros c l ch Hv Hin. destruct (valid_ids Hv) as [Hnd [Hlt [Hcov Hres]]].
  unfold all_sector_ids in Hnd, Hlt.
  destruct (nodup_app_inv _ _ Hnd) as [_ [Hnd2 Hd1]].
  destruct (nodup_app_inv _ _ Hnd2) as [_ [Hnd3 Hd2]].
  assert (Hall : forall id, In id ch -> In id (concat (sector_chains c l)))
    by (intros id Hid; apply in_concat; exists ch; split; assumption).
  assert (Hb : forall id, In id ch -> id < l_nsect l).
  { intros id Hid. apply Hlt. apply in_or_app. right. apply in_or_app. right. apply Hall. exact Hid. }
  split; [|split; [apply (NoDup_concat_In _ _ Hnd3 Hin)|exact Hb]].
  apply Chain_of_table. intros pre a post Heq.
  assert (Ha : In a ch) by (rewrite Heq; apply in_or_app; right; left; reflexivity).
  pose proof (Hb a Ha) as Hlta. unfold RESERVED_SECTORS in Hres.
  split; [unfold ENDOFCHAIN; lia|].
  unfold fat_table. rewrite map_seqN_nth by lia. f_equal.
  unfold fat_entry, fat_entry_of.
  replace (memN a (l_fat_ids l)) with false.
  2:{ symmetry. apply memN_false. intros Hf. apply (Hd1 a Hf). apply in_or_app. right. apply Hall. exact Ha. }
  replace (memN a (l_difat_ids l)) with false.
  2:{ symmetry. apply memN_false. intros Hf. apply (Hd2 a Hf). apply Hall. exact Ha. }
  rewrite (chains_next_at (sector_chains c l) pre a post Hnd3 Hin Heq). reflexivity.
Qed.

Lemma object_sectors : forall c l ch (cs : list (list N)), valid_layout c l ->
  In ch (sector_chains c l) -> incl (combine ch cs) (placed c l) -> (length cs <= length ch)%nat ->
  exists junk, concat (map (sector (c_ss c) (body_bytes c l)) ch) = concat cs ++ junk.
Proof.
  intros c l ch cs Hv Hin Hinc Hlen.
  destruct (sector_chain_in_fat Hv Hin) as [_ [_ Hb]].
  rewrite (map_ext_in _ (sector_content c l)) by (intros a Ha; apply body_sector; [exact Hv|apply Hb; exact Ha]).
  unfold sector_content.
  rewrite (@map_content_combine (l_pad l) (N.to_nat (c_ss c)) (placed c l) ch cs (placed_keys_nodup Hv) Hinc Hlen).
  rewrite concat_app. eexists. reflexivity.
Qed.

Lemma firstn_app_exact_l : forall (A : Type) (a b : list A), firstn (length a) (a ++ b) = a.
Proof.
  intros. rewrite firstn_app, Nat.sub_diag, firstn_all. cbn [firstn]. apply app_nil_r.
Qed.

Lemma stream_ok_facts : forall c l n b ch, valid_layout c l -> In ((n, b), ch) (stream_chains c l) ->
  lenN b <= N.of_nat (length ch) * (if is_big b then c_ss c else 64) /\ lenN b < 4294967296 /\
  (lenN b = 0 -> ch = []).
Proof.
  intros c l n b ch Hv Hin. unfold valid_layout, valid_layoutb in Hv. split_andb Hv.
  pose proof (forallb_In _ _ V6 _ Hin) as H. cbn [stream_okb] in H. split_andb H.
  split; [apply N.leb_le; exact H|split; [apply N.ltb_lt; exact V20|]].
  intros H0. rewrite H0 in V19. cbn in V19. destruct ch; [reflexivity|discriminate].
Qed.

(* a stream of 4096 bytes or more: its chain is in the FAT and its sectors hold its bytes *)
Lemma big_stream_read : forall c l n b ch, valid_layout c l ->
  In ((n, b), ch) (stream_chains c l) -> is_big b = true ->
  Chain (fat_table c l) (hd ENDOFCHAIN ch) ch /\ NoDup ch /\
  (forall id, In id ch -> (id + 1) * c_ss c <= lenN (body_bytes c l)) /\
  trunc_spec (lenN b) (concat (map (sector (c_ss c) (body_bytes c l)) ch)) = b.
Proof.
  intros c l n b ch Hv Hin Hbig.
  pose proof (valid_ss Hv) as Hss. destruct (epf_nat Hss) as [_ [_ [Hpos _]]].
  assert (Hbs : In ((n, b), ch) (big_streams c l)) by (apply filter_In; split; [exact Hin|exact Hbig]).
  assert (Hch : In ch (sector_chains c l)).
  { right. right. right. unfold big_chains. apply in_map_iff. exists ((n, b), ch). split; [reflexivity|exact Hbs]. }
  destruct (sector_chain_in_fat Hv Hch) as [Hc [Hnd Hb]].
  split; [exact Hc|split; [exact Hnd|split]].
  - intros id Hid. rewrite (body_length Hv). pose proof (Hb id Hid). nia.
  - destruct (stream_ok_facts _ _ _ Hv Hin) as [Hlen _]. rewrite Hbig in Hlen.
    destruct (@object_sectors c l ch (chunk_pad (N.to_nat (c_ss c)) (l_pad l) b) Hv Hch) as [junk Hj].
    + intros p Hp. unfold placed. do 5 (apply in_or_app; right).
      apply in_flat_map. exists ((n, b), ch). split; [exact Hbs|exact Hp].
    + apply chunk_pad_count; [exact Hpos|]. rewrite lenN_length in Hlen. nia.
    + rewrite Hj. destruct (chunk_pad_props (l_pad l) b Hpos) as [_ [k Hk]]. rewrite Hk.
      unfold trunc_spec. unfold is_big, MINI_CUTOFF in Hbig. apply N.leb_le in Hbig.
      replace (0 <? lenN b) with true by (symmetry; apply N.ltb_lt; lia).
      rewrite lenN_length, Nat2N.id, <- app_assoc. apply firstn_app_exact_l.
Qed.

(* ------------------------------------------------------------------ the mini stream *)
Lemma valid_minis : forall c l, valid_layout c l ->
  NoDup (concat (mini_chains c l)) /\ (forall m, In m (concat (mini_chains c l)) -> m < l_nmini l) /\
  l_nmini l <= N.of_nat (length (l_minifat_ids l)) * epf (c_ss c) /\
  l_nmini l * 64 <= N.of_nat (length (l_root_ids l)) * c_ss c /\ l_nmini l < 67108864.
Proof.
  intros c l Hv. unfold valid_layout, valid_layoutb in Hv. split_andb Hv.
  split; [apply nodupb_NoDup; exact V5|]. split.
  - intros m Hm. apply N.ltb_lt. apply (forallb_In _ _ V4 _ Hm).
  - split; [apply N.leb_le; exact V3|split; [apply N.leb_le; exact V2|apply N.ltb_lt; exact V1]].
Qed.

Lemma mini_placed_keys_nodup : forall c l, valid_layout c l -> NoDup (map fst (mini_placed c l)).
Proof.
  intros c l Hv. destruct (valid_minis Hv) as [Hnd _].
  apply (subseq_NoDup (l := concat (mini_chains c l))); [|exact Hnd].
  unfold mini_placed, mini_chains. apply subseq_flat_combine.
Qed.

Lemma mini_content_length : forall c l m, length (mini_content c l m) = 64%nat.
Proof.
  intros c l m. unfold mini_content, content_of.
  destruct (assocN m (mini_placed c l)) as [b|] eqn:E; [|apply repeat_length].
  apply assocN_Some_In in E. unfold mini_placed in E. apply in_flat_map in E.
  destruct E as [p [_ Hp]]. apply in_combine_r in Hp.
  destruct (@chunk_pad_props 64 (l_pad l) (snd (fst p))) as [Hf _]; [lia|].
  rewrite Forall_forall in Hf. apply Hf. exact Hp.
Qed.

Lemma mini_stream_length : forall c l, lenN (mini_stream c l) = l_nmini l * 64.
Proof.
  intros c l. rewrite lenN_length. unfold mini_stream.
  rewrite (@flat_map_length_blocks _ _ 64%nat); [lia|]. intros j _. apply mini_content_length.
Qed.

Lemma mini_sector : forall c l m, m < l_nmini l -> sector 64 (mini_stream c l) m = mini_content c l m.
Proof.
  intros c l m Hm. unfold mini_stream. apply sector_flat_map; [|lia].
  intros j _. apply mini_content_length.
Qed.

(* what Cfb::new reads as the mini stream: the root entry's chain, cut at the root entry's size *)
Definition ministream_read c l : list N :=
  trunc_spec (l_nmini l * 64) (concat (map (sector (c_ss c) (body_bytes c l)) (l_root_ids l))).

Lemma ministream_read_prefix : forall c l, valid_layout c l ->
  exists X, ministream_read c l = mini_stream c l ++ X.
Proof.
  intros c l Hv. pose proof (valid_ss Hv) as Hss. destruct (epf_nat Hss) as [_ [_ [Hpos _]]].
  destruct (valid_minis Hv) as [_ [_ [_ [Hroot _]]]].
  assert (Hch : In (l_root_ids l) (sector_chains c l)) by (right; right; left; reflexivity).
  destruct (@object_sectors c l (l_root_ids l)
              (chunk_pad (N.to_nat (c_ss c)) (l_pad l) (mini_stream c l)) Hv Hch) as [junk Hj].
  - intros p Hp. unfold placed. do 4 (apply in_or_app; right). apply in_or_app. left. exact Hp.
  - apply chunk_pad_count; [exact Hpos|]. pose proof (mini_stream_length c l) as Hl.
    rewrite lenN_length in Hl. nia.
  - unfold ministream_read. rewrite Hj.
    destruct (chunk_pad_props (l_pad l) (mini_stream c l) Hpos) as [_ [k Hk]]. rewrite Hk.
    unfold trunc_spec. destruct (0 <? l_nmini l * 64) eqn:E.
    + exists []. rewrite app_nil_r, <- app_assoc.
      pose proof (mini_stream_length c l) as Hl. rewrite lenN_length in Hl.
      replace (N.to_nat (l_nmini l * 64)) with (length (mini_stream c l)) by lia.
      apply firstn_app_exact_l.
    + rewrite <- app_assoc. eexists. reflexivity.
Qed.

Lemma mini_chain_in_minifat : forall c l ch, valid_layout c l -> In ch (mini_chains c l) ->
  Chain (minifat_table c l) (hd ENDOFCHAIN ch) ch /\ NoDup ch /\ (forall m, In m ch -> m < l_nmini l).
Proof.
  intros c l ch Hv Hin. destruct (valid_minis Hv) as [Hnd [Hlt [Hcov [_ Hsmall]]]].
  assert (Hall : forall id, In id ch -> In id (concat (mini_chains c l)))
    by (intros id Hid; apply in_concat; exists ch; split; assumption).
  assert (Hb : forall id, In id ch -> id < l_nmini l) by (intros id Hid; apply Hlt, Hall, Hid).
  split; [|split; [apply (NoDup_concat_In _ _ Hnd Hin)|exact Hb]].
  apply Chain_of_table. intros pre a post Heq.
  assert (Ha : In a ch) by (rewrite Heq; apply in_or_app; right; left; reflexivity).
  pose proof (Hb a Ha) as Hlta.
  split; [unfold ENDOFCHAIN; lia|].
  unfold minifat_table. rewrite map_seqN_nth by lia. f_equal.
  unfold minifat_entry, minifat_entry_of.
  rewrite (chains_next_at (mini_chains c l) pre a post Hnd Hin Heq). reflexivity.
Qed.

(* a stream below the cutoff: its chain is in the mini FAT and its mini sectors hold its bytes *)
Lemma small_stream_read : forall c l n b ch, valid_layout c l ->
  In ((n, b), ch) (stream_chains c l) -> is_big b = false ->
  Chain (minifat_table c l) (hd ENDOFCHAIN ch) ch /\ NoDup ch /\
  (forall m, In m ch -> (m + 1) * 64 <= lenN (ministream_read c l)) /\
  trunc_spec (lenN b) (concat (map (sector 64 (ministream_read c l)) ch)) = b.
Proof.
  intros c l n b ch Hv Hin Hbig.
  assert (Hss : In ((n, b), ch) (small_streams c l))
    by (apply filter_In; split; [exact Hin|cbn [fst snd]; rewrite Hbig; reflexivity]).
  assert (Hch : In ch (mini_chains c l)).
  { unfold mini_chains. apply in_map_iff. exists ((n, b), ch). split; [reflexivity|exact Hss]. }
  destruct (@mini_chain_in_minifat c l ch Hv Hch) as [Hc [Hnd Hb]].
  destruct (ministream_read_prefix Hv) as [X HX].
  assert (Hin64 : forall m, In m ch -> (m + 1) * 64 <= lenN (mini_stream c l))
    by (intros m Hm; rewrite mini_stream_length; pose proof (Hb m Hm); lia).
  split; [exact Hc|split; [exact Hnd|split]].
  - intros m Hm. rewrite HX, lenN_length, app_length. pose proof (Hin64 m Hm) as H.
    rewrite lenN_length in H. lia.
  - destruct (stream_ok_facts _ _ _ Hv Hin) as [Hlen [_ Hzero]]. rewrite Hbig in Hlen.
    destruct (0 <? lenN b) eqn:E.
    2:{ apply N.ltb_ge in E. assert (H0 : lenN b = 0) by lia.
        rewrite (Hzero H0). rewrite lenN_length in H0. destruct b; [reflexivity|cbn in H0; lia]. }
    rewrite HX.
    rewrite (map_ext_in _ (mini_content c l)).
    2:{ intros m Hm. rewrite sector_app by (apply Hin64; exact Hm). apply mini_sector. apply Hb. exact Hm. }
    unfold mini_content.
    rewrite (@map_content_combine (l_pad l) 64%nat (mini_placed c l) ch (chunk_pad 64 (l_pad l) b)
               (mini_placed_keys_nodup Hv)).
    + destruct (@chunk_pad_props 64 (l_pad l) b) as [_ [k Hk]]; [lia|].
      rewrite concat_app, Hk. unfold trunc_spec. rewrite E.
      rewrite lenN_length, Nat2N.id, <- app_assoc. apply firstn_app_exact_l.
    + intros p Hp. unfold mini_placed. apply in_flat_map. exists ((n, b), ch). split; [exact Hss|exact Hp].
    + apply chunk_pad_count; [lia|]. rewrite lenN_length in Hlen. nia.
Qed.

(* ------------------------------------------------------------------ the directory *)
(* the entry Cfb::new builds from what cfb_write lays down in slot i: the item of the slot and the
   three link fields (32-bit values on disk) *)
Definition u32 (x : N) : N := x mod 4294967296.
Definition dirent_of (lk : N * N * N) (it : list N * N * N * N) : dirent :=
  {| d_name := fst (fst (fst it));
     d_left := u32 (fst (fst lk)); d_right := u32 (snd (fst lk)); d_child := u32 (snd lk);
     d_start := snd (fst it); d_len := snd it |}.
Definition entry_at c l (i : N) : dirent := dirent_of (link_of (link_table l) i) (dir_item c l i).
Definition parsed_dirs c l : list dirent := map (entry_at c l) (seqN (nslots c l)).

Lemma valid_dir : forall c l, valid_layout c l ->
  NoDup (l_slots l) /\ (forall s, In s (l_slots l) -> 1 <= s < N.of_nat (nslots c l)) /\
  length (l_slots l) = (length (c_storages c) + length (c_streams c))%nat /\
  length (l_chains l) = length (c_streams c) /\
  (forall n, In n (all_names c) -> valid_nameb n = true) /\ hier_okb c = true.
Proof.
  intros c l Hv. unfold valid_layout, valid_layoutb in Hv. split_andb Hv.
  split; [apply nodupb_NoDup; exact V12|]. split.
  - intros s Hs. pose proof (forallb_In _ _ V11 _ Hs) as H. apply andb_prop in H. destruct H as [H1 H2].
    apply N.leb_le in H1. apply N.ltb_lt in H2. lia.
  - split; [apply Nat.eqb_eq; exact V10|]. split; [apply Nat.eqb_eq; exact V9|].
    split; [apply forallb_In; exact V8|exact V7].
Qed.

Lemma items_names_eq : forall c l, length (l_chains l) = length (c_streams c) ->
  map (fun it => fst (fst (fst it))) (items c l) = all_names c.
Proof.
  intros c l Hlen. unfold items, all_names. rewrite map_app, !map_map. cbn [fst]. rewrite map_id.
  f_equal. unfold stream_chains.
  rewrite <- (map_map fst fst). rewrite map_fst_combine, Hlen, firstn_all. reflexivity.
Qed.

Lemma items_length : forall c l, length (l_chains l) = length (c_streams c) ->
  length (items c l) = (length (c_storages c) + length (c_streams c))%nat.
Proof.
  intros c l Hlen. unfold items, stream_chains.
  rewrite app_length, !map_length, combine_length, Hlen. lia.
Qed.

Lemma in_combine_exists : forall (A B : Type) (a : list A) (b : list B) y,
  length a = length b -> In y b -> exists x, In (x, y) (combine a b).
Proof.
  induction a as [|x a IH]; intros [|y0 b] y Hl Hin; try (cbn in Hl; discriminate); [destruct Hin|].
  destruct Hin as [->|Hin]; [exists x; left; reflexivity|].
  destruct (IH b y) as [x' Hx']; [cbn in Hl; lia|exact Hin|]. exists x'. right. exact Hx'.
Qed.

Lemma NoDup_map_inj_on : forall (A B : Type) (f : A -> B) (l : list A) x y,
  NoDup (map f l) -> In x l -> In y l -> f x = f y -> x = y.
Proof.
  induction l as [|a l IH]; intros x y Hnd Hx Hy Hf; [destruct Hx|].
  cbn [map] in Hnd. inversion Hnd as [|? ? Hn1 Hn2]; subst.
  destruct Hx as [->|Hx], Hy as [->|Hy]; try reflexivity.
  - exfalso. apply Hn1. rewrite Hf. apply in_map. exact Hy.
  - exfalso. apply Hn1. rewrite <- Hf. apply in_map. exact Hx.
  - apply IH; assumption.
Qed.

(* every item of the container has a slot, and the entry of that slot is in the directory *)
Lemma item_in_dirs : forall c l it, valid_layout c l -> In it (items c l) ->
  exists s, In (s, it) (slot_table c l) /\ dir_item c l s = it /\ In (entry_at c l s) (parsed_dirs c l).
Proof.
  intros c l it Hv Hit. destruct (valid_dir Hv) as [Hnd [Hrange [Hls [Hlc _]]]].
  destruct (@in_combine_exists _ _ (l_slots l) (items c l) it) as [s Hs];
    [rewrite (items_length c l Hlc); exact Hls|exact Hit|].
  pose proof (in_combine_l _ _ _ _ Hs) as Hsl. destruct (Hrange s Hsl) as [H1 H2].
  exists s. split; [exact Hs|].
  assert (Hdi : dir_item c l s = it).
  { unfold dir_item, dir_item_of.
    replace (s =? 0) with false by (symmetry; apply N.eqb_neq; lia).
    unfold slot_table. rewrite (assocN_In _ s it); [reflexivity| |exact Hs].
    rewrite map_fst_combine, (items_length c l Hlc), <- Hls, firstn_all. exact Hnd. }
  split; [exact Hdi|].
  unfold parsed_dirs. apply in_map_iff. exists s. split; [reflexivity|].
  unfold seqN. apply seqN_from_In. lia.
Qed.

(* all names of the container distinct (over the whole file, not only per storage): a flat scan
   of the directory array then cannot meet another entry *)
Definition names_unique (c : container) : Prop := names_uniqueb c = true.
Lemma names_unique_NoDup : forall c, names_unique c -> NoDup (all_names c).
Proof. intros c H. apply nodup_namesb_NoDup. exact H. Qed.
Lemma names_unique_keys : forall c, names_unique c -> NoDup (map name_key (all_names c)).
Proof. intros c H. apply nodup_namesb_keys. exact H. Qed.

Lemma stream_has_chain : forall c l n b, length (l_chains l) = length (c_streams c) ->
  In (n, b) (c_streams c) -> exists ch, In ((n, b), ch) (stream_chains c l).
Proof.
  intros c l n b Hlen Hin. unfold stream_chains.
  assert (G : forall (A B : Type) (a : list A) (b : list B) x, length a = length b -> In x a ->
              exists y, In (x, y) (combine a b)).
  { induction a as [|x0 a IH]; intros [|y0 b0] x Hl Hx; try (cbn in Hl; discriminate); [destruct Hx|].
    destruct Hx as [->|Hx]; [exists y0; left; reflexivity|].
    destruct (IH b0 x) as [y Hy]; [cbn in Hl; lia|exact Hx|]. exists y. right. exact Hy. }
  apply G; [symmetry; exact Hlen|exact Hin].
Qed.

Lemma hd_nonempty : forall (d1 d2 : N) (l : list N), l <> [] -> hd d1 l = hd d2 l.
Proof. intros d1 d2 [|x l] H; [contradiction|reflexivity]. Qed.

Lemma nonempty_stream_chain : forall c l n b ch, valid_layout c l ->
  In ((n, b), ch) (stream_chains c l) -> 0 < lenN b -> ch <> [].
Proof.
  intros c l n b ch Hv Hin Hpos. destruct (stream_ok_facts _ _ _ Hv Hin) as [Hlen _].
  intros ->. cbn [length] in Hlen. lia.
Qed.

(* ================================================================== Part 3: bytes of the tables *)
Lemma le32_value : forall x, x < 4294967296 ->
  x mod 256 + 256 * ((x / 256) mod 256) + 65536 * ((x / 65536) mod 256)
  + 16777216 * ((x / 16777216) mod 256) = x.
Proof. intros x H. lia. Qed.

Lemma to_u32_aux_le32 : forall xs, Forall (fun x => x < 4294967296) xs ->
  to_u32_aux (flat_map le32 xs) = xs.
Proof.
  induction 1 as [|x xs Hx Hxs IH]; [reflexivity|].
  cbn [flat_map le32 app to_u32_aux]. rewrite IH, (le32_value Hx). reflexivity.
Qed.

Lemma to_u32_aux_app : forall n (a b : list N), length a = (4 * n)%nat ->
  to_u32_aux (a ++ b) = to_u32_aux a ++ to_u32_aux b.
Proof.
  induction n as [|n IH]; intros a b Ha.
  - destruct a; [reflexivity|cbn in Ha; lia].
  - destruct a as [|b0 [|b1 [|b2 [|b3 a]]]]; try (cbn in Ha; lia).
    cbn [app to_u32_aux]. rewrite (IH a b); [reflexivity|cbn [length] in Ha; lia].
Qed.

Lemma to_u32_ok : forall (b : list N) n, length b = (4 * n)%nat -> to_u32 b = Ok (to_u32_aux b).
Proof. reflexivity. Qed.

(* the FAT loading loop returns the little-endian words of the listed sectors, in order *)
Lemma load_fats_bytes : forall ss body ids s r,
  ss = 512 \/ ss = 4096 -> Inv ss body s r ->
  (forall id, In id ids -> (id + 1) * ss <= lenN body) ->
  exists s' r', load_fats ids s r = Ok (to_u32_aux (concat (map (sector ss body) ids)), s', r')
                /\ Inv ss body s' r'.
Proof.
  intros ss body ids s r Hss. revert s r. induction ids as [|id ids IH]; intros s r HI Hin.
  - cbn [load_fats map concat to_u32_aux]. eexists; eexists; split; [reflexivity|exact HI].
  - cbn [load_fats].
    destruct (get_in_body id HI (Hin id (or_introl eq_refl))) as [s1 [r1 [Hg [HI1 _]]]].
    rewrite Hg. cbn [obind].
    assert (Hl : length (sector ss body id) = (4 * N.to_nat (ss / 4))%nat).
    { rewrite sector_length by (apply Hin; left; reflexivity). destruct Hss; subst ss; reflexivity. }
    rewrite (@to_u32_ok _ _ Hl). cbn [obind].
    destruct (IH s1 r1 HI1) as [s2 [r2 [Hl2 HI2]]]; [intros x Hx; apply Hin; right; exact Hx|].
    rewrite Hl2. cbn [obind map concat]. rewrite (@to_u32_aux_app _ _ _ Hl).
    eexists; eexists; split; [reflexivity|exact HI2].
Qed.

(* the sectors listed as FAT sectors hold the FAT table of the layout *)
Lemma fat_sectors_hold_table : forall c l, valid_layout c l ->
  concat (map (sector (c_ss c) (body_bytes c l)) (l_fat_ids l)) = flat_map le32 (fat_table c l).
Proof.
  intros c l Hv. pose proof (valid_ss Hv) as Hss. destruct (epf_nat Hss) as [He [_ [Hpos _]]].
  destruct (valid_ids Hv) as [_ [Hlt _]].
  assert (Hb : forall id, In id (l_fat_ids l) -> id < l_nsect l).
  { intros id Hid. apply Hlt. unfold all_sector_ids. apply in_or_app. left. exact Hid. }
  rewrite (map_ext_in _ (sector_content c l)) by (intros a Ha; apply body_sector; [exact Hv|apply Hb; exact Ha]).
  destruct (@chunks_whole (length (l_fat_ids l)) (N.to_nat (c_ss c)) (flat_map le32 (fat_table c l)) Hpos)
    as [_ [Hcnt Hcat]].
  { rewrite flat_map_le32_length. unfold fat_table. rewrite map_length, seqN_length. nia. }
  unfold sector_content.
  rewrite (@map_content_combine (l_pad l) (N.to_nat (c_ss c)) (placed c l) (l_fat_ids l)
             (chunks (N.to_nat (c_ss c)) (flat_map le32 (fat_table c l))) (placed_keys_nodup Hv)).
  - rewrite Hcnt, skipn_all. cbn [map]. rewrite app_nil_r. exact Hcat.
  - intros p Hp. unfold placed. apply in_or_app. left. exact Hp.
  - rewrite Hcnt. apply le_n.
Qed.

Lemma fat_entry_u32 : forall c l i, valid_layout c l -> fat_entry c l i < 4294967296.
Proof.
  intros c l i Hv. destruct (valid_ids Hv) as [Hnd [Hlt [_ Hres]]].
  unfold fat_entry, fat_entry_of.
  destruct (memN i (l_fat_ids l)); [vm_compute; reflexivity|].
  destruct (memN i (l_difat_ids l)); [vm_compute; reflexivity|].
  destruct (chains_next (sector_chains c l) i) as [x|] eqn:E; [|vm_compute; reflexivity].
  (* a successor is ENDOFCHAIN or a sector of a chain *)
  assert (G : forall cs a y, chains_next cs a = Some y -> y = ENDOFCHAIN \/ In y (concat cs)).
  { induction cs as [|ch cs IH]; intros a y H; [discriminate|]. cbn [chains_next] in H.
    destruct (chain_next ch a) as [z|] eqn:Ez.
    - inversion H; subst z. clear H.
      assert (G2 : forall ch a y, chain_next ch a = Some y -> y = ENDOFCHAIN \/ In y ch).
      { clear. induction ch as [|x t IHt]; intros a y H; [discriminate|]. cbn [chain_next] in H.
        destruct (x =? a).
        - inversion H. destruct t; [left; reflexivity|right; right; left; reflexivity].
        - destruct (IHt a y H) as [->|Hy]; [left; reflexivity|right; right; exact Hy]. }
      destruct (G2 ch a y Ez) as [->|Hy]; [left; reflexivity|right].
      cbn [concat]. apply in_or_app. left. exact Hy.
    - destruct (IH a y H) as [->|Hy]; [left; reflexivity|right]. cbn [concat]. apply in_or_app. right. exact Hy. }
  destruct (G _ _ _ E) as [->|Hx]; [vm_compute; reflexivity|].
  assert (x < l_nsect l).
  { apply Hlt. unfold all_sector_ids. apply in_or_app. right. apply in_or_app. right. exact Hx. }
  unfold RESERVED_SECTORS in Hres. lia.
Qed.

(* Cfb::new's FAT loading loop, run on the FAT sector ids of the layout, yields the FAT table *)
Theorem fat_load_roundtrip : forall c l s r, valid_layout c l ->
  Inv (c_ss c) (body_bytes c l) s r ->
  exists s' r', load_fats (l_fat_ids l) s r = Ok (fat_table c l, s', r') /\
                Inv (c_ss c) (body_bytes c l) s' r'.
Proof.
  intros c l s r Hv HI. pose proof (valid_ss Hv) as Hss.
  destruct (valid_ids Hv) as [_ [Hlt _]].
  destruct (@load_fats_bytes (c_ss c) (body_bytes c l) (l_fat_ids l) s r Hss HI) as [s' [r' [Hl HI']]].
  - intros id Hid. rewrite (body_length Hv).
    assert (id < l_nsect l) by (apply Hlt; unfold all_sector_ids; apply in_or_app; left; exact Hid).
    nia.
  - exists s', r'. split; [|exact HI']. rewrite Hl, (fat_sectors_hold_table Hv).
    rewrite to_u32_aux_le32; [reflexivity|].
    apply Forall_forall. intros x Hx. unfold fat_table in Hx. apply in_map_iff in Hx.
    destruct Hx as [i [<- _]]. apply (fat_entry_u32 _ Hv).
Qed.

(* a chain whose sectors were filled from exactly |ids| * ss bytes gives those bytes back *)
Lemma exact_object : forall c l ids (bytes : list N), valid_layout c l ->
  (forall id, In id ids -> id < l_nsect l) ->
  incl (combine ids (chunks (N.to_nat (c_ss c)) bytes)) (placed c l) ->
  length bytes = (length ids * N.to_nat (c_ss c))%nat ->
  concat (map (sector (c_ss c) (body_bytes c l)) ids) = bytes.
Proof.
  intros c l ids bytes Hv Hb Hinc Hlen.
  pose proof (valid_ss Hv) as Hss. destruct (epf_nat Hss) as [_ [_ [Hpos _]]].
  rewrite (map_ext_in _ (sector_content c l)) by (intros a Ha; apply body_sector; [exact Hv|apply Hb; exact Ha]).
  destruct (@chunks_whole (length ids) (N.to_nat (c_ss c)) bytes Hpos Hlen) as [_ [Hcnt Hcat]].
  unfold sector_content.
  rewrite (@map_content_combine (l_pad l) (N.to_nat (c_ss c)) (placed c l) ids
             (chunks (N.to_nat (c_ss c)) bytes) (placed_keys_nodup Hv) Hinc).
  - rewrite Hcnt, skipn_all. cbn [map]. rewrite app_nil_r. exact Hcat.
  - rewrite Hcnt. apply le_n.
Qed.

Lemma nodup_bound : forall (l : list N) n, NoDup l -> (forall x, In x l -> x < n) ->
  N.of_nat (length l) <= n.
Proof.
  intros l n Hnd Hb.
  assert (H : (length l <= N.to_nat n)%nat); [|lia].
  rewrite <- (map_length N.to_nat l). rewrite <- (seq_length (N.to_nat n) 0).
  apply NoDup_incl_length.
  - apply FinFun.Injective_map_NoDup; [|exact Hnd]. intros a b Hab. lia.
  - intros x Hx. apply in_map_iff in Hx. destruct Hx as [y [<- Hy]].
    apply in_seq. pose proof (Hb y Hy). lia.
Qed.

Lemma trunc_spec_exact : forall len (x : list N), (0 < len -> lenN x <= len) -> trunc_spec len x = x.
Proof.
  intros len x H. unfold trunc_spec. destruct (0 <? len) eqn:E; [|reflexivity].
  apply firstn_all2. apply N.ltb_lt in E. specialize (H E). rewrite lenN_length in H. lia.
Qed.

(* the directory chain read by Cfb::new (length argument dir_len * sector_size: 0 for version 3,
   the number of directory sectors for version 4) is the sequence of directory entries *)
Theorem dir_chain_roundtrip : forall c l s r, valid_layout c l ->
  Inv (c_ss c) (body_bytes c l) s r ->
  exists s' r',
    get_chain s (hd ENDOFCHAIN (l_dir_ids l)) (fat_table c l) r
              ((if c_ss c =? 512 then 0 else N.of_nat (length (l_dir_ids l))) * c_ss c)
    = Ok (dir_bytes c l, s', r') /\ Inv (c_ss c) (body_bytes c l) s' r'.
Proof.
  intros c l s r Hv HI. pose proof (valid_ss Hv) as Hss. destruct (epf_nat Hss) as [_ [Hd [Hpos _]]].
  assert (Hch : In (l_dir_ids l) (sector_chains c l)) by (left; reflexivity).
  destruct (sector_chain_in_fat Hv Hch) as [Hc [Hnd Hb]].
  assert (Hlen : length (dir_bytes c l) = (length (l_dir_ids l) * N.to_nat (c_ss c))%nat).
  { unfold dir_bytes. rewrite (@flat_map_length_blocks _ _ 128%nat).
    - unfold nslots. nia.
    - intros j _. apply dir_entry_length. exact Hv. }
  destruct (@chain_follow (fat_table c l) (c_ss c) (body_bytes c l) (hd ENDOFCHAIN (l_dir_ids l))
              (l_dir_ids l) ((if c_ss c =? 512 then 0 else N.of_nat (length (l_dir_ids l))) * c_ss c)
              s r Hc Hnd HI) as [s' [r' [Hg HI']]].
  - intros id Hid. rewrite (body_length Hv). pose proof (Hb id Hid). nia.
  - exists s', r'. split; [|exact HI']. rewrite Hg.
    rewrite (@exact_object c l (l_dir_ids l) (dir_bytes c l) Hv Hb); [|
      intros p Hp; unfold placed; do 2 (apply in_or_app; right); apply in_or_app; left; exact Hp|exact Hlen].
    rewrite trunc_spec_exact; [reflexivity|].
    intros H0. rewrite lenN_length, Hlen. destruct (c_ss c =? 512); [lia|].
    rewrite Nat2N.inj_mul, N2Nat.id. lia.
Qed.

Lemma minifat_entry_u32 : forall c l i, valid_layout c l -> minifat_entry c l i < 4294967296.
Proof.
  intros c l i Hv. destruct (valid_minis Hv) as [_ [Hlt [_ [_ Hsmall]]]].
  unfold minifat_entry, minifat_entry_of.
  destruct (chains_next (mini_chains c l) i) as [x|] eqn:E; [|vm_compute; reflexivity].
  assert (G2 : forall ch a y, chain_next ch a = Some y -> y = ENDOFCHAIN \/ In y ch).
  { induction ch as [|x0 t IHt]; intros a y H; [discriminate|]. cbn [chain_next] in H.
    destruct (x0 =? a).
    - inversion H. destruct t; [left; reflexivity|right; right; left; reflexivity].
    - destruct (IHt a y H) as [->|Hy]; [left; reflexivity|right; right; exact Hy]. }
  assert (G : forall cs a y, chains_next cs a = Some y -> y = ENDOFCHAIN \/ In y (concat cs)).
  { induction cs as [|ch cs IH]; intros a y H; [discriminate|]. cbn [chains_next] in H.
    destruct (chain_next ch a) as [z|] eqn:Ez.
    - inversion H; subst z. destruct (G2 ch a y Ez) as [->|Hy]; [left; reflexivity|right].
      cbn [concat]. apply in_or_app. left. exact Hy.
    - destruct (IH a y H) as [->|Hy]; [left; reflexivity|right]. cbn [concat]. apply in_or_app. right. exact Hy. }
  destruct (G _ _ _ E) as [->|Hx]; [vm_compute; reflexivity|].
  pose proof (Hlt x Hx). lia.
Qed.

(* the mini FAT chain read by Cfb::new is the mini FAT table of the layout *)
Theorem minifat_load_roundtrip : forall c l s r, valid_layout c l ->
  Inv (c_ss c) (body_bytes c l) s r ->
  exists mf s' r',
    get_chain s (hd ENDOFCHAIN (l_minifat_ids l)) (fat_table c l) r
              (N.of_nat (length (l_minifat_ids l)) * c_ss c) = Ok (mf, s', r') /\
    to_u32 mf = Ok (minifat_table c l) /\ Inv (c_ss c) (body_bytes c l) s' r'.
Proof.
  intros c l s r Hv HI. pose proof (valid_ss Hv) as Hss. destruct (epf_nat Hss) as [He [_ [Hpos _]]].
  assert (Hch : In (l_minifat_ids l) (sector_chains c l)) by (right; left; reflexivity).
  destruct (sector_chain_in_fat Hv Hch) as [Hc [Hnd Hb]].
  assert (Hlen : length (flat_map le32 (minifat_table c l))
                 = (length (l_minifat_ids l) * N.to_nat (c_ss c))%nat).
  { rewrite flat_map_le32_length. unfold minifat_table. rewrite map_length, seqN_length. nia. }
  destruct (@chain_follow (fat_table c l) (c_ss c) (body_bytes c l) (hd ENDOFCHAIN (l_minifat_ids l))
              (l_minifat_ids l) (N.of_nat (length (l_minifat_ids l)) * c_ss c)
              s r Hc Hnd HI) as [s' [r' [Hg HI']]].
  - intros id Hid. rewrite (body_length Hv). pose proof (Hb id Hid). nia.
  - eexists; exists s', r'. split; [exact Hg|split; [|exact HI']].
    rewrite (@exact_object c l (l_minifat_ids l) (flat_map le32 (minifat_table c l)) Hv Hb); [|
      intros p Hp; unfold placed; do 3 (apply in_or_app; right); apply in_or_app; left; exact Hp|exact Hlen].
    rewrite trunc_spec_exact.
    + rewrite (@to_u32_ok _ (length (minifat_table c l))) by apply flat_map_le32_length.
      f_equal. apply to_u32_aux_le32. apply Forall_forall. intros x Hx.
      unfold minifat_table in Hx. apply in_map_iff in Hx. destruct Hx as [i [<- _]].
      apply (minifat_entry_u32 _ Hv).
    + intros _. rewrite lenN_length, Hlen, Nat2N.inj_mul, N2Nat.id. lia.
Qed.

(* the mini stream read by Cfb::new (root entry: start = first root sector, size = nmini * 64) *)
Theorem ministream_roundtrip : forall c l s r, valid_layout c l ->
  Inv (c_ss c) (body_bytes c l) s r ->
  exists s' r',
    get_chain s (hd ENDOFCHAIN (l_root_ids l)) (fat_table c l) r (l_nmini l * 64)
    = Ok (ministream_read c l, s', r') /\ Inv (c_ss c) (body_bytes c l) s' r'.
Proof.
  intros c l s r Hv HI.
  assert (Hch : In (l_root_ids l) (sector_chains c l)) by (right; right; left; reflexivity).
  destruct (sector_chain_in_fat Hv Hch) as [Hc [Hnd Hb]].
  destruct (valid_minis Hv) as [_ [_ [_ [_ Hsmall]]]].
  destruct (@chain_follow (fat_table c l) (c_ss c) (body_bytes c l) (hd ENDOFCHAIN (l_root_ids l))
              (l_root_ids l) (l_nmini l * 64) s r Hc Hnd HI) as [s' [r' [Hg HI']]].
  - intros id Hid. rewrite (body_length Hv). pose proof (Hb id Hid). nia.
  - exists s', r'. split; [exact Hg|exact HI'].
Qed.

(* ================================================================== Part 4: the whole file *)

(* ------------------------------------------------------------------ DIFAT walk *)
Lemma pop_snoc : forall (A : Type) (l : list A) x, pop (l ++ [x]) = Some (l, x).
Proof. intros. unfold pop. rewrite rev_app_distr. cbn [rev app]. rewrite rev_involutive. reflexivity. Qed.

(* the FAT sector ids held by the DIFAT sectors (without the next-sector pointers) *)
Fixpoint difat_entries (per : nat) (ids : list N) (rest : list N) : list N :=
  match ids with
  | [] => []
  | _ :: ids' => pad_to per FREESECT (firstn per rest) ++ difat_entries per ids' (skipn per rest)
  end.

Lemma Forall_firstn : forall (A : Type) (P : A -> Prop) n (l : list A), Forall P l -> Forall P (firstn n l).
Proof.
  intros A P n l H. apply Forall_forall. intros x Hx. rewrite Forall_forall in H. apply H.
  apply (subseq_In (subseq_firstn n l)). exact Hx.
Qed.

Lemma Forall_skipn : forall (A : Type) (P : A -> Prop) n (l : list A), Forall P l -> Forall P (skipn n l).
Proof.
  intros A P n l H. rewrite <- (firstn_skipn n l) in H. apply Forall_app in H. tauto.
Qed.

Lemma Forall_pad_to : forall (P : N -> Prop) n p (l : list N), Forall P l -> P p -> Forall P (pad_to n p l).
Proof.
  intros P n p l Hl Hp. unfold pad_to. apply Forall_app. split; [exact Hl|].
  apply Forall_forall. intros x Hx. apply repeat_spec in Hx. subst. exact Hp.
Qed.

Lemma sector_index_bound : forall ss L x, 0 < ss -> (x + 1) * ss <= L -> x < L / ss.
Proof.
  intros ss L x Hss H. apply N.lt_le_trans with (x + 1); [lia|].
  apply N.div_le_lower_bound; [lia|nia].
Qed.

Lemma difat_walk : forall ss body per ids rest acc s r fuel V,
  ss = 512 \/ ss = 4096 -> S per = N.to_nat (ss / 4) ->
  (length ids < fuel)%nat -> Inv ss body s r ->
  (forall id, In id ids -> (id + 1) * ss <= lenN body) ->
  NoDup (V ++ ids) -> (forall v, In v V -> (v + 1) * ss <= lenN (sdata s)) ->
  Forall (fun x => x < RESERVED_SECTORS) ids -> Forall (fun x => x < 4294967296) rest ->
  map (sector ss body) ids = map (flat_map le32) (difat_sects per ids rest) ->
  exists s' r', difat_loop fuel (N.of_nat (length V)) s (hd ENDOFCHAIN ids) acc r
                = Ok (acc ++ difat_entries per ids rest, s', r') /\ Inv ss body s' r'.
Proof.
  intros ss body per. induction ids as [|i ids IH];
    intros rest acc s r fuel V Hss Hper Hf HI Hin Hnd HV Hres Hrest Hmap.
  - destruct fuel as [|f]; [cbn in Hf; lia|]. cbn [difat_loop hd difat_entries].
    change (ENDOFCHAIN <? RESERVED_SECTORS) with false. cbn iota. rewrite app_nil_r.
    eexists; eexists; split; [reflexivity|exact HI].
  - destruct fuel as [|f]; [cbn in Hf; lia|]. cbn [difat_loop hd].
    inversion Hres as [|? ? Hi Hres']; subst.
    replace (i <? RESERVED_SECTORS) with true by (symmetry; apply N.ltb_lt; exact Hi).
    destruct (get_in_body i HI (Hin i (or_introl eq_refl))) as [s1 [r1 [Hg [HI1 [Hi1 Hmono]]]]].
    rewrite Hg. cbn [obind].
    destruct HI as [Hs Hb]. rewrite Hs.
    assert (Hsl : length (sector ss body i) = N.to_nat ss)
      by (apply sector_length; apply Hin; left; reflexivity).
    replace (lenN (sector ss body i) <? ss) with false
      by (symmetry; apply N.ltb_ge; rewrite lenN_length, Hsl; lia).
    cbn [map difat_sects] in Hmap. injection Hmap as Hhead Htail.
    rewrite Hhead.
    set (E := pad_to per FREESECT (firstn per rest)) in *.
    assert (HE : Forall (fun x => x < 4294967296) (E ++ [hd ENDOFCHAIN ids])).
    { apply Forall_app. split.
      - apply Forall_pad_to; [apply Forall_firstn; exact Hrest|reflexivity].
      - constructor; [|constructor]. destruct ids as [|j ids']; [reflexivity|].
        inversion Hres' as [|? ? Hj _]; subst. cbn [hd]. unfold RESERVED_SECTORS in Hj. lia. }
    unfold to_u32. cbn [obind]. rewrite (to_u32_aux_le32 HE).
    rewrite app_assoc, pop_snoc.
    (* the cycle guard: the sectors visited so far are distinct and all inside the cache *)
    assert (HV1 : forall v, In v (V ++ [i]) -> (v + 1) * ss <= lenN (sdata s1)).
    { intros v Hv. apply in_app_or in Hv. destruct Hv as [Hv|[<-|[]]]; [|exact Hi1].
      pose proof (HV v Hv). lia. }
    assert (Hnd1 : NoDup (V ++ [i])).
    { rewrite <- (app_nil_r (V ++ [i])). rewrite <- app_assoc.
      change ([i] ++ []) with [i]. apply (subseq_NoDup (l := V ++ i :: ids)); [|exact Hnd].
      apply subseq_app; [apply subseq_refl|]. apply subseq_keep. apply subseq_nil_l. }
    assert (Hcnt : N.of_nat (length (V ++ [i])) <= lenN (sdata s1) / ss).
    { apply nodup_bound; [exact Hnd1|]. intros x Hx. apply sector_index_bound; [destruct Hss; lia|].
      apply HV1. exact Hx. }
    rewrite app_length in Hcnt. cbn [length] in Hcnt.
    replace (lenN (sdata s1) / ss <? N.of_nat (length V) + 1) with false
      by (symmetry; apply N.ltb_ge; lia).
    replace (N.of_nat (length V) + 1) with (N.of_nat (length (V ++ [i])))
      by (rewrite app_length; cbn [length]; lia).
    destruct (IH (skipn per rest) (acc ++ E) s1 r1 f (V ++ [i]) Hss Hper) as [s2 [r2 [Hl HI2]]].
    + cbn [length] in Hf. lia.
    + exact HI1.
    + intros x Hx. apply Hin. right. exact Hx.
    + rewrite <- app_assoc. exact Hnd.
    + exact HV1.
    + exact Hres'.
    + apply Forall_skipn. exact Hrest.
    + exact Htail.
    + rewrite Hl. cbn [difat_entries]. rewrite <- app_assoc.
      eexists; eexists; split; [reflexivity|exact HI2].
Qed.

Lemma filter_none : forall (p : N -> bool) l, (forall x, In x l -> p x = false) -> filter p l = [].
Proof.
  induction l as [|x l IH]; intros H; [reflexivity|]. cbn [filter].
  rewrite (H x (or_introl eq_refl)). apply IH. intros y Hy. apply H. right. exact Hy.
Qed.

Lemma filter_all : forall (p : N -> bool) l, (forall x, In x l -> p x = true) -> filter p l = l.
Proof.
  induction l as [|x l IH]; intros H; [reflexivity|]. cbn [filter].
  rewrite (H x (or_introl eq_refl)). f_equal. apply IH. intros y Hy. apply H. right. exact Hy.
Qed.

Lemma filter_pad_to : forall (p : N -> bool) n q l,
  (forall x, In x l -> p x = true) -> p q = false -> filter p (pad_to n q l) = l.
Proof.
  intros p n q l Hl Hq. unfold pad_to. rewrite filter_app, (filter_all p l Hl).
  rewrite filter_none; [apply app_nil_r|]. intros x Hx. apply repeat_spec in Hx. subst. exact Hq.
Qed.

Lemma firstn_add : forall (A : Type) a b (l : list A),
  firstn a l ++ firstn b (skipn a l) = firstn (a + b) l.
Proof.
  induction a as [|a IH]; intros b l; [reflexivity|].
  destruct l as [|x l]; [cbn [firstn skipn app Nat.add]; destruct b; reflexivity|].
  cbn [firstn skipn app Nat.add]. f_equal. apply IH.
Qed.

Lemma filter_difat_entries : forall (p : N -> bool) per ids rest,
  (forall x, In x rest -> p x = true) -> p FREESECT = false ->
  filter p (difat_entries per ids rest) = firstn (per * length ids) rest.
Proof.
  intros p per. induction ids as [|i ids IH]; intros rest Hr Hq.
  - cbn [difat_entries length]. rewrite Nat.mul_0_r. reflexivity.
  - cbn [difat_entries length]. rewrite filter_app.
    rewrite filter_pad_to; [|intros x Hx; apply Hr; apply (subseq_In (subseq_firstn per rest)); exact Hx|exact Hq].
    rewrite IH; [|intros x Hx; apply Hr; rewrite <- (firstn_skipn per rest); apply in_or_app; right; exact Hx|exact Hq].
    replace (per * S (length ids))%nat with (per + per * length ids)%nat by lia.
    apply firstn_add.
Qed.

Lemma valid_difat_room : forall c l, valid_layout c l ->
  N.of_nat (length (l_fat_ids l)) <= 109 + N.of_nat (length (l_difat_ids l)) * (epf (c_ss c) - 1).
Proof.
  intros c l Hv. unfold valid_layout, valid_layoutb in Hv. split_andb Hv. apply N.leb_le. exact V14.
Qed.

Lemma ids_in_file : forall c l id, valid_layout c l -> In id (all_sector_ids c l) ->
  id < l_nsect l /\ (id + 1) * c_ss c <= lenN (body_bytes c l).
Proof.
  intros c l id Hv Hid. destruct (valid_ids Hv) as [_ [Hlt _]]. pose proof (Hlt id Hid) as H.
  split; [exact H|]. rewrite (body_length Hv). nia.
Qed.

(* Cfb::new's DIFAT walk over the written file collects exactly the FAT sector ids *)
Theorem difat_roundtrip : forall c l s r fuel, valid_layout c l ->
  Inv (c_ss c) (body_bytes c l) s r -> (length (l_difat_ids l) < fuel)%nat ->
  exists D s' r',
    difat_loop fuel 0 s (hd ENDOFCHAIN (l_difat_ids l)) (difat_header l) r = Ok (D, s', r') /\
    filter (fun id => id <? DIFSECT) D = l_fat_ids l /\ Inv (c_ss c) (body_bytes c l) s' r'.
Proof.
  intros c l s r fuel Hv HI Hf.
  pose proof (valid_ss Hv) as Hss. destruct (epf_nat Hss) as [He [_ [Hpos He1]]].
  destruct (valid_ids Hv) as [_ [Hlt [_ Hres]]]. unfold RESERVED_SECTORS in Hres.
  set (per := (N.to_nat (epf (c_ss c)) - 1)%nat).
  assert (Hfat : forall x, In x (l_fat_ids l) -> x < l_nsect l).
  { intros x Hx. apply Hlt. unfold all_sector_ids. apply in_or_app. left. exact Hx. }
  assert (Hdif : forall x, In x (l_difat_ids l) -> In x (all_sector_ids c l)).
  { intros x Hx. unfold all_sector_ids. apply in_or_app. right. apply in_or_app. left. exact Hx. }
  destruct (@difat_walk (c_ss c) (body_bytes c l) per (l_difat_ids l) (skipn 109 (l_fat_ids l))
              (difat_header l) s r fuel [] Hss) as [s' [r' [Hl HI']]].
  - unfold per, epf in *. lia.
  - exact Hf.
  - exact HI.
  - intros id Hid. apply (@ids_in_file c l id Hv (Hdif id Hid)).
  - cbn [app]. destruct (valid_ids Hv) as [Hnd0 _]. unfold all_sector_ids in Hnd0.
    destruct (nodup_app_inv _ _ Hnd0) as [_ [Hnd1 _]]. destruct (nodup_app_inv _ _ Hnd1) as [Hnd2 _].
    exact Hnd2.
  - intros v [].
  - apply Forall_forall. intros x Hx. pose proof (Hlt x (Hdif x Hx)). unfold RESERVED_SECTORS. lia.
  - apply Forall_skipn. apply Forall_forall. intros x Hx. pose proof (Hfat x Hx). lia.
  - rewrite (map_ext_in _ (sector_content c l))
      by (intros a Ha; apply body_sector; [exact Hv|apply Hlt, Hdif, Ha]).
    unfold sector_content.
    rewrite (@map_content_combine (l_pad l) (N.to_nat (c_ss c)) (placed c l) (l_difat_ids l)
               (map (flat_map le32) (difat_sects per (l_difat_ids l) (skipn 109 (l_fat_ids l))))
               (placed_keys_nodup Hv)).
    + rewrite map_length, difat_sects_count, skipn_all. cbn [map]. apply app_nil_r.
    + intros p Hp. unfold placed. apply in_or_app. right. apply in_or_app. left. exact Hp.
    + rewrite map_length, difat_sects_count. apply le_n.
  - exists (difat_header l ++ difat_entries per (l_difat_ids l) (skipn 109 (l_fat_ids l))), s', r'.
    split; [exact Hl|split; [|exact HI']].
    assert (Hp : forall x, In x (l_fat_ids l) -> (x <? DIFSECT) = true).
    { intros x Hx. apply N.ltb_lt. pose proof (Hfat x Hx). unfold DIFSECT. lia. }
    rewrite filter_app.
    rewrite (@filter_difat_entries (fun id => id <? DIFSECT) per);
      [|intros x Hx; apply Hp; rewrite <- (firstn_skipn 109 (l_fat_ids l)); apply in_or_app; right; exact Hx
       |reflexivity].
    unfold difat_header. rewrite firstn_app, filter_app.
    rewrite (filter_all _ (firstn 109 (l_fat_ids l)))
      by (intros x Hx; apply Hp; apply (subseq_In (subseq_firstn 109 (l_fat_ids l))); exact Hx).
    rewrite filter_none.
    2:{ intros x Hx. apply (subseq_In (subseq_firstn _ _)) in Hx. apply repeat_spec in Hx. subst. reflexivity. }
    rewrite app_nil_r, firstn_add. apply firstn_all2.
    pose proof (valid_difat_room Hv) as Hroom. unfold per. unfold epf in *.
    destruct Hss as [E|E]; rewrite E in *; vm_compute N.to_nat; lia.
Qed.

(* ------------------------------------------------------------------ directory entries *)
Lemma firstn_app_len : forall (A : Type) (a b : list A) n, length a = n -> firstn n (a ++ b) = a.
Proof. intros A a b n H. subst n. apply firstn_app_exact_l. Qed.

Lemma skipn_app_len : forall (A : Type) (a b : list A) n, length a = n -> skipn n (a ++ b) = b.
Proof.
  intros A a b n H. subst n. rewrite skipn_app, Nat.sub_diag, skipn_all. reflexivity.
Qed.

Lemma chunks_aux_blocks : forall (n : nat) (blocks : list (list N)) fuel, (0 < n)%nat ->
  (forall b, In b blocks -> length b = n) -> (length blocks <= fuel)%nat ->
  chunks_aux fuel n (concat blocks) = blocks.
Proof.
  intros n. induction blocks as [|b rest IH]; intros fuel Hn Hb Hf.
  - apply chunks_aux_nil.
  - destruct fuel as [|f]; [cbn in Hf; lia|].
    pose proof (Hb b (or_introl eq_refl)) as Hlb.
    destruct b as [|x b']; [cbn in Hlb; lia|].
    cbn [concat]. change ((x :: b') ++ concat rest) with (x :: (b' ++ concat rest)).
    cbn [chunks_aux]. change (x :: (b' ++ concat rest)) with ((x :: b') ++ concat rest).
    rewrite (firstn_app_len _ _ Hlb), (skipn_app_len _ _ Hlb). f_equal.
    apply IH; [exact Hn|intros y Hy; apply Hb; right; exact Hy|cbn [length] in Hf; lia].
Qed.

Lemma chunks_blocks : forall (n : nat) (blocks : list (list N)), (0 < n)%nat ->
  (forall b, In b blocks -> length b = n) -> chunks n (concat blocks) = blocks.
Proof.
  intros n blocks Hn Hb. unfold chunks. apply chunks_aux_blocks; [exact Hn|exact Hb|].
  rewrite (@concat_length_blocks n blocks Hb). nia.
Qed.

Lemma units_le_zeros : forall m, units_of_bytes_le (repeat 0 (2 * m)) = (repeat 0 m, false).
Proof.
  induction m as [|m IH]; [reflexivity|].
  replace (2 * S m)%nat with (S (S (2 * m))) by lia. cbn [repeat units_of_bytes_le]. rewrite IH.
  reflexivity.
Qed.

Lemma units_le_app_zeros : forall us m,
  units_of_bytes_le (bytes_le_of_units us ++ repeat 0 (2 * m)) = (us ++ repeat 0 m, false).
Proof.
  induction us as [|u us IH]; intros m; [apply units_le_zeros|].
  unfold bytes_le_of_units in *. cbn [flat_map app units_of_bytes_le]. rewrite IH.
  f_equal. f_equal. lia.
Qed.

Lemma utf16_decode_zeros : forall m, utf16_decode (repeat 0 m) = repeat 0 m.
Proof.
  induction m as [|m IH]; [reflexivity|]. cbn [repeat].
  rewrite decode_bmp by reflexivity. rewrite IH. reflexivity.
Qed.

Lemma take_until_nul_zeros : forall s m, (forall ch, In ch s -> ch <> 0) ->
  take_until_nul (s ++ repeat 0 m) = s.
Proof.
  induction s as [|x s IH]; intros m H.
  - destruct m; reflexivity.
  - cbn [app take_until_nul].
    replace (x =? 0) with false by (symmetry; apply N.eqb_neq; apply H; left; reflexivity).
    f_equal. apply IH. intros ch Hc. apply H. right. exact Hc.
Qed.

Lemma decode_name_roundtrip : forall name,
  Forall scalar name -> (forall ch, In ch name -> ch <> 0) -> (length (utf16_encode name) <= 32)%nat ->
  decode_name (pad_to 64 0 (bytes_le_of_units (utf16_encode name))) = name.
Proof.
  intros name Hs Hz Hl. unfold decode_name, pad_to, utf16le_decode_bytes.
  rewrite bytes_le_length.
  replace (64 - 2 * length (utf16_encode name))%nat with (2 * (32 - length (utf16_encode name)))%nat by lia.
  rewrite units_le_app_zeros. rewrite decode_encode_app by exact Hs.
  rewrite utf16_decode_zeros, app_nil_r. apply take_until_nul_zeros. exact Hz.
Qed.

Lemma nth_app_plus : forall (a b : list N) k, nth (length a + k) (a ++ b) 0 = nth k b 0.
Proof. intros. apply app_nth2_plus. Qed.

Lemma u32_at_app : forall (a b : list N) n k, length a = n -> u32_at (a ++ b) (n + k) = u32_at b k.
Proof.
  intros a b n k H. subst n. unfold u32_at.
  replace (1 + (length a + k))%nat with (length a + (1 + k))%nat by lia.
  replace (2 + (length a + k))%nat with (length a + (2 + k))%nat by lia.
  replace (3 + (length a + k))%nat with (length a + (3 + k))%nat by lia.
  rewrite !nth_app_plus. reflexivity.
Qed.

Definition item_ok (it : list N * N * N * N) : Prop :=
  Forall scalar (fst (fst (fst it))) /\ (forall ch, In ch (fst (fst (fst it))) -> ch <> 0) /\
  (length (utf16_encode (fst (fst (fst it)))) <= 31)%nat /\
  snd (fst it) < 4294967296 /\ snd it < 4294967296.

Lemma le32_value_mod : forall x,
  x mod 256 + 256 * ((x / 256) mod 256) + 65536 * ((x / 65536) mod 256)
  + 16777216 * ((x / 16777216) mod 256) = x mod 4294967296.
Proof. intros x. lia. Qed.

Lemma from_slice_entry : forall ss hi lk it, ss = 512 \/ ss = 4096 -> item_ok it ->
  from_slice (encode_entry ss hi lk it) ss = Ok (dirent_of lk it).
Proof.
  intros ss hi [[lft rgt] chd] [[[name typ] start] size] Hss (Hs & Hz & Hl & Hst & Hsz). cbn [fst snd] in *.
  assert (Hlen : length (encode_entry ss hi (lft, rgt, chd) (name, typ, start, size)) = 128%nat)
    by (apply encode_entry_length; lia).
  unfold from_slice. rewrite Hlen.
  change (128 <? 64)%nat with false. change (128 <? 80)%nat with false. change (128 <? 120)%nat with false.
  change (128 <? 124)%nat with false. change (128 <? 128)%nat with false. cbn iota.
  unfold dirent_of. cbn [fst snd].
  assert (Hx : length (pad_to 64 0 (bytes_le_of_units (utf16_encode name))) = 64%nat)
    by (apply pad_to_length; rewrite bytes_le_length; lia).
  unfold encode_entry.
  rewrite (firstn_app_len _ _ Hx), decode_name_roundtrip by (assumption || lia).
  change 68%nat with (64 + 4)%nat. change 72%nat with (64 + 8)%nat. change 76%nat with (64 + 12)%nat.
  change 116%nat with (64 + 52)%nat. change 120%nat with (64 + 56)%nat.
  rewrite (u32_at_app _ _ 4 Hx), (u32_at_app _ _ 8 Hx), (u32_at_app _ _ 12 Hx), (u32_at_app _ _ 52 Hx).
  set (hd2 := le16 (if typ =? 0 then 0 else 2 * (N.of_nat (length (utf16_encode name)) + 1))).
  assert (H68 : forall tail, u32_at (hd2 ++ [typ; 1] ++ le32 lft ++ tail) 4 = u32 lft).
  { intros tail. unfold u32_at, hd2, u32. cbn [le16 le32 app repeat nth Nat.add]. apply le32_value_mod. }
  assert (H72 : forall tail, u32_at (hd2 ++ [typ; 1] ++ le32 lft ++ le32 rgt ++ tail) 8 = u32 rgt).
  { intros tail. unfold u32_at, hd2, u32. cbn [le16 le32 app repeat nth Nat.add]. apply le32_value_mod. }
  assert (H76 : forall tail, u32_at (hd2 ++ [typ; 1] ++ le32 lft ++ le32 rgt ++ le32 chd ++ tail) 12 = u32 chd).
  { intros tail. unfold u32_at, hd2, u32. cbn [le16 le32 app repeat nth Nat.add]. apply le32_value_mod. }
  assert (H116 : forall tail, u32_at (hd2 ++
                  [typ; 1] ++ le32 lft ++ le32 rgt ++ le32 chd ++ repeat 0 36 ++
                  le32 start ++ tail) 52 = start).
  { intros tail. unfold u32_at, hd2. cbn [le16 le32 app repeat nth Nat.add]. apply le32_value. exact Hst. }
  rewrite H68, H72, H76, H116.
  destruct (ss =? 512) eqn:E.
  - rewrite (u32_at_app _ _ 56 Hx).
    replace (u32_at _ 56) with size; [reflexivity|].
    unfold u32_at, hd2. cbn [le16 le32 app repeat nth Nat.add]. symmetry. apply le32_value. exact Hsz.
  - unfold u64_at. change (4 + (64 + 56))%nat with (64 + 60)%nat.
    rewrite (u32_at_app _ _ 56 Hx), (u32_at_app _ _ 60 Hx).
    replace (u32_at _ 56 + 4294967296 * u32_at _ 60) with size; [reflexivity|].
    unfold u32_at, le64, hd2. cbn [le16 le32 app repeat nth Nat.add].
    rewrite (le32_value (x := size mod 4294967296)) by lia.
    rewrite (le32_value (x := size / 4294967296)) by lia. lia.
Qed.

Lemma map_outcome_map : forall (A B : Type) (f : A -> outcome B) (g : A -> B) l,
  (forall x, In x l -> f x = Ok (g x)) -> map_outcome f l = Ok (map g l).
Proof.
  induction l as [|x l IH]; intros H; [reflexivity|]. cbn [map_outcome map].
  rewrite (H x (or_introl eq_refl)). cbn [obind]. rewrite IH; [reflexivity|].
  intros y Hy. apply H. right. exact Hy.
Qed.

Lemma valid_name_facts : forall n, valid_nameb n = true ->
  Forall scalar n /\ (forall ch, In ch n -> ch <> 0) /\ (length (utf16_encode n) <= 31)%nat.
Proof.
  intros n H. unfold valid_nameb in H. split_andb H.
  split; [|split; [|apply Nat.leb_le; exact V0]].
  - apply Forall_forall. intros ch Hc. pose proof (forallb_In _ _ V1 _ Hc) as Hx.
    apply andb_prop in Hx. exact (proj1 Hx).
  - intros ch Hc. pose proof (forallb_In _ _ V1 _ Hc) as Hx. apply andb_prop in Hx.
    destruct Hx as [_ Hx]. destruct (ch =? 0) eqn:E; [discriminate|]. apply N.eqb_neq. exact E.
Qed.

Lemma valid_es : forall c l, valid_layout c l -> l_empty_start l < 4294967296.
Proof.
  intros c l Hv. unfold valid_layout, valid_layoutb in Hv. split_andb Hv.
  apply andb_prop in V. apply N.ltb_lt. exact (proj2 V).
Qed.

Lemma dir_item_ok : forall c l i, valid_layout c l -> item_ok (dir_item c l i).
Proof.
  intros c l i Hv. destruct (valid_ids Hv) as [_ [Hlt [_ Hres]]]. unfold RESERVED_SECTORS in Hres.
  destruct (valid_minis Hv) as [_ [Hmlt [_ [_ Hsmall]]]].
  unfold dir_item, dir_item_of. destruct (i =? 0).
  - unfold item_ok, root_item. cbn [fst snd]. split; [|split; [|split; [|split]]].
    + apply Forall_forall. intros x Hx. apply (forallb_In scalarb ROOT_NAME eq_refl x Hx).
    + intros ch Hc. pose proof (forallb_In (fun x => negb (x =? 0)) ROOT_NAME eq_refl ch Hc) as H.
      cbn beta in H. destruct (ch =? 0) eqn:E; [cbn in H; discriminate H|]. apply N.eqb_neq. exact E.
    + vm_compute. lia.
    + destruct (l_root_ids l) as [|x t] eqn:E; [reflexivity|]. cbn [hd].
      assert (x < l_nsect l); [|lia]. apply Hlt. unfold all_sector_ids, sector_chains. cbn [concat].
      rewrite E. do 4 (apply in_or_app; right). left. reflexivity.
    + lia.
  - destruct (assocN i (slot_table c l)) as [it|] eqn:Ea.
    + apply assocN_Some_In in Ea. unfold slot_table in Ea. apply in_combine_r in Ea.
      pose proof (items_names _ _ _ Ea) as Hn.
      destruct (valid_dir Hv) as [_ [_ [_ [_ [Hval _]]]]].
      destruct (valid_name_facts _ (Hval _ Hn)) as [H1 [H2 H3]].
      unfold item_ok. split; [exact H1|split; [exact H2|split; [exact H3|]]].
      unfold items in Ea. apply in_app_or in Ea. destruct Ea as [Ea|Ea]; apply in_map_iff in Ea.
      * destruct Ea as [x [<- _]]. cbn [fst snd]. split; reflexivity.
      * destruct Ea as [[[n b] ch] [<- Hch]]. cbn [fst snd].
        destruct (stream_ok_facts _ _ _ Hv Hch) as [_ [H32 _]]. split; [|exact H32].
        destruct ch as [|x t]; [apply (valid_es Hv)|]. cbn [hd].
        destruct (is_big b) eqn:Hbig.
        -- assert (x < l_nsect l); [|lia]. apply Hlt. unfold all_sector_ids.
           do 2 (apply in_or_app; right). apply in_concat. exists (x :: t). split; [|left; reflexivity].
           right. right. right. unfold big_chains. apply in_map_iff. exists ((n, b), x :: t).
           split; [reflexivity|]. apply filter_In. split; [exact Hch|exact Hbig].
        -- assert (x < l_nmini l); [|lia]. apply Hmlt. apply in_concat. exists (x :: t).
           split; [|left; reflexivity]. unfold mini_chains. apply in_map_iff. exists ((n, b), x :: t).
           split; [reflexivity|]. apply filter_In. split; [exact Hch|cbn [fst snd]; rewrite Hbig; reflexivity].
    + unfold item_ok, unused_item. cbn [fst snd].
      split; [constructor|split; [intros ch []|split; [vm_compute; lia|split; reflexivity]]].
Qed.

Lemma map_outcome_map2 : forall (A B C : Type) (f : B -> outcome C) (h : A -> B) (g : A -> C) l,
  (forall x, In x l -> f (h x) = Ok (g x)) -> map_outcome f (map h l) = Ok (map g l).
Proof.
  induction l as [|x l IH]; intros H; [reflexivity|]. cbn [map_outcome map].
  rewrite (H x (or_introl eq_refl)). cbn [obind]. rewrite IH; [reflexivity|].
  intros y Hy. apply H. right. exact Hy.
Qed.

(* the directory array Cfb::new builds from the directory chain of the written file *)
Theorem dirs_roundtrip : forall c l, valid_layout c l ->
  map_outcome (fun ch => from_slice ch (c_ss c)) (chunks 128 (dir_bytes c l)) = Ok (parsed_dirs c l).
Proof.
  intros c l Hv. pose proof (valid_ss Hv) as Hss.
  unfold dir_bytes. rewrite flat_map_concat_map.
  rewrite chunks_blocks; [|lia|].
  2:{ intros b Hb. apply in_map_iff in Hb. destruct Hb as [i [<- _]]. apply dir_entry_length. exact Hv. }
  unfold parsed_dirs. apply map_outcome_map2. intros i _.
  unfold dir_entry, dir_entry_of, entry_at. fold (dir_item c l i).
  apply from_slice_entry; [exact Hss|apply dir_item_ok; exact Hv].
Qed.

(* ------------------------------------------------------------------ header *)
Lemma read_exact_app : forall n (a b : list N), length a = N.to_nat n ->
  read_exact n (a ++ b) = Ok (a, b).
Proof.
  intros n a b H. unfold read_exact, takeN, dropN. rewrite lenN_length, app_length.
  replace (N.of_nat (length a + length b) <? n) with false by (symmetry; apply N.ltb_ge; lia).
  rewrite (firstn_app_len _ _ H), (skipn_app_len _ _ H). reflexivity.
Qed.

Lemma difat_header_length : forall l, length (difat_header l) = 109%nat.
Proof.
  intros l. unfold difat_header. rewrite firstn_length, app_length, repeat_length. lia.
Qed.

Lemma difat_header_u32 : forall c l, valid_layout c l ->
  Forall (fun x => x < 4294967296) (difat_header l).
Proof.
  intros c l Hv. destruct (valid_ids Hv) as [_ [Hlt [_ Hres]]]. unfold RESERVED_SECTORS in Hres.
  apply Forall_firstn. apply Forall_app. split.
  - apply Forall_forall. intros x Hx.
    assert (x < l_nsect l) by (apply Hlt; unfold all_sector_ids; apply in_or_app; left; exact Hx). lia.
  - apply Forall_forall. intros x Hx. apply repeat_spec in Hx. subst x. reflexivity.
Qed.

(* the first 512 bytes of the written header *)
Definition h512 c l : list N :=
  let v3 := c_ss c =? 512 in
  SIGNATURE ++ repeat 0 16 ++ le16 62 ++ le16 (if v3 then 3 else 4) ++ le16 65534 ++
  le16 (if v3 then 9 else 12) ++ le16 6 ++ repeat 0 6 ++
  le32 (if v3 then 0 else N.of_nat (length (l_dir_ids l))) ++
  le32 (N.of_nat (length (l_fat_ids l))) ++
  le32 (hd ENDOFCHAIN (l_dir_ids l)) ++ le32 0 ++ le32 MINI_CUTOFF ++
  le32 (hd ENDOFCHAIN (l_minifat_ids l)) ++ le32 (N.of_nat (length (l_minifat_ids l))) ++
  le32 (hd ENDOFCHAIN (l_difat_ids l)) ++ le32 (N.of_nat (length (l_difat_ids l))) ++
  flat_map le32 (difat_header l).

Lemma header_bytes_split : forall c l,
  header_bytes c l = h512 c l ++ (if c_ss c =? 512 then [] else repeat 0 3584).
Proof.
  intros c l. unfold header_bytes, h512. cbv zeta. repeat rewrite <- app_assoc. reflexivity.
Qed.

Lemma h512_length : forall c l, length (h512 c l) = 512%nat.
Proof.
  intros c l. unfold h512. cbv zeta. rewrite !app_length, flat_map_le32_length, difat_header_length.
  reflexivity.
Qed.

Lemma hd_chain_u32 : forall c l ch, valid_layout c l -> In ch (sector_chains c l) \/ ch = l_difat_ids l ->
  hd ENDOFCHAIN ch < 4294967296.
Proof.
  intros c l ch Hv Hch. destruct ch as [|x t]; [reflexivity|]. cbn [hd].
  destruct (valid_ids Hv) as [_ [Hlt [_ Hres]]]. unfold RESERVED_SECTORS in Hres.
  assert (x < l_nsect l); [|lia]. apply Hlt. unfold all_sector_ids.
  destruct Hch as [Hch|Hch].
  - do 2 (apply in_or_app; right). apply in_concat. exists (x :: t). split; [exact Hch|left; reflexivity].
  - apply in_or_app. right. apply in_or_app. left. rewrite <- Hch. left. reflexivity.
Qed.

Theorem header_roundtrip : forall c l body, valid_layout c l ->
  exists h, header_from_reader (header_bytes c l ++ body) = Ok (h, difat_header l, body) /\
    h_ss h = c_ss c /\
    h_dir_len h = (if c_ss c =? 512 then 0 else N.of_nat (length (l_dir_ids l))) /\
    h_dir_start h = hd ENDOFCHAIN (l_dir_ids l) /\
    h_mini_fat_len h = N.of_nat (length (l_minifat_ids l)) /\
    h_mini_fat_start h = hd ENDOFCHAIN (l_minifat_ids l) /\
    h_difat_start h = hd ENDOFCHAIN (l_difat_ids l).
Proof.
  intros c l body Hv. pose proof (valid_ss Hv) as Hss.
  destruct (valid_ids Hv) as [Hnd [Hlt [_ Hres]]]. unfold RESERVED_SECTORS in Hres.
  assert (Hbd : forall ch, In ch (sector_chains c l) -> N.of_nat (length ch) < 4294967296).
  { intros ch Hch. destruct (sector_chain_in_fat Hv Hch) as [_ [Hn Hb]].
    pose proof (nodup_bound Hn Hb). lia. }
  assert (Hnd_dir := Hbd (l_dir_ids l) (or_introl eq_refl)).
  assert (Hnd_mf := Hbd (l_minifat_ids l) (or_intror (or_introl eq_refl))).
  assert (Hs_dir := @hd_chain_u32 c l (l_dir_ids l) Hv (or_introl (or_introl eq_refl))).
  assert (Hs_mf := @hd_chain_u32 c l (l_minifat_ids l) Hv (or_introl (or_intror (or_introl eq_refl)))).
  assert (Hs_df := @hd_chain_u32 c l (l_difat_ids l) Hv (or_intror eq_refl)).
  unfold header_from_reader. rewrite header_bytes_split, <- app_assoc.
  rewrite (read_exact_app 512 _ _ (h512_length c l)). cbn [obind].
  assert (Hsig : firstn 8 (h512 c l) = SIGNATURE) by reflexivity.
  rewrite Hsig. rewrite (proj2 (list_eqb_eq SIGNATURE SIGNATURE) eq_refl). cbn [negb].
  assert (Hdif : to_u32 (firstn 436 (skipn 76 (h512 c l))) = Ok (difat_header l)).
  { replace (skipn 76 (h512 c l)) with (flat_map le32 (difat_header l)) by reflexivity.
    rewrite firstn_all_exact by (rewrite flat_map_le32_length, difat_header_length; reflexivity).
    unfold to_u32. rewrite (to_u32_aux_le32 (difat_header_u32 Hv)). reflexivity. }
  rewrite Hdif.
  assert (F32 : forall k x (pre post : list N), length pre = k -> x < 4294967296 ->
                u32_at (pre ++ le32 x ++ post) k = x).
  { intros k x pre post Hk Hx. rewrite <- (Nat.add_0_r k). rewrite (u32_at_app _ _ 0 Hk).
    unfold u32_at. cbn [le32 app nth Nat.add]. apply le32_value. exact Hx. }
  destruct Hss as [E|E].
  - assert (E' : (c_ss c =? 512) = true) by (apply N.eqb_eq; exact E).
    assert (Hsh : u16_at (h512 c l) 30 = 9) by (unfold h512; rewrite E'; reflexivity).
    assert (Hmsh : u16_at (h512 c l) 32 = 6) by (unfold h512; rewrite E'; reflexivity).
    rewrite Hsh, Hmsh. cbn [N.eqb Pos.eqb negb obind]. rewrite E'. cbn [app obind].
    eexists. split; [reflexivity|]. cbn [h_ss h_dir_len h_dir_start h_mini_fat_len h_mini_fat_start h_difat_start].
    split; [symmetry; exact E|].
    unfold h512. rewrite E'. cbv zeta.
    assert (H0 : (0:N) < 4294967296) by lia.
    split; [|split; [|split; [|split]]];
      unfold u32_at; cbn [SIGNATURE repeat le16 le32 app nth Nat.add]; apply le32_value; assumption.
  - assert (E' : (c_ss c =? 512) = false) by (apply N.eqb_neq; rewrite E; discriminate).
    assert (Hsh : u16_at (h512 c l) 30 = 12) by (unfold h512; rewrite E'; reflexivity).
    assert (Hmsh : u16_at (h512 c l) 32 = 6) by (unfold h512; rewrite E'; reflexivity).
    rewrite Hsh, Hmsh. cbn [N.eqb Pos.eqb negb obind]. rewrite E'.
    rewrite (read_exact_app 3584 (repeat 0 3584) body) by reflexivity. cbn [obind].
    eexists. split; [reflexivity|]. cbn [h_ss h_dir_len h_dir_start h_mini_fat_len h_mini_fat_start h_difat_start].
    split; [symmetry; exact E|].
    unfold h512. rewrite E'. cbv zeta.
    split; [|split; [|split; [|split]]];
      unfold u32_at; cbn [SIGNATURE repeat le16 le32 app nth Nat.add]; apply le32_value; assumption.
Qed.

(* ------------------------------------------------------------------ Cfb::new on a written file *)
Lemma filter_true : forall (A : Type) (p : A -> bool) l, (forall x, In x l -> p x = true) -> filter p l = l.
Proof.
  induction l as [|x l IH]; intros H; [reflexivity|]. cbn [filter].
  rewrite (H x (or_introl eq_refl)). f_equal. apply IH. intros y Hy. apply H. right. exact Hy.
Qed.

Lemma dirs_roundtrip_exact : forall c l, valid_layout c l ->
  map_outcome (fun ch => from_slice ch (c_ss c)) (chunks_exact 128 (dir_bytes c l))
  = Ok (parsed_dirs c l).
Proof.
  intros c l Hv. rewrite <- (dirs_roundtrip Hv). f_equal. unfold chunks_exact.
  apply filter_true. intros x Hx. apply Nat.eqb_eq.
  unfold dir_bytes in Hx. rewrite flat_map_concat_map in Hx. rewrite chunks_blocks in Hx; [|lia|].
  - apply in_map_iff in Hx. destruct Hx as [i [<- _]]. apply dir_entry_length. exact Hv.
  - intros b Hb. apply in_map_iff in Hb. destruct Hb as [i [<- _]]. apply dir_entry_length. exact Hv.
Qed.

Lemma nslots_pos : forall c l, valid_layout c l -> (1 <= nslots c l)%nat.
Proof.
  intros c l Hv. pose proof (valid_ss Hv) as Hss.
  assert (H1 : (1 <= length (l_dir_ids l))%nat).
  { unfold valid_layout, valid_layoutb in Hv. split_andb Hv. apply Nat.leb_le. exact V13. }
  unfold nslots. destruct Hss as [E|E]; rewrite E;
    [change (N.to_nat (512 / 128)) with 4%nat|change (N.to_nat (4096 / 128)) with 32%nat]; lia.
Qed.

(* what Cfb::new returns on a written file: the tables of the layout *)
Definition written_cfb c l (cf : cfb) (r : list N) : Prop :=
  directories cf = parsed_dirs c l /\ fats cf = fat_table c l /\
  Inv (c_ss c) (body_bytes c l) (main_sectors cf) r /\
  ((mini_sectors cf = {| sdata := ministream_read c l; ssize := 64 |} /\
    mini_fats cf = minifat_table c l) \/ l_nmini l = 0).

Theorem cfb_new_written : forall c l fuel, valid_layout c l -> (fuel_for l <= fuel)%nat ->
  exists cf r, cfb_new fuel (cfb_write c l) = Ok (cf, r) /\ written_cfb c l cf r.
Proof.
  intros c l fuel Hv Hfuel. pose proof (valid_ss Hv) as Hss.
  destruct (header_roundtrip (body_bytes c l) Hv) as [h [Hh [H1 [H2 [H3 [H4 [H5 H6]]]]]]].
  unfold cfb_new, cfb_write. rewrite Hh. cbn [obind]. rewrite H1, H2, H3, H4, H5, H6.
  assert (HI0 : Inv (c_ss c) (body_bytes c l) {| sdata := []; ssize := c_ss c |} (body_bytes c l))
    by (split; reflexivity).
  destruct (@difat_roundtrip c l _ _ fuel Hv HI0) as [D [s1 [r1 [Hd [Hfil HI1]]]]];
    [unfold fuel_for in Hfuel; lia|].
  rewrite Hd. cbn [obind]. rewrite Hfil.
  destruct (fat_load_roundtrip Hv HI1) as [s2 [r2 [Hf HI2]]]. rewrite Hf. cbn [obind].
  destruct (dir_chain_roundtrip Hv HI2) as [s3 [r3 [Hdir HI3]]]. rewrite Hdir. cbn [obind].
  rewrite (dirs_roundtrip_exact Hv). cbn [obind].
  pose proof (nslots_pos Hv) as Hns.
  destruct (parsed_dirs c l) as [|d0 rest] eqn:Epd.
  { exfalso. unfold parsed_dirs in Epd. destruct (nslots c l); [lia|discriminate]. }
  assert (Hd0 : d_start d0 = hd ENDOFCHAIN (l_root_ids l) /\ d_len d0 = l_nmini l * 64).
  { unfold parsed_dirs in Epd. destruct (nslots c l) as [|k]; [lia|].
    cbn [seqN seqN_from map] in Epd. injection Epd as E0 _. subst d0.
    unfold entry_at, dirent_of. cbn [d_start d_len].
    unfold dir_item, dir_item_of. rewrite N.eqb_refl. split; reflexivity. }
  destruct Hd0 as [Hst Hln]. rewrite Hst, Hln.
  destruct (valid_minis Hv) as [_ [_ [Hcov _]]].
  destruct (0 <? N.of_nat (length (l_minifat_ids l))) eqn:Emf.
  - destruct (ministream_roundtrip Hv HI3) as [s4 [r4 [Hms HI4]]]. rewrite Hms. cbn [obind].
    destruct (minifat_load_roundtrip Hv HI4) as [mf [s5 [r5 [Hmf [Hu HI5]]]]].
    rewrite Hmf. cbn [obind]. rewrite Hu. cbn [obind].
    eexists; eexists; split; [reflexivity|].
    unfold written_cfb. cbn [directories fats main_sectors mini_sectors mini_fats].
    split; [symmetry; exact Epd|split; [reflexivity|split; [exact HI5|left; split; reflexivity]]].
  - eexists; eexists; split; [reflexivity|].
    unfold written_cfb. cbn [directories fats main_sectors mini_sectors mini_fats].
    split; [symmetry; exact Epd|split; [reflexivity|split; [exact HI3|right]]].
    apply N.ltb_ge in Emf. nia.
Qed.

(* the directory entry written for a stream and its chain *)
Definition stream_item (l : layout) (p : list N * list N * list N) : list N * N * N * N :=
  (fst (fst p), 2, hd (l_empty_start l) (snd p), lenN (snd (fst p))).

(* get_stream on any Cfb value that holds the written tables, ONCE THE LOOKUP ENDS ON THE ENTRY
   OF THE STREAM (an entry with its start and length fields): the bytes are the stream's *)
Lemma get_stream_of_entry : forall c l cf r, valid_layout c l -> written_cfb c l cf r ->
  forall path n b ch d, In ((n, b), ch) (stream_chains c l) ->
  find_entry (directories cf) path = Some d ->
  d_start d = hd (l_empty_start l) ch -> d_len d = lenN b ->
  exists c' r', get_stream cf path r = Ok (b, c', r').
Proof.
  intros c l cf r Hv (Hdirs & Hfats & HI & Hmini) path n b ch d Hch Hf Hst Hln.
  destruct (stream_ok_facts _ _ _ Hv Hch) as [_ [H32 _]].
  destruct (N.eq_dec (lenN b) 0) as [H0|Hne].
  { rewrite (@empty_stream cf path d r Hf) by (rewrite Hln; exact H0).
    rewrite lenN_length in H0. destruct b; [|cbn in H0; lia]. eexists; eexists; reflexivity. }
  assert (Hpos : 0 < lenN b) by lia.
  pose proof (@nonempty_stream_chain c l n b ch Hv Hch Hpos) as Hchne.
  rewrite (hd_nonempty (l_empty_start l) ENDOFCHAIN Hchne) in Hst.
  destruct (is_big b) eqn:Hbig.
  - destruct (@big_stream_read c l n b ch Hv Hch Hbig) as [Hc [Hnd [Hb Hres]]].
    unfold get_stream. rewrite Hf, Hln, Hst.
    replace (lenN b =? 0) with false by (symmetry; apply N.eqb_neq; exact Hne).
    unfold is_big, MINI_CUTOFF in Hbig. apply N.leb_le in Hbig.
    replace (lenN b <? 4096) with false by (symmetry; apply N.ltb_ge; exact Hbig).
    rewrite Hfats.
    destruct (@chain_follow (fat_table c l) (c_ss c) (body_bytes c l) (hd ENDOFCHAIN ch) ch (lenN b)
                (main_sectors cf) r Hc Hnd HI Hb) as [s' [r' [Hg _]]].
    rewrite Hg. cbn [obind]. rewrite Hres. eexists; eexists; reflexivity.
  - destruct Hmini as [[Hms Hmf]|Hzero].
    + destruct (@small_stream_read c l n b ch Hv Hch Hbig) as [Hc [Hnd [Hb Hres]]].
      assert (Hlt : lenN b < 4096).
      { unfold is_big, MINI_CUTOFF in Hbig. apply N.leb_gt in Hbig. exact Hbig. }
      rewrite (@mini_compose cf path d r ch Hf).
      * rewrite Hln, Hms. cbn [sdata]. rewrite Hres. eexists; eexists; reflexivity.
      * rewrite Hln. exact Hpos.
      * rewrite Hln. exact Hlt.
      * rewrite Hms. reflexivity.
      * rewrite Hmf, Hst. exact Hc.
      * exact Hnd.
      * rewrite Hms. exact Hb.
    + exfalso. destruct (valid_minis Hv) as [_ [Hmlt _]].
      destruct ch as [|x t]; [contradiction|].
      assert (x < l_nmini l); [|lia]. apply Hmlt. apply in_concat. exists (x :: t).
      split; [|left; reflexivity]. unfold mini_chains. apply in_map_iff. exists ((n, b), x :: t).
      split; [reflexivity|]. apply filter_In. split; [exact Hch|cbn [fst snd]; rewrite Hbig; reflexivity].
Qed.

(* ================================================================== Part 4b: entries and slots *)
Lemma list_eqb_refl : forall a, list_eqb a a = true.
Proof. intros a. apply list_eqb_eq. reflexivity. Qed.
Lemma list_eqb_neq : forall a b, a <> b -> list_eqb a b = false.
Proof. intros a b H. destruct (list_eqb a b) eqn:E; [apply list_eqb_eq in E; contradiction|reflexivity]. Qed.

Lemma nthN_nth_error : forall (A : Type) (l : list A) i, nthN l i = nth_error l (N.to_nat i).
Proof.
  induction l as [|x l IH]; intros i; cbn [nthN].
  - destruct (N.to_nat i); reflexivity.
  - destruct (i =? 0) eqn:E.
    + apply N.eqb_eq in E. subst i. reflexivity.
    + apply N.eqb_neq in E. rewrite IH.
      replace (N.to_nat i) with (S (N.to_nat (N.pred i))) by lia. reflexivity.
Qed.

Lemma parsed_dirs_length : forall c l, length (parsed_dirs c l) = nslots c l.
Proof. intros c l. unfold parsed_dirs. rewrite map_length. apply seqN_length. Qed.

Lemma nthN_parsed : forall c l i, i < N.of_nat (nslots c l) ->
  nthN (parsed_dirs c l) i = Some (entry_at c l i).
Proof.
  intros c l i Hi. rewrite nthN_nth_error. unfold parsed_dirs.
  rewrite (map_nth_error (entry_at c l) (N.to_nat i) (seqN (nslots c l)) (d := i)); [reflexivity|].
  rewrite seqN_nth by lia. rewrite N2Nat.id. reflexivity.
Qed.

Lemma nthN_parsed_none : forall c l i, N.of_nat (nslots c l) <= i -> nthN (parsed_dirs c l) i = None.
Proof.
  intros c l i Hi. rewrite nthN_nth_error. apply nth_error_None. rewrite parsed_dirs_length. lia.
Qed.

Lemma find_map_seqN_from : forall (A : Type) (p : A -> bool) (f : N -> A) n start s,
  start <= s -> s < start + N.of_nat n -> p (f s) = true ->
  (forall i, start <= i -> i < s -> p (f i) = false) ->
  find p (map f (seqN_from start n)) = Some (f s).
Proof.
  induction n as [|n IH]; intros start s H1 H2 Hp Hlt; [lia|].
  cbn [seqN_from map find]. destruct (N.eq_dec start s) as [->|Hne].
  - rewrite Hp. reflexivity.
  - rewrite (Hlt start) by lia. apply IH; try lia; [exact Hp|]. intros i Hi1 Hi2. apply Hlt; lia.
Qed.

Lemma find_map_seqN_none : forall (A : Type) (p : A -> bool) (f : N -> A) n start,
  (forall i, start <= i -> i < start + N.of_nat n -> p (f i) = false) ->
  find p (map f (seqN_from start n)) = None.
Proof.
  induction n as [|n IH]; intros start H; [reflexivity|].
  cbn [seqN_from map find]. rewrite (H start) by lia. apply IH. intros i Hi1 Hi2. apply H; lia.
Qed.

Lemma min_slot_none : forall n tbl, min_slot n tbl = None ->
  forall s it, In (s, it) tbl -> ~ name_equiv (item_name it) n.
Proof.
  intros n. induction tbl as [|[s0 it0] r IH]; intros H s it Hin; [destruct Hin|].
  cbn [min_slot] in H. destruct (name_eqb (item_name it0) n) eqn:E.
  - destruct (min_slot n r); discriminate.
  - destruct Hin as [Heq|Hin].
    + inversion Heq; subst. apply name_eqb_false. exact E.
    + apply (IH H _ _ Hin).
Qed.

Lemma min_slot_some : forall n tbl s, min_slot n tbl = Some s ->
  (exists it, In (s, it) tbl /\ name_equiv (item_name it) n) /\
  (forall s' it', In (s', it') tbl -> name_equiv (item_name it') n -> s <= s').
Proof.
  intros n. induction tbl as [|[s0 it0] r IH]; intros s H; [discriminate|].
  cbn [min_slot] in H. destruct (name_eqb (item_name it0) n) eqn:E.
  - apply name_eqb_equiv in E. destruct (min_slot n r) as [s1|] eqn:Er.
    + destruct (IH s1 eq_refl) as [[it1 [Hin1 Hn1]] Hmin1]. inversion H; subst s.
      split.
      * destruct (N.min_spec s0 s1) as [[_ ->]|[_ ->]].
        -- exists it0. split; [left; reflexivity|exact E].
        -- exists it1. split; [right; exact Hin1|exact Hn1].
      * intros s' it' [Heq|Hin] Hn'.
        -- inversion Heq; subst. lia.
        -- pose proof (Hmin1 _ _ Hin Hn'). lia.
    + inversion H; subst s. split.
      * exists it0. split; [left; reflexivity|exact E].
      * intros s' it' [Heq|Hin] Hn'; [inversion Heq; subst; lia|].
        exfalso. apply (@min_slot_none _ _ Er _ _ Hin Hn').
  - destruct (IH s H) as [[it1 [Hin1 Hn1]] Hmin1]. split.
    + exists it1. split; [right; exact Hin1|exact Hn1].
    + intros s' it' [Heq|Hin] Hn'; [inversion Heq; subst s' it'; apply name_eqb_false in E; contradiction|].
      apply (Hmin1 _ _ Hin Hn').
Qed.

Lemma min_slot_none_iff : forall n tbl,
  (forall s it, In (s, it) tbl -> ~ name_equiv (item_name it) n) -> min_slot n tbl = None.
Proof.
  intros n tbl H. destruct (min_slot n tbl) as [s|] eqn:E; [|reflexivity].
  destruct (min_slot_some _ _ E) as [[it [Hin Hn]] _]. exfalso. apply (H _ _ Hin Hn).
Qed.

(* the item written in a slot *)
Lemma dir_item_at : forall c l s it, valid_layout c l -> In (s, it) (slot_table c l) ->
  dir_item c l s = it /\ 1 <= s < N.of_nat (nslots c l).
Proof.
  intros c l s it Hv Hs. destruct (valid_dir Hv) as [Hnd [Hrange [Hls [Hlc _]]]].
  pose proof Hs as Hs'. unfold slot_table in Hs'. pose proof (in_combine_l _ _ _ _ Hs') as Hsl.
  destruct (Hrange s Hsl) as [H1 H2]. split; [|lia].
  unfold dir_item, dir_item_of. replace (s =? 0) with false by (symmetry; apply N.eqb_neq; lia).
  rewrite (assocN_In _ s it); [reflexivity| |exact Hs].
  unfold slot_table. rewrite map_fst_combine, (items_length c l Hlc), <- Hls, firstn_all. exact Hnd.
Qed.

(* the entry of a slot that holds an item: its name, start and length *)
Lemma entry_at_item : forall c l s it, valid_layout c l -> In (s, it) (slot_table c l) ->
  d_name (entry_at c l s) = item_name it /\ d_start (entry_at c l s) = snd (fst it) /\
  d_len (entry_at c l s) = snd it.
Proof.
  intros c l s it Hv Hs. destruct (dir_item_at _ _ Hv Hs) as [E _].
  unfold entry_at, dirent_of. cbn [d_name d_start d_len]. rewrite E. repeat split.
Qed.

Lemma slot_item_unique : forall c l s it it', valid_layout c l ->
  In (s, it) (slot_table c l) -> In (s, it') (slot_table c l) -> it = it'.
Proof.
  intros c l s it it' Hv H1 H2.
  destruct (dir_item_at _ _ Hv H1) as [E1 _]. destruct (dir_item_at _ _ Hv H2) as [E2 _]. congruence.
Qed.

Lemma slot_table_names : forall c l s it, In (s, it) (slot_table c l) -> In (item_name it) (all_names c).
Proof.
  intros c l s it H. unfold slot_table in H. apply in_combine_r in H. apply (items_names _ _ _ H).
Qed.

Lemma valid_name_not_special : forall n, valid_nameb n = true -> n <> [] /\ ~ name_equiv n ROOT_NAME.
Proof.
  intros n H. unfold valid_nameb in H. split_andb H. split.
  - intros ->. cbn in H. discriminate.
  - apply name_eqb_false. apply negb_true_iff. exact V.
Qed.

Lemma name_equiv_nil : forall n, name_equiv [] n -> n = [].
Proof. intros [|x n] H; [reflexivity|discriminate H]. Qed.

(* the names of the directory array of a written container: the root entry, unused slots (empty
   name), and the names of the container *)
Lemma entry_at_name : forall c l i, valid_layout c l ->
  d_name (entry_at c l i) = ROOT_NAME \/ d_name (entry_at c l i) = [] \/
  (exists it, In (i, it) (slot_table c l) /\ d_name (entry_at c l i) = item_name it).
Proof.
  intros c l i Hv. unfold entry_at, dirent_of. cbn [d_name]. unfold dir_item, dir_item_of.
  destruct (i =? 0); [left; reflexivity|].
  destruct (assocN i (slot_table c l)) as [it|] eqn:E; [|right; left; reflexivity].
  right; right. exists it. split; [apply assocN_Some_In; exact E|reflexivity].
Qed.

(* the flat scan on a written container: the entry in the LOWEST slot among the objects carrying
   the name — whatever storage holds it, storage or stream — or none *)
Theorem find_dir_first : forall c l n, valid_layout c l -> n <> [] -> ~ name_equiv n ROOT_NAME ->
  find_dir n (parsed_dirs c l) =
  match first_slot c l n with
  | Some s => Some (entry_at c l s)
  | None => None
  end.
Proof.
  intros c l n Hv Hne Hnr. unfold find_dir, parsed_dirs, seqN, first_slot.
  set (p := fun d : dirent => name_eqb (d_name d) n).
  set (f := entry_at c l).
  assert (Hother : forall i, (forall it, In (i, it) (slot_table c l) -> ~ name_equiv (item_name it) n) -> p (f i) = false).
  { intros i Hi. unfold p, f. apply name_eqb_false.
    destruct (@entry_at_name c l i Hv) as [E|[E|[it [Hin E]]]]; rewrite E.
    - intros H. apply Hnr. symmetry. exact H.
    - intros H. apply Hne. apply name_equiv_nil. exact H.
    - apply (Hi _ Hin). }
  destruct (min_slot n (slot_table c l)) as [s|] eqn:E.
  - destruct (min_slot_some _ _ E) as [[it [Hin Hn]] Hmin].
    destruct (dir_item_at _ _ Hv Hin) as [Hit [Hs1 Hs2]].
    apply (@find_map_seqN_from _ p f (nslots c l) 0 s); [lia|lia| |].
    + unfold p, f. destruct (entry_at_item _ _ Hv Hin) as [En _]. rewrite En. apply name_eqb_equiv. exact Hn.
    + intros i _ Hi. apply Hother. intros it' Hin' Hn'. pose proof (Hmin _ _ Hin' Hn'). lia.
  - apply find_map_seqN_none. intros i _ _. apply Hother. intros it' Hin'. apply (@min_slot_none _ _ E _ _ Hin').
Qed.

Lemma nth_error_combine : forall (A B : Type) (a : list A) (b : list B) k x y,
  nth_error a k = Some x -> nth_error b k = Some y -> nth_error (combine a b) k = Some (x, y).
Proof.
  induction a as [|a0 a IH]; intros [|b0 b] [|k] x y Ha Hb; cbn in *; try discriminate.
  - congruence.
  - apply IH; assumption.
Qed.

(* the k-th stream: its chain, and its entry in its slot *)
Lemma stream_item_at : forall c l k n b s, valid_layout c l ->
  nth_error (c_streams c) k = Some (n, b) -> stream_slot c l k = Some s ->
  exists ch, In ((n, b), ch) (stream_chains c l) /\
             In (s, stream_item l ((n, b), ch)) (slot_table c l).
Proof.
  intros c l k n b s Hv Hk Hs. destruct (valid_dir Hv) as [_ [_ [_ [Hlc _]]]].
  assert (Hlt : (k < length (l_chains l))%nat).
  { rewrite Hlc. apply nth_error_Some. rewrite Hk. discriminate. }
  destruct (nth_error (l_chains l) k) as [ch|] eqn:Ech; [|apply nth_error_None in Ech; lia].
  exists ch.
  assert (Hsc : nth_error (stream_chains c l) k = Some ((n, b), ch))
    by (unfold stream_chains; apply nth_error_combine; assumption).
  split; [apply (nth_error_In _ _ Hsc)|].
  apply (nth_error_In (slot_table c l) (length (c_storages c) + k)).
  unfold slot_table. apply nth_error_combine; [exact Hs|].
  unfold items. rewrite nth_error_app2 by (rewrite map_length; lia).
  rewrite map_length. replace (length (c_storages c) + k - length (c_storages c))%nat with k by lia.
  fold (stream_item l). rewrite (map_nth_error (stream_item l) _ _ Hsc). reflexivity.
Qed.

Lemma stream_slot_exists : forall c l k x, valid_layout c l -> nth_error (c_streams c) k = Some x ->
  exists s, stream_slot c l k = Some s.
Proof.
  intros c l k x Hv Hk. destruct (valid_dir Hv) as [_ [_ [Hls _]]].
  assert (Hlt : (k < length (c_streams c))%nat) by (apply nth_error_Some; rewrite Hk; discriminate).
  unfold stream_slot. destruct (nth_error (l_slots l) (length (c_storages c) + k)) as [s|] eqn:E;
    [exists s; reflexivity|]. apply nth_error_None in E. lia.
Qed.

(* ================================================================== Part 4c: no hierarchy written *)
(* the root entry links to no child: Cfb::find scans the flat array for the last name of the path *)
Definition flat_root (c : container) (l : layout) : Prop := flat_rootb c l = true.

Lemma children_loop_nil : forall fuel ds seen acc, children_loop fuel ds seen [] acc = Ok (rev acc).
Proof. intros [|f] ds seen acc; reflexivity. Qed.

Lemma nslots_pos' : forall c l, valid_layout c l -> 0 < N.of_nat (nslots c l).
Proof. intros c l Hv. pose proof (nslots_pos Hv). lia. Qed.

Lemma entry_at_child : forall c l i, d_child (entry_at c l i) = u32 (snd (link_of (link_table l) i)).
Proof. reflexivity. Qed.

Lemma children_root_flat : forall c l, valid_layout c l -> flat_root c l ->
  children (parsed_dirs c l) 0 = [].
Proof.
  intros c l Hv Hf. unfold children. rewrite (@nthN_parsed c l 0 (nslots_pos' Hv)).
  rewrite entry_at_child. unfold flat_root, flat_rootb in Hf.
  destruct (link_of (link_table l) 0) as [[a b] ch]. cbn [snd]. fold (u32 ch) in Hf.
  unfold children_fuel. cbn [children_loop].
  apply orb_prop in Hf. destruct Hf as [E|E].
  - apply N.eqb_eq in E. rewrite E. rewrite (@nthN_parsed c l 0 (nslots_pos' Hv)). cbn [memN].
    rewrite N.eqb_refl. cbn [orb]. rewrite children_loop_nil. reflexivity.
  - apply N.leb_le in E. rewrite (@nthN_parsed_none c l _ E). rewrite children_loop_nil. reflexivity.
Qed.

Lemma find_entry_flat : forall ds path, children ds 0 = [] ->
  find_entry ds path = match last_opt path with Some n => find_dir n ds | None => None end.
Proof. intros ds path H. unfold find_entry. rewrite H. reflexivity. Qed.

Lemma last_opt_snoc : forall (A : Type) (l : list A) x, last_opt (l ++ [x]) = Some x.
Proof.
  induction l as [|y l IH]; intros x; [reflexivity|].
  cbn [app last_opt]. destruct (l ++ [x]) eqn:E; [destruct l; discriminate|]. rewrite <- E. apply IH.
Qed.

(* the general statement of the flat regime: the k-th stream is read back under its name (behind
   ANY prefix: only the last name of the path counts) as soon as no object of the same name sits
   in a lower directory slot *)
Theorem get_stream_first : forall c l cf r, valid_layout c l -> flat_root c l -> written_cfb c l cf r ->
  forall k n b s pre, nth_error (c_streams c) k = Some (n, b) -> stream_slot c l k = Some s ->
  first_slot c l n = Some s ->
  exists c' r', get_stream cf (pre ++ [n]) r = Ok (b, c', r').
Proof.
  intros c l cf r Hv Hfl Hw k n b s pre Hk Hs Hfirst.
  destruct (@stream_item_at c l k n b s Hv Hk Hs) as [ch [Hch Hin]].
  destruct (valid_dir Hv) as [_ [_ [_ [_ [Hval _]]]]].
  pose proof (slot_table_names _ _ _ _ Hin) as Hn. cbn [stream_item item_name fst snd] in Hn.
  destruct (@valid_name_not_special n (Hval _ Hn)) as [Hne Hnr].
  pose proof (@find_dir_first c l n Hv Hne Hnr) as Hf. rewrite Hfirst in Hf.
  pose proof Hw as (Hdirs & _).
  destruct (entry_at_item _ _ Hv Hin) as [_ [Est Eln]]. cbn [stream_item fst snd] in Est, Eln.
  apply (@get_stream_of_entry c l cf r Hv Hw (pre ++ [n]) n b ch (entry_at c l s) Hch); [|exact Est|exact Eln].
  rewrite Hdirs, find_entry_flat by (apply children_root_flat; assumption).
  rewrite last_opt_snoc. exact Hf.
Qed.

Theorem flat_layout_independent_first : forall c l fuel, valid_layout c l -> flat_root c l ->
  (fuel_for l <= fuel)%nat ->
  forall k n b s pre, nth_error (c_streams c) k = Some (n, b) -> stream_slot c l k = Some s ->
  first_slot c l n = Some s ->
  cfb_get_stream fuel (cfb_write c l) (pre ++ [n]) = Ok b.
Proof.
  intros c l fuel Hv Hfl Hfuel k n b s pre Hk Hs Hfirst. unfold cfb_get_stream.
  destruct (cfb_new_written Hv Hfuel) as [cf [r [Hnew Hw]]]. rewrite Hnew. cbn [obind].
  destruct (@get_stream_first c l cf r Hv Hfl Hw k n b s pre Hk Hs Hfirst) as [c' [r' Hg]]. rewrite Hg. reflexivity.
Qed.

(* a name carried by no object is not found *)
Lemma get_stream_absent_flat : forall c l cf r n pre, valid_layout c l -> flat_root c l -> written_cfb c l cf r ->
  n <> [] -> ~ name_equiv n ROOT_NAME -> first_slot c l n = None -> get_stream cf (pre ++ [n]) r = Err ERR_NOT_FOUND.
Proof.
  intros c l cf r n pre Hv Hfl (Hdirs & _) Hne Hnr Hnone. unfold get_stream.
  rewrite Hdirs, find_entry_flat by (apply children_root_flat; assumption).
  rewrite last_opt_snoc, (@find_dir_first c l n Hv Hne Hnr), Hnone. reflexivity.
Qed.

(* names distinct over the whole file: the only object of a name is in the lowest slot *)
Lemma first_slot_unique : forall c l k n b s, valid_layout c l -> names_unique c ->
  nth_error (c_streams c) k = Some (n, b) -> stream_slot c l k = Some s -> first_slot c l n = Some s.
Proof.
  intros c l k n b s Hv Hu Hk Hs.
  destruct (@stream_item_at c l k n b s Hv Hk Hs) as [ch [Hch Hin]].
  destruct (valid_dir Hv) as [_ [_ [_ [Hlc _]]]].
  pose proof (names_unique_NoDup Hu) as Hndn.
  unfold first_slot. destruct (min_slot n (slot_table c l)) as [s1|] eqn:E.
  - destruct (min_slot_some _ _ E) as [[it [Hin1 Hn1]] _]. f_equal.
    assert (it = stream_item l ((n, b), ch)).
    { apply (NoDup_map_inj_on (fun it => name_key (fst (fst (fst it)))) (items c l));
        [rewrite <- (map_map (fun it => fst (fst (fst it))) name_key), (items_names_eq c l Hlc);
         exact (names_unique_keys Hu)| | |exact Hn1].
      - unfold slot_table in Hin1. apply (in_combine_r _ _ _ _ Hin1).
      - unfold slot_table in Hin. apply (in_combine_r _ _ _ _ Hin). }
    subst it.
    (* one item, two slots: the slots of the table are those of distinct positions *)
    destruct (valid_dir Hv) as [Hnd [_ [Hls _]]].
    assert (Hitems_nd : NoDup (items c l)).
    { apply (NoDup_map_inv (fun it => fst (fst (fst it)))). rewrite (items_names_eq c l Hlc). exact Hndn. }
    unfold slot_table in Hin1, Hin.
    apply In_nth_error in Hin1. destruct Hin1 as [i1 Hi1]. apply In_nth_error in Hin. destruct Hin as [i2 Hi2].
    assert (Hc1 : nth_error (items c l) i1 = Some (stream_item l (n, b, ch))).
    { clear -Hi1. revert i1 Hi1. generalize (items c l). generalize (l_slots l).
      induction l0 as [|x l0 IH]; intros [|y l1] [|i] H; cbn in *; try discriminate; [inversion H; reflexivity|apply (IH _ _ H)]. }
    assert (Hc2 : nth_error (items c l) i2 = Some (stream_item l (n, b, ch))).
    { clear -Hi2. revert i2 Hi2. generalize (items c l). generalize (l_slots l).
      induction l0 as [|x l0 IH]; intros [|y l1] [|i] H; cbn in *; try discriminate; [inversion H; reflexivity|apply (IH _ _ H)]. }
    assert (i1 = i2).
    { apply (proj1 (NoDup_nth_error (items c l)) Hitems_nd); [apply nth_error_Some; rewrite Hc1; discriminate|congruence]. }
    subst i2. rewrite Hi1 in Hi2. inversion Hi2. reflexivity.
  - exfalso. apply (@min_slot_none _ _ E _ _ Hin). reflexivity.
Qed.

(* flat regime, names distinct over the whole file: every stream is read back *)
Theorem flat_layout_independent : forall c l fuel, valid_layout c l -> flat_root c l -> names_unique c ->
  (fuel_for l <= fuel)%nat ->
  forall n b pre, In (n, b) (c_streams c) -> cfb_get_stream fuel (cfb_write c l) (pre ++ [n]) = Ok b.
Proof.
  intros c l fuel Hv Hfl Hu Hfuel n b pre Hin.
  apply In_nth_error in Hin. destruct Hin as [k Hk].
  destruct (stream_slot_exists _ Hv Hk) as [s Hs].
  apply (@flat_layout_independent_first c l fuel Hv Hfl Hfuel k n b s pre Hk Hs).
  apply (@first_slot_unique c l k n b s Hv Hu Hk Hs).
Qed.

(* ================================================================== Part 4d: the hierarchy *)
(* ------------------------------------------------------------------ the loop of Cfb::children ends *)
Definition unseen (ds : list dirent) (seen : list N) : nat :=
  length (filter (fun i => negb (memN i seen)) (seqN (length ds))).

Lemma filter_seen_le : forall (L : list N) id seen,
  (length (filter (fun i => negb (memN i (id :: seen))) L) <= length (filter (fun i => negb (memN i seen)) L))%nat.
Proof.
  induction L as [|x L IH]; intros id seen; [cbn; lia|].
  cbn [filter memN]. specialize (IH id seen). cbn [memN] in IH.
  destruct (id =? x); cbn [orb negb]; destruct (memN x seen); cbn [negb length]; lia.
Qed.

Lemma filter_seen_lt : forall (L : list N) id seen, In id L -> memN id seen = false ->
  (length (filter (fun i => negb (memN i (id :: seen))) L) < length (filter (fun i => negb (memN i seen)) L))%nat.
Proof.
  induction L as [|x L IH]; intros id seen Hin Hs; [destruct Hin|].
  cbn [filter memN]. destruct Hin as [->|Hin].
  - rewrite N.eqb_refl, Hs. cbn [orb negb length].
    pose proof (filter_seen_le L id seen) as H. cbn [memN] in H. lia.
  - specialize (IH id seen Hin Hs). cbn [memN] in IH.
    destruct (id =? x); cbn [orb negb]; destruct (memN x seen); cbn [negb length]; lia.
Qed.

Lemma nthN_Some_lt : forall (A : Type) (l : list A) i d, nthN l i = Some d -> i < N.of_nat (length l).
Proof.
  intros A l i d H. rewrite nthN_nth_error in H.
  assert (N.to_nat i < length l)%nat by (apply nth_error_Some; rewrite H; discriminate). lia.
Qed.

Lemma unseen_decr : forall ds seen id d, nthN ds id = Some d -> memN id seen = false ->
  (unseen ds (id :: seen) < unseen ds seen)%nat.
Proof.
  intros ds seen id d Hd Hs. unfold unseen. apply filter_seen_lt; [|exact Hs].
  unfold seqN. apply seqN_from_In. pose proof (nthN_Some_lt _ _ Hd). lia.
Qed.

(* fuel: one unit per pop; every entry pushes its two links at most once *)
Lemma children_loop_fuel : forall fuel ds seen todo acc,
  (length todo + 2 * unseen ds seen <= fuel)%nat ->
  exists l, children_loop fuel ds seen todo acc = Ok l.
Proof.
  induction fuel as [|f IH]; intros ds seen todo acc Hf.
  - destruct todo; [eexists; reflexivity|cbn [length] in Hf; lia].
  - destruct todo as [|id rest]; [eexists; reflexivity|]. cbn [children_loop]. cbn [length] in Hf.
    destruct (nthN ds id) as [d|] eqn:Ed.
    + destruct (memN id seen) eqn:Es.
      * apply IH. lia.
      * apply IH. pose proof (unseen_decr ds seen _ Ed Es). cbn [length]. lia.
    + apply IH. lia.
Qed.

Lemma filter_len_le : forall (A : Type) (f : A -> bool) l, (length (filter f l) <= length l)%nat.
Proof. induction l as [|x l IH]; cbn [filter length]; [lia|]. destruct (f x); cbn [length]; lia. Qed.

Lemma unseen_le : forall ds seen, (unseen ds seen <= length ds)%nat.
Proof.
  intros ds seen. unfold unseen.
  pose proof (filter_len_le (fun i => negb (memN i seen)) (seqN (length ds))) as H.
  rewrite seqN_length in H. exact H.
Qed.

(* the fuel Cfb.children supplies is never exhausted: the default branch of its match is dead *)
Theorem children_fuel_suffices : forall ds seen ch,
  exists l, children_loop (children_fuel ds) ds seen [ch] [] = Ok l.
Proof.
  intros ds seen ch. apply children_loop_fuel. unfold children_fuel. cbn [length].
  pose proof (unseen_le ds seen). lia.
Qed.

(* ------------------------------------------------------------------ the sibling tree, two walks *)
(* the directory array agrees with a link function on the entries of the array, and NOSTREAM is
   no entry of it *)
Definition links_agree (ds : list dirent) (lk : N -> N * N * N) (nsl : N) : Prop :=
  nsl <= FREESECT /\
  (forall i, i < nsl -> exists d, nthN ds i = Some d /\ d_left d = fst (fst (lk i)) /\ d_right d = snd (fst (lk i))) /\
  (forall i, nsl <= i -> nthN ds i = None).

(* the in-order walk of the specification (tree_walk) and the stack walk of Cfb::children visit
   the same entries: a sibling tree of m entries costs 2m+1 pops *)
Lemma walk_dfs : forall ds lk nsl, links_agree ds lk nsl ->
  forall f s bd vis bd', tree_walk f lk nsl s bd = Some (vis, bd') ->
  forall k seen rest acc, NoDup vis -> (forall x, In x vis -> ~ In x seen) ->
  exists pre, (forall x, In x pre <-> In x vis) /\ length pre = length vis /\
    children_loop (k + (2 * length vis + 1)) ds seen (s :: rest) acc
    = children_loop k ds (rev pre ++ seen) rest (rev pre ++ acc).
Proof.
  intros ds lk nsl (Hfree & Hin & Hout). induction f as [|f IH]; intros s bd vis bd' Hw k seen rest acc Hnd Hdis.
  - cbn [tree_walk] in Hw. destruct (s =? FREESECT) eqn:E; [|discriminate].
    inversion Hw; subst. apply N.eqb_eq in E. subst s. exists []. split; [tauto|]. split; [reflexivity|].
    cbn [length]. replace (k + (2 * 0 + 1))%nat with (S k) by lia. cbn [children_loop].
    rewrite (Hout FREESECT Hfree). reflexivity.
  - cbn [tree_walk] in Hw. destruct (s =? FREESECT) eqn:E.
    + inversion Hw; subst. apply N.eqb_eq in E. subst s. exists []. split; [tauto|]. split; [reflexivity|].
      cbn [length]. replace (k + (2 * 0 + 1))%nat with (S k) by lia. cbn [children_loop].
      rewrite (Hout FREESECT Hfree). reflexivity.
    + destruct bd as [|bd0]; [discriminate|].
      destruct (nsl <=? s) eqn:Ens; [discriminate|]. apply N.leb_gt in Ens.
      destruct (lk s) as [[lft rgt] chd] eqn:Elk.
      destruct (tree_walk f lk nsl lft bd0) as [[a bd1]|] eqn:Ea; [|discriminate].
      destruct (tree_walk f lk nsl rgt bd1) as [[b bd2]|] eqn:Eb; [|discriminate].
      inversion Hw; subst vis bd'. clear Hw.
      destruct (Hin s Ens) as [d [Hd [Hl Hr]]]. rewrite Elk in Hl, Hr. cbn [fst snd] in Hl, Hr.
      assert (Hs_seen : memN s seen = false).
      { apply memN_false. apply Hdis. apply in_or_app. right. left. reflexivity. }
      apply NoDup_remove in Hnd. destruct Hnd as [Hnd_ab Hs_ab].
      destruct (nodup_app_inv _ _ Hnd_ab) as [Hnd_a [Hnd_b Hab]].
      (* left subtree *)
      destruct (IH lft bd0 a bd1 Ea (k + (2 * length b + 1))%nat (s :: seen) (rgt :: rest) (s :: acc) Hnd_a)
        as [pa [Hpa [Hla Ela]]].
      { intros x Hx [Hc|Hc]; [subst x; apply Hs_ab; apply in_or_app; left; exact Hx|].
        apply (Hdis x); [apply in_or_app; left; exact Hx|exact Hc]. }
      (* right subtree *)
      destruct (IH rgt bd1 b bd2 Eb k (rev pa ++ s :: seen) rest (rev pa ++ s :: acc) Hnd_b)
        as [pb [Hpb [Hlb Elb]]].
      { intros x Hx Hc. apply in_app_or in Hc. destruct Hc as [Hc|[Hc|Hc]].
        - apply in_rev in Hc. apply Hpa in Hc. apply (Hab x Hc Hx).
        - subst x. apply Hs_ab. apply in_or_app. right. exact Hx.
        - apply (Hdis x); [apply in_or_app; right; right; exact Hx|exact Hc]. }
      exists (s :: pa ++ pb). split; [|split].
      * intros x. cbn [In]. rewrite !in_app_iff. cbn [In]. rewrite Hpa, Hpb. tauto.
      * cbn [length]. rewrite !app_length. cbn [length]. lia.
      * rewrite app_length. cbn [length].
        replace (k + (2 * (length a + S (length b)) + 1))%nat
          with (S ((k + (2 * length b + 1)) + (2 * length a + 1)))%nat by lia.
        cbn [children_loop]. rewrite Hd, Hs_seen, Hl, Hr. rewrite Ela, Elb.
        cbn [rev]. rewrite rev_app_distr, <- !app_assoc. cbn [app]. reflexivity.
Qed.

(* ------------------------------------------------------------------ links that are a tree *)
Definition linked_tree (c : container) (l : layout) : Prop := linked_treeb c l = true.
Definition legal_tree (c : container) (l : layout) : Prop := legal_treeb c l = true.

Lemma forallb_impl : forall (A : Type) (f g : A -> bool) l,
  (forall x, f x = true -> g x = true) -> forallb f l = true -> forallb g l = true.
Proof.
  intros A f g l H Hf. apply forallb_forall. intros x Hx. apply H. apply (forallb_In _ _ Hf _ Hx).
Qed.

(* a legal MS-CFB tree is a tree (the order of the siblings is not used by the reader) *)
Lemma legal_linked : forall c l, legal_tree c l -> linked_tree c l.
Proof.
  intros c l H. unfold legal_tree, legal_treeb, linked_tree, linked_treeb, tree_okb in *.
  apply andb_prop in H. destruct H as [H H3]. apply andb_true_intro. split; [exact H|].
  revert H3. apply forallb_impl. intros p Hp.
  destruct (link_of (link_table l) (storage_slot l p)) as [[a b] ch].
  destruct (tree_walk _ _ _ ch _) as [[vis bd]|]; [|discriminate].
  apply andb_prop in Hp. destruct Hp as [Hp _]. rewrite Hp. reflexivity.
Qed.

Section Tree.
Variables (c : container) (l : layout).
Hypothesis Hv : valid_layout c l.
Hypothesis Ht : linked_tree c l.

Let lk := link_of (link_table l).
Let nsl := N.of_nat (nslots c l).
Let nst := length (c_storages c).

Lemma tree_nsl : nsl <= FREESECT.
Proof.
  unfold linked_tree, linked_treeb, tree_okb in Ht. apply andb_prop in Ht. destruct Ht as [H _].
  apply andb_prop in H. destruct H as [H _]. apply andb_prop in H. destruct H as [H _].
  apply N.leb_le in H. exact H.
Qed.

Lemma tree_links_u32 : forall t, In t (l_links l) -> link_u32b t = true.
Proof.
  unfold linked_tree, linked_treeb, tree_okb in Ht. apply andb_prop in Ht. destruct Ht as [H _].
  apply andb_prop in H. destruct H as [H _]. apply andb_prop in H. destruct H as [_ H].
  intros t Hin. apply (forallb_In _ _ H _ Hin).
Qed.

Lemma tree_stream_child : forall s, In s (skipn nst (l_slots l)) -> snd (lk s) = FREESECT.
Proof.
  unfold linked_tree, linked_treeb, tree_okb in Ht. apply andb_prop in Ht. destruct Ht as [H _].
  apply andb_prop in H. destruct H as [_ H].
  intros s Hin. pose proof (forallb_In _ _ H _ Hin) as Hs. cbn beta in Hs. unfold lk.
  destruct (link_of (link_table l) s) as [[a b] ch]. cbn [snd]. apply N.eqb_eq. exact Hs.
Qed.

Lemma tree_storage_walk : forall p, p <= N.of_nat nst ->
  exists vis bd, tree_walk (S (length (children_slots c l p))) lk nsl (snd (lk (storage_slot l p)))
                   (S (length (children_slots c l p))) = Some (vis, bd) /\
    length vis = length (children_slots c l p) /\ NoDup vis /\
    (forall s, In s (children_slots c l p) -> In s vis).
Proof.
  unfold linked_tree, linked_treeb, tree_okb in Ht. apply andb_prop in Ht. destruct Ht as [_ H].
  intros p Hp.
  assert (Hin : In p (seqN (S nst))) by (unfold seqN; apply seqN_from_In; lia).
  pose proof (forallb_In _ _ H _ Hin) as Hs. cbn beta in Hs. unfold lk, nsl.
  destruct (link_of (link_table l) (storage_slot l p)) as [[a b] ch]. cbn [snd].
  destruct (tree_walk _ _ _ ch _) as [[vis bd]|]; [|discriminate].
  exists vis, bd. split; [reflexivity|].
  cbn [negb orb] in Hs. rewrite andb_true_r in Hs.
  apply andb_prop in Hs. destruct Hs as [Hs H3]. apply andb_prop in Hs. destruct Hs as [H1 H2].
  split; [apply Nat.eqb_eq; exact H1|]. split; [apply nodupb_NoDup; exact H2|].
  intros s Hs. apply memN_In. apply (forallb_In _ _ H3 _ Hs).
Qed.

(* the link fields of the parsed entries are the links of the layout *)
Lemma link_of_u32 : forall i, link_u32b (lk i) = true.
Proof.
  intros i. unfold lk, link_of. destruct (assocN i (link_table l)) as [t|] eqn:E; [|reflexivity].
  apply assocN_Some_In in E. unfold link_table in E. apply in_combine_r in E.
  apply tree_links_u32. exact E.
Qed.

Lemma u32_small : forall x, x < 4294967296 -> u32 x = x.
Proof. intros x H. unfold u32. apply N.mod_small. exact H. Qed.

Lemma entry_links : forall i,
  d_left (entry_at c l i) = fst (fst (lk i)) /\ d_right (entry_at c l i) = snd (fst (lk i)) /\
  d_child (entry_at c l i) = snd (lk i).
Proof.
  intros i. pose proof (link_of_u32 i) as H. unfold entry_at, dirent_of. cbn [d_left d_right d_child].
  fold lk. destruct (lk i) as [[a b] ch]. cbn [fst snd]. unfold link_u32b in H.
  apply andb_prop in H. destruct H as [H H3]. apply andb_prop in H. destruct H as [H1 H2].
  apply N.ltb_lt in H1, H2, H3. rewrite !u32_small by assumption. repeat split.
Qed.

Lemma parsed_links_agree : links_agree (parsed_dirs c l) lk nsl.
Proof.
  split; [exact tree_nsl|]. split.
  - intros i Hi. exists (entry_at c l i). split; [apply nthN_parsed; exact Hi|].
    destruct (entry_links i) as [H1 [H2 _]]. split; assumption.
  - intros i Hi. apply nthN_parsed_none. exact Hi.
Qed.

(* children of an entry whose child link opens a sibling tree that tree_walk accepts *)
Lemma children_of_walk : forall s f bd vis bd', s < nsl ->
  tree_walk f lk nsl (snd (lk s)) bd = Some (vis, bd') -> NoDup vis -> ~ In 0 vis ->
  exists pre, (forall x, In x pre <-> In x vis) /\ children (parsed_dirs c l) s = pre.
Proof.
  intros s f bd vis bd' Hs Hw Hnd H0. unfold children.
  rewrite (@nthN_parsed c l s Hs). destruct (entry_links s) as [_ [_ Hch]]. rewrite Hch.
  assert (Hlen : (length vis <= length (parsed_dirs c l))%nat).
  { assert (Hb : forall x, In x vis -> x < nsl).
    { clear -Hw. revert bd vis bd' Hw. generalize (snd (lk s)) as t. induction f as [|f IH]; intros t bd vis bd' Hw.
      - cbn [tree_walk] in Hw. destruct (t =? FREESECT); [inversion Hw; intros x []|discriminate].
      - cbn [tree_walk] in Hw. destruct (t =? FREESECT); [inversion Hw; intros x []|].
        destruct bd as [|bd0]; [discriminate|]. destruct (nsl <=? t) eqn:E; [discriminate|]. apply N.leb_gt in E.
        destruct (lk t) as [[lft rgt] chd].
        destruct (tree_walk f lk nsl lft bd0) as [[a bd1]|] eqn:Ea; [|discriminate].
        destruct (tree_walk f lk nsl rgt bd1) as [[b bd2]|] eqn:Eb; [|discriminate].
        inversion Hw; subst. intros x Hx. apply in_app_or in Hx. destruct Hx as [Hx|[Hx|Hx]].
        + apply (IH _ _ _ _ Ea x Hx).
        + subst x. exact E.
        + apply (IH _ _ _ _ Eb x Hx). }
    pose proof (nodup_bound Hnd Hb) as Hnb. rewrite parsed_dirs_length. unfold nsl in Hnb. lia. }
  destruct (@walk_dfs (parsed_dirs c l) lk nsl parsed_links_agree f (snd (lk s)) bd vis bd' Hw
              (2 * (length (parsed_dirs c l) - length vis))%nat [0] [] [] Hnd) as [pre [Hpre [Hl E]]].
  { intros x Hx [Hc|[]]. subst x. exact (H0 Hx). }
  exists pre. split; [exact Hpre|].
  unfold children_fuel.
  replace (S (2 * length (parsed_dirs c l)))
    with (2 * (length (parsed_dirs c l) - length vis) + (2 * length vis + 1))%nat by lia.
  rewrite E. rewrite children_loop_nil. rewrite app_nil_r, rev_involutive. reflexivity.
Qed.

End Tree.

(* ------------------------------------------------------------------ objects, slots, hierarchy *)
Definition key_of (y : N * list N) : N * list N := (fst y, name_key (snd y)).

Lemma mem_key_spec : forall x l, mem_key x l = true <-> In (key_of x) (map key_of l).
Proof.
  intros [xp xn]. induction l as [|[yp yn] r IH]; cbn [mem_key In map fst snd]; [split; [discriminate|tauto]|].
  rewrite orb_true_iff, andb_true_iff, N.eqb_eq, name_eqb_equiv, IH. unfold key_of, name_equiv. cbn [fst snd]. split.
  - intros [[-> ->]|H]; [left; reflexivity|right; exact H].
  - intros [H|H]; [inversion H; left; split; reflexivity|right; exact H].
Qed.

Lemma nodup_keyb_NoDup : forall l, nodup_keyb l = true -> NoDup (map key_of l).
Proof.
  induction l as [|x r IH]; intros H; [constructor|]. cbn [nodup_keyb] in H.
  apply andb_prop in H. destruct H as [H1 H2]. cbn [map]. constructor; [|apply IH; exact H2].
  intros Hin. apply mem_key_spec in Hin. rewrite Hin in H1. discriminate.
Qed.

(* [MS-CFB] uniqueness: two objects of one storage whose names agree up to case are one object *)
Lemma hier_facts : forall c, hier_okb c = true ->
  (forall k, parent_of c k <= N.of_nat (length (c_storages c))) /\
  (forall j, (j < length (c_storages c))%nat -> parent_of c j <= N.of_nat j) /\
  (forall k k' n n', parent_of c k = parent_of c k' ->
     nth_error (all_names c) k = Some n -> nth_error (all_names c) k' = Some n' -> name_equiv n n' -> k = k').
Proof.
  intros c H. unfold hier_okb in H. apply andb_prop in H. destruct H as [H H3].
  apply andb_prop in H. destruct H as [H1 H2]. split; [|split].
  - intros k. unfold parent_of. destruct (nth_in_or_default k (c_parents c) 0) as [Hin|E]; [|rewrite E; lia].
    apply N.leb_le. apply (forallb_In _ _ H1 _ Hin).
  - intros j Hj. apply N.leb_le. apply (forallb_In _ _ H2 j). apply in_seq. lia.
  - intros k k' n n' Hp En En' Hq. apply nodup_keyb_NoDup in H3. unfold item_keys in H3.
    assert (Hk : (k < length (all_names c))%nat) by (apply nth_error_Some; rewrite En; discriminate).
    assert (Hk' : (k' < length (all_names c))%nat) by (apply nth_error_Some; rewrite En'; discriminate).
    set (ps := map (parent_of c) (seq 0 (length (all_names c)))) in *.
    assert (Hlen : length ps = length (all_names c)) by (unfold ps; rewrite map_length, seq_length; reflexivity).
    assert (Hps : forall i, (i < length (all_names c))%nat -> nth_error ps i = Some (parent_of c i)).
    { intros i Hi. unfold ps. rewrite (map_nth_error (parent_of c) i (seq 0 (length (all_names c))) (d := i)); [reflexivity|].
      rewrite nth_error_nth' with (d := O) by (rewrite seq_length; exact Hi). rewrite seq_nth by exact Hi. reflexivity. }
    apply (proj1 (NoDup_nth_error (map key_of (combine ps (all_names c)))) H3).
    + rewrite map_length, combine_length, Hlen. lia.
    + rewrite (map_nth_error key_of k _ (nth_error_combine _ _ k (Hps k Hk) En)),
              (map_nth_error key_of k' _ (nth_error_combine _ _ k' (Hps k' Hk') En')).
      unfold key_of. cbn [fst snd]. rewrite Hp. unfold name_equiv in Hq. rewrite Hq. reflexivity.
Qed.

Lemma child_index_some : forall c p n names k0 k, child_index c p n k0 names = Some k ->
  (k0 <= k)%nat /\ (exists n', nth_error names (k - k0) = Some n' /\ name_equiv n' n) /\ parent_of c k = p.
Proof.
  intros c p n. induction names as [|n' r IH]; intros k0 k H; [discriminate|]. cbn [child_index] in H.
  destruct (name_eqb n' n && (parent_of c k0 =? p)) eqn:E.
  - inversion H; subst k. apply andb_prop in E. destruct E as [E1 E2]. apply name_eqb_equiv in E1. apply N.eqb_eq in E2.
    rewrite Nat.sub_diag. split; [lia|split; [exists n'; split; [reflexivity|exact E1]|exact E2]].
  - destruct (IH _ _ H) as [H1 [H2 H3]]. split; [lia|split; [|exact H3]].
    replace (k - k0)%nat with (S (k - S k0)) by lia. exact H2.
Qed.

Lemma child_index_none : forall c p n names k0, child_index c p n k0 names = None ->
  forall j n', nth_error names j = Some n' -> name_equiv n' n -> parent_of c (k0 + j) <> p.
Proof.
  intros c p n. induction names as [|n0 r IH]; intros k0 H j n' Hj Hq; [destruct j; discriminate|]. cbn [child_index] in H.
  destruct (name_eqb n0 n && (parent_of c k0 =? p)) eqn:E; [discriminate|].
  destruct j as [|j].
  - cbn [nth_error] in Hj. inversion Hj; subst n0. apply name_eqb_equiv in Hq. rewrite Hq in E. cbn [andb] in E.
    apply N.eqb_neq in E. rewrite Nat.add_0_r. exact E.
  - cbn [nth_error] in Hj. replace (k0 + S j)%nat with (S k0 + j)%nat by lia. apply (IH _ H _ _ Hj Hq).
Qed.

Section Objects.
Variables (c : container) (l : layout).
Hypothesis Hv : valid_layout c l.

Let nst := length (c_storages c).
Let nobj := length (l_slots l).

Lemma nobj_names : length (all_names c) = nobj.
Proof.
  destruct (valid_dir Hv) as [_ [_ [Hls _]]]. unfold nobj, all_names. rewrite app_length, map_length. lia.
Qed.

Lemma obj_slot_S : forall k, obj_slot l (N.of_nat (S k)) = nth k (l_slots l) 0.
Proof.
  intros k. unfold obj_slot. replace (N.of_nat (S k) =? 0) with false by (symmetry; apply N.eqb_neq; lia).
  replace (N.to_nat (N.of_nat (S k)) - 1)%nat with k by lia. reflexivity.
Qed.

(* the k-th object: its slot holds an item carrying its name *)
Lemma object_in_table : forall k, (k < nobj)%nat ->
  exists it, In (nth k (l_slots l) 0, it) (slot_table c l) /\ nth_error (all_names c) k = Some (item_name it).
Proof.
  intros k Hk. destruct (valid_dir Hv) as [_ [_ [Hls [Hlc _]]]].
  assert (Hil : length (items c l) = nobj) by (rewrite (items_length c l Hlc); unfold nobj; lia).
  destruct (nth_error (items c l) k) as [it|] eqn:Ei; [|apply nth_error_None in Ei; lia].
  exists it. split.
  - apply (nth_error_In (slot_table c l) k). unfold slot_table. apply nth_error_combine; [|exact Ei].
    apply nth_error_nth'. exact Hk.
  - rewrite <- (items_names_eq c l Hlc). apply (map_nth_error (fun it => fst (fst (fst it))) k _ Ei).
Qed.

Lemma object_slot_range : forall k, (k < nobj)%nat -> 1 <= nth k (l_slots l) 0 < N.of_nat (nslots c l).
Proof.
  intros k Hk. destruct (valid_dir Hv) as [_ [Hr _]]. apply Hr. apply nth_In. exact Hk.
Qed.

Lemma object_entry_name : forall k, (k < nobj)%nat ->
  nth_error (all_names c) k = Some (d_name (entry_at c l (nth k (l_slots l) 0))).
Proof.
  intros k Hk. destruct (object_in_table Hk) as [it [Hin Hn]].
  destruct (entry_at_item _ _ Hv Hin) as [En _]. rewrite En. exact Hn.
Qed.

Lemma children_slots_In : forall p s, In s (children_slots c l p) <->
  exists k, (k < nobj)%nat /\ nth k (l_slots l) 0 = s /\ parent_of c k = p.
Proof.
  intros p s. unfold children_slots. fold nobj. rewrite in_map_iff. split.
  - intros [[s' q] [E Hin]]. cbn [fst] in E. subst s'. apply filter_In in Hin. destruct Hin as [Hin Hq].
    cbn [snd] in Hq. apply N.eqb_eq in Hq. subst q.
    apply In_nth_error in Hin. destruct Hin as [k Hk].
    assert (Hlt : (k < nobj)%nat).
    { assert (H : (k < length (combine (l_slots l) (map (parent_of c) (seq 0 nobj))))%nat)
        by (apply nth_error_Some; rewrite Hk; discriminate).
      rewrite combine_length in H. unfold nobj. lia. }
    exists k. split; [exact Hlt|].
    assert (H1 : nth_error (l_slots l) k = Some (nth k (l_slots l) 0)) by (apply nth_error_nth'; exact Hlt).
    assert (H2 : nth_error (map (parent_of c) (seq 0 nobj)) k = Some (parent_of c k)).
    { rewrite (map_nth_error (parent_of c) k (seq 0 nobj) (d := k)); [reflexivity|].
      rewrite nth_error_nth' with (d := O) by (rewrite seq_length; exact Hlt). rewrite seq_nth by exact Hlt. reflexivity. }
    rewrite (nth_error_combine _ _ k H1 H2) in Hk. inversion Hk. split; reflexivity.
  - intros [k [Hk [Hs Hp]]]. exists (s, p). split; [reflexivity|]. apply filter_In. split; [|cbn [snd]; apply N.eqb_refl].
    apply (nth_error_In _ k). apply nth_error_combine.
    + rewrite <- Hs. apply nth_error_nth'. exact Hk.
    + rewrite (map_nth_error (parent_of c) k (seq 0 nobj) (d := k)); [rewrite Hp; reflexivity|].
      rewrite nth_error_nth' with (d := O) by (rewrite seq_length; exact Hk). rewrite seq_nth by exact Hk. reflexivity.
Qed.

Lemma slots_inj : forall k k', (k < nobj)%nat -> (k' < nobj)%nat ->
  nth k (l_slots l) 0 = nth k' (l_slots l) 0 -> k = k'.
Proof.
  intros k k' Hk Hk' E. destruct (valid_dir Hv) as [Hnd _].
  apply (proj1 (NoDup_nth (l_slots l) 0) Hnd); assumption.
Qed.

End Objects.

Lemma nodup_map_fst_filter_combine : forall (B : Type) (f : N * B -> bool) (a : list N) (b : list B),
  NoDup a -> NoDup (map fst (filter f (combine a b))).
Proof.
  intros B f. induction a as [|x a IH]; intros b Hnd; [constructor|]. destruct b as [|y b]; [constructor|].
  inversion Hnd as [|? ? Hx Ha]; subst. cbn [combine filter].
  assert (Hsub : forall z, In z (map fst (filter f (combine a b))) -> In z a).
  { intros z Hz. apply in_map_iff in Hz. destruct Hz as [[z' w] [E Hz]]. cbn [fst] in E. subst z'.
    apply filter_In in Hz. apply (in_combine_l _ _ _ _ (proj1 Hz)). }
  destruct (f (x, y)); [|apply IH; exact Ha]. cbn [map fst]. constructor; [|apply IH; exact Ha].
  intros Hc. apply Hx. apply Hsub. exact Hc.
Qed.

Lemma find_unique : forall (A : Type) (f : A -> bool) l x, In x l -> f x = true ->
  (forall y, In y l -> f y = true -> y = x) -> find f l = Some x.
Proof.
  intros A f l x Hin Hx Hu. destruct (find f l) as [y|] eqn:E.
  - apply find_some in E. f_equal. apply Hu; tauto.
  - rewrite (find_none _ _ E _ Hin) in Hx. discriminate.
Qed.

Lemma find_all_false : forall (A : Type) (f : A -> bool) l, (forall y, In y l -> f y = false) -> find f l = None.
Proof.
  intros A f l H. destruct (find f l) as [y|] eqn:E; [|reflexivity].
  apply find_some in E. rewrite (H y (proj1 E)) in E. destruct E; discriminate.
Qed.

Lemma nth_in_skipn : forall (A : Type) (l : list A) n k d, (n <= k < length l)%nat -> In (nth k l d) (skipn n l).
Proof.
  induction l as [|x l IH]; intros n k d H; [simpl in H; lia|].
  destruct n as [|n]; [cbn [skipn]; apply nth_In; lia|]. destruct k as [|k]; [lia|].
  simpl in H. cbn [skipn nth]. apply IH. lia.
Qed.

Section Lookup.
Variables (c : container) (l : layout).
Hypothesis Hv : valid_layout c l.
Hypothesis Ht : linked_tree c l.

Let nst := length (c_storages c).
Let nobj := length (l_slots l).
Let dirs := parsed_dirs c l.
Let nsl := N.of_nat (nslots c l).

Lemma nobj_split : nobj = (nst + length (c_streams c))%nat.
Proof. destruct (valid_dir Hv) as [_ [_ [Hls _]]]. exact Hls. Qed.

Lemma kids_nodup : forall p, NoDup (children_slots c l p).
Proof.
  intros p. unfold children_slots. apply nodup_map_fst_filter_combine. exact (proj1 (valid_dir Hv)).
Qed.

Lemma kids_ge1 : forall p s, In s (children_slots c l p) -> 1 <= s < nsl.
Proof.
  intros p s Hs. apply children_slots_In in Hs. destruct Hs as [k [Hk [<- _]]].
  apply (object_slot_range Hv). exact Hk.
Qed.

Lemma obj_slot_lt : forall p, p <= N.of_nat nobj -> obj_slot l p < nsl.
Proof.
  intros p Hp. unfold obj_slot. destruct (p =? 0) eqn:E; [apply (nslots_pos' Hv)|]. apply N.eqb_neq in E.
  apply (object_slot_range Hv). unfold nobj in Hp. lia.
Qed.

(* the children Cfb::children collects for the root entry or a storage: exactly the slots of
   the objects the container puts into that storage, each once (in the order of the stack walk) *)
Lemma children_of_object : forall p, p <= N.of_nat nst ->
  forall x, In x (children dirs (obj_slot l p)) <-> In x (children_slots c l p).
Proof.
  intros p Hp. destruct (tree_storage_walk Ht Hp) as [vis [bd [Hw [Hlen [Hnd Hsub]]]]].
  assert (Hback : incl vis (children_slots c l p)).
  { apply NoDup_length_incl; [apply kids_nodup|lia|exact Hsub]. }
  assert (H0 : ~ In 0 vis).
  { intros H0. apply Hback in H0. apply kids_ge1 in H0. lia. }
  assert (Hs : obj_slot l p < N.of_nat (nslots c l)) by (apply obj_slot_lt; rewrite nobj_split; lia).
  destruct (@children_of_walk c l Ht (obj_slot l p) _ _ vis bd Hs Hw Hnd H0) as [pre [Hpre E]].
  unfold dirs. rewrite E. intros x. rewrite Hpre. split; [apply Hback|apply Hsub].
Qed.

Lemma children_of_stream : forall p, N.of_nat nst < p <= N.of_nat nobj -> children dirs (obj_slot l p) = [].
Proof.
  intros p Hp. assert (Hs : obj_slot l p < N.of_nat (nslots c l)) by (apply obj_slot_lt; lia).
  unfold children, dirs. rewrite (@nthN_parsed c l _ Hs).
  destruct (entry_links Ht (obj_slot l p)) as [_ [_ Hch]]. rewrite Hch.
  rewrite (@tree_stream_child c l Ht).
  - unfold children_fuel. cbn [children_loop].
    rewrite (@nthN_parsed_none c l FREESECT (tree_nsl Ht)). rewrite children_loop_nil. reflexivity.
  - unfold obj_slot. replace (p =? 0) with false by (symmetry; apply N.eqb_neq; lia).
    apply nth_in_skipn. unfold nobj in Hp. lia.
Qed.

Lemma name_is_slot : forall k n, (k < nobj)%nat ->
  name_is dirs n (nth k (l_slots l) 0) = true <->
  exists n', nth_error (all_names c) k = Some n' /\ name_equiv n' n.
Proof.
  intros k n Hk. unfold name_is, dirs.
  rewrite (@nthN_parsed c l _ (proj2 (object_slot_range Hv Hk))).
  rewrite (object_entry_name Hv Hk). rewrite name_eqb_equiv. split.
  - intros H. eexists. split; [reflexivity|exact H].
  - intros [n' [H Hq]]. inversion H; subst n'. exact Hq.
Qed.

(* one step of Cfb::find: the entry of that name among the children of object p *)
Lemma find_child : forall p n, p <= N.of_nat nobj ->
  find (name_is dirs n) (children dirs (obj_slot l p))
  = option_map (fun k => obj_slot l (N.of_nat (S k))) (child_index c p n 0 (all_names c)).
Proof.
  intros p n Hp. destruct (valid_dir Hv) as [_ [_ [_ [_ [_ Hh]]]]].
  destruct (hier_facts _ Hh) as [Hpar [_ Hkey]]. pose proof (nobj_names Hv) as Hnn.
  destruct (N.le_gt_cases p (N.of_nat nst)) as [Hst|Hst].
  - pose proof (children_of_object Hst) as Hkids.
    destruct (child_index c p n 0 (all_names c)) as [k|] eqn:Ec; cbn [option_map].
    + destruct (@child_index_some _ _ _ _ _ _ Ec) as [_ [[n1 [Hn Hq1]] Hpk]]. rewrite Nat.sub_0_r in Hn.
      assert (Hk : (k < nobj)%nat) by (unfold nobj; rewrite <- Hnn; apply nth_error_Some; rewrite Hn; discriminate).
      rewrite (obj_slot_S c). apply find_unique.
      * apply Hkids. apply children_slots_In. exists k. repeat split; assumption.
      * apply (name_is_slot n Hk). exists n1. split; assumption.
      * intros y Hy Hny. apply Hkids in Hy. apply children_slots_In in Hy. destruct Hy as [k' [Hk' [<- Hp']]].
        apply (name_is_slot n Hk') in Hny. destruct Hny as [n2 [Hn2 Hq2]]. f_equal.
        apply (Hkey k' k n2 n1); [congruence|exact Hn2|exact Hn|].
        unfold name_equiv in *. congruence.
    + apply find_all_false. intros y Hy. apply Hkids in Hy. apply children_slots_In in Hy.
      destruct Hy as [k' [Hk' [<- Hp']]]. destruct (name_is dirs n (nth k' (l_slots l) 0)) eqn:E; [|reflexivity].
      apply (name_is_slot n Hk') in E. destruct E as [n2 [Hn2 Hq2]].
      exfalso. apply (@child_index_none _ _ _ _ _ Ec k' n2 Hn2 Hq2). exact Hp'.
  - rewrite children_of_stream by lia. cbn [find].
    destruct (child_index c p n 0 (all_names c)) as [k|] eqn:Ec; [|reflexivity].
    destruct (@child_index_some _ _ _ _ _ _ Ec) as [_ [_ Hpk]]. pose proof (Hpar k). unfold nst in Hst. lia.
Qed.

Lemma resolve_le : forall path p q, p <= N.of_nat nobj -> resolve c p path = Some q -> q <= N.of_nat nobj.
Proof.
  pose proof (nobj_names Hv) as Hnn.
  induction path as [|n rest IH]; intros p q Hp H; cbn [resolve] in H; [inversion H; subst; exact Hp|].
  destruct (child_index c p n 0 (all_names c)) as [k|] eqn:Ec; [|discriminate].
  destruct (@child_index_some _ _ _ _ _ _ Ec) as [_ [[n1 [Hn _]] _]]. rewrite Nat.sub_0_r in Hn.
  assert (Hk : (k < nobj)%nat) by (unfold nobj; rewrite <- Hnn; apply nth_error_Some; rewrite Hn; discriminate).
  apply (IH (N.of_nat (S k)) q); [lia|exact H].
Qed.

(* the object a non-empty path ends on carries the last name of the path, up to case *)
Lemma resolve_last : forall path p q, path <> [] -> resolve c p path = Some q ->
  exists k n' m, q = N.of_nat (S k) /\ (k < nobj)%nat /\ nth_error (all_names c) k = Some n' /\
                 last_opt path = Some m /\ name_equiv n' m.
Proof.
  pose proof (nobj_names Hv) as Hnn.
  induction path as [|n rest IH]; intros p q Hne H; [contradiction|]. cbn [resolve] in H.
  destruct (child_index c p n 0 (all_names c)) as [k|] eqn:Ec; [|discriminate].
  destruct (@child_index_some _ _ _ _ _ _ Ec) as [_ [[n1 [Hn Hq1]] _]]. rewrite Nat.sub_0_r in Hn.
  assert (Hk : (k < nobj)%nat) by (unfold nobj; rewrite <- Hnn; apply nth_error_Some; rewrite Hn; discriminate).
  destruct rest as [|n2 rest2].
  - cbn [resolve] in H. inversion H; subst q. exists k, n1, n. repeat split; assumption.
  - destruct (IH _ _ ltac:(discriminate) H) as [k2 [n' [m [E [Hk2 [Hl [Hm Hq]]]]]]]. exists k2, n', m. repeat split; assumption.
Qed.

(* the loop of Cfb::find from the entry of any object: the lookup of the specification *)
Lemma find_from_resolve : forall path p, p <= N.of_nat nobj ->
  find_from dirs (obj_slot l p) path = option_map (obj_slot l) (resolve c p path).
Proof.
  pose proof (nobj_names Hv) as Hnn.
  induction path as [|n rest IH]; intros p Hp; [reflexivity|]. cbn [find_from resolve].
  rewrite (find_child n Hp). destruct (child_index c p n 0 (all_names c)) as [k|] eqn:Ec; cbn [option_map]; [|reflexivity].
  destruct (@child_index_some _ _ _ _ _ _ Ec) as [_ [[n1 [Hn _]] _]]. rewrite Nat.sub_0_r in Hn.
  assert (Hk : (k < nobj)%nat) by (unfold nobj; rewrite <- Hnn; apply nth_error_Some; rewrite Hn; discriminate).
  apply IH. lia.
Qed.

Lemma root_has_child : (0 < nobj)%nat -> In (nth 0 (l_slots l) 0) (children_slots c l 0).
Proof.
  intros H. destruct (valid_dir Hv) as [_ [_ [_ [_ [_ Hh]]]]]. destruct (hier_facts _ Hh) as [Hpar [Hst _]].
  apply children_slots_In. exists O. split; [exact H|]. split; [reflexivity|].
  destruct (Nat.eq_dec nst 0) as [E|E].
  - pose proof (Hpar O). unfold nst in E. lia.
  - pose proof (Hst O ltac:(unfold nst in E; lia)). lia.
Qed.

(* a name the flat scan cannot confuse with the root entry or an unused slot *)
Definition plain (n : list N) : Prop := n <> [] /\ ~ name_equiv n ROOT_NAME.
Lemma plain_equiv : forall n n', name_equiv n n' -> plain n -> plain n'.
Proof.
  intros n n' Hq [H1 H2]. split.
  - intros ->. apply H1. apply name_equiv_nil. symmetry. exact Hq.
  - intros H. apply H2. unfold name_equiv in *. congruence.
Qed.

(* MAIN (lookup): Cfb::find on the directory of a written container whose links are a tree is the
   lookup of the specification, for every path — wherever the entries sit in the array *)
Theorem find_entry_resolve : forall path, path <> [] -> (forall n, last_opt path = Some n -> plain n) ->
  find_entry dirs path =
  match resolve c 0 path with Some p => Some (entry_at c l (obj_slot l p)) | None => None end.
Proof.
  intros path Hne Hplain. unfold find_entry.
  pose proof (@children_of_object 0 ltac:(lia)) as Hkids. change (obj_slot l 0) with 0 in Hkids.
  destruct (children dirs 0) as [|x0 xs] eqn:Ech.
  - (* no child of the root: no object at all *)
    assert (Hno : nobj = O).
    { destruct (Nat.eq_dec nobj 0) as [E|E]; [exact E|]. exfalso.
      assert (Hr : In (nth 0 (l_slots l) 0) (children_slots c l 0)) by (apply root_has_child; lia).
      apply (proj2 (Hkids _)) in Hr. destruct Hr. }
    destruct path as [|n rest]; [contradiction|].
    assert (Hnames : all_names c = []).
    { pose proof (nobj_names Hv) as Hnn. fold nobj in Hnn. rewrite Hno in Hnn. destruct (all_names c); [reflexivity|discriminate]. }
    cbn [resolve]. rewrite Hnames. cbn [child_index].
    destruct (last_opt (n :: rest)) as [m|] eqn:El; [|reflexivity].
    destruct (Hplain m eq_refl) as [H1 H2]. unfold dirs. rewrite (@find_dir_first c l m Hv H1 H2).
    unfold first_slot, slot_table. unfold nobj in Hno. destruct (l_slots l); [reflexivity|discriminate].
  - pose proof (@find_from_resolve path 0 ltac:(lia)) as Hfr. change (obj_slot l 0) with 0 in Hfr. rewrite Hfr.
    destruct (resolve c 0 path) as [p|] eqn:Er; cbn [option_map]; [|reflexivity].
    unfold dirs. apply nthN_parsed. apply obj_slot_lt. apply (resolve_le path (p := 0)); [lia|exact Er].
Qed.

End Lookup.

Section Streams.
Variables (c : container) (l : layout).
Hypothesis Hv : valid_layout c l.
Hypothesis Ht : linked_tree c l.

Let nst := length (c_storages c).
Let nobj := length (l_slots l).

Lemma names_plain : forall k n, nth_error (all_names c) k = Some n -> plain n.
Proof.
  intros k n H. destruct (valid_dir Hv) as [_ [_ [_ [_ [Hval _]]]]].
  apply valid_name_not_special. apply Hval. apply (nth_error_In _ _ H).
Qed.

(* a path the specification resolves to a stream *)
Lemma spec_path_facts : forall path b, spec_path c path = Some b ->
  path <> [] /\ (forall n, last_opt path = Some n -> plain n) /\
  exists k n, resolve c 0 path = Some (N.of_nat (S (nst + k))) /\ nth_error (c_streams c) k = Some (n, b).
Proof.
  intros path b H. unfold spec_path in H. destruct (resolve c 0 path) as [p|] eqn:Er; [|discriminate].
  fold nst in H. destruct (N.of_nat nst <? p) eqn:E; [|discriminate]. apply N.ltb_lt in E.
  destruct (nth_error (c_streams c) (N.to_nat (p - N.of_nat nst) - 1)) as [[n b']|] eqn:En; [|discriminate].
  inversion H; subst b'.
  assert (Hne : path <> []) by (intros ->; cbn [resolve] in Er; inversion Er; lia).
  split; [exact Hne|].
  destruct (@resolve_last c l Hv path 0 p Hne Er) as [k [n' [m' [Ek [Hk [Hl [Hm' Hq]]]]]]]. split.
  - intros m Hm. rewrite Hm in Hm'. inversion Hm'; subst m'. apply (plain_equiv Hq). apply (names_plain _ Hl).
  - exists (N.to_nat (p - N.of_nat nst) - 1)%nat, n. split; [|exact En]. f_equal. lia.
Qed.

(* MAIN (streams): on any Cfb value holding the written tables, the stream the specification finds
   at a path is read back byte for byte *)
Theorem get_stream_path : forall cf r, written_cfb c l cf r ->
  forall path b, spec_path c path = Some b -> exists c' r', get_stream cf path r = Ok (b, c', r').
Proof.
  intros cf r Hw path b Hs. destruct (spec_path_facts _ Hs) as [Hne [Hpl [k [n [Er Hk]]]]].
  destruct (stream_slot_exists _ Hv Hk) as [s Hsl].
  destruct (@stream_item_at c l k n b s Hv Hk Hsl) as [ch [Hch Hin]].
  destruct (entry_at_item _ _ Hv Hin) as [_ [Est Eln]]. cbn [stream_item fst snd] in Est, Eln.
  pose proof Hw as (Hdirs & _).
  apply (@get_stream_of_entry c l cf r Hv Hw path n b ch (entry_at c l s) Hch); [|exact Est|exact Eln].
  rewrite Hdirs, (@find_entry_resolve c l Hv Ht path Hne Hpl), Er. f_equal. f_equal.
  rewrite (obj_slot_S c). unfold stream_slot in Hsl. fold nst in Hsl. apply nth_error_nth. exact Hsl.
Qed.

(* MAIN (C13, through the bytes): every stream of every container is read back byte for byte by
   its path, for every valid physical layout whose links are a tree over the hierarchy — sector
   size, chains, mini stream, FAT / DIFAT extent, directory order, unused entries, shape of the
   sibling trees; names need only be unique per storage *)
Theorem layout_independent : forall fuel, (fuel_for l <= fuel)%nat ->
  forall path b, spec_path c path = Some b -> cfb_get_stream fuel (cfb_write c l) path = Ok b.
Proof.
  intros fuel Hfuel path b Hs. unfold cfb_get_stream.
  destruct (cfb_new_written Hv Hfuel) as [cf [r [Hnew Hw]]]. rewrite Hnew. cbn [obind].
  destruct (get_stream_path Hw _ Hs) as [c' [r' Hg]]. rewrite Hg. reflexivity.
Qed.

(* a path that leads to no object is not found (wherever objects of that name sit elsewhere) *)
Theorem path_not_found : forall fuel, (fuel_for l <= fuel)%nat ->
  forall path, path <> [] -> (forall n, last_opt path = Some n -> plain n) -> resolve c 0 path = None ->
  cfb_get_stream fuel (cfb_write c l) path = Err ERR_NOT_FOUND.
Proof.
  intros fuel Hfuel path Hne Hpl Hr. unfold cfb_get_stream.
  destruct (cfb_new_written Hv Hfuel) as [cf [r [Hnew (Hdirs & _)]]]. rewrite Hnew. cbn [obind].
  unfold get_stream. rewrite Hdirs, (@find_entry_resolve c l Hv Ht path Hne Hpl), Hr. reflexivity.
Qed.

(* Cfb::has_directory: an object of the ROOT storage *)
Theorem has_directory_root : forall fuel, (fuel_for l <= fuel)%nat ->
  exists cf r, cfb_new fuel (cfb_write c l) = Ok (cf, r) /\ written_cfb c l cf r /\
    forall n, plain n ->
      has_directory cf n = match resolve c 0 [n] with Some _ => true | None => false end.
Proof.
  intros fuel Hfuel. destruct (cfb_new_written Hv Hfuel) as [cf [r [Hnew Hw]]].
  exists cf, r. split; [exact Hnew|]. split; [exact Hw|]. intros n Hn. destruct Hw as (Hdirs & _).
  unfold has_directory. rewrite Hdirs, (@find_entry_resolve c l Hv Ht [n]).
  - destruct (resolve c 0 [n]); reflexivity.
  - discriminate.
  - intros m Hm. cbn [last_opt] in Hm. inversion Hm; subst m. exact Hn.
Qed.

Lemma workbook_plain : plain WORKBOOK /\ plain BOOK.
Proof. repeat split; try discriminate; intros H; vm_compute in H; discriminate. Qed.

(* MAIN (Xls::new): the bytes handed to the BIFF parser are those of the ROOT storage's Workbook
   stream, or of its Book stream when the root has no Workbook — wherever the entries of embedded
   objects (MBD.../Workbook, other VBA projects) sit in the directory array.  [root_storage_named]:
   a root STORAGE called Workbook is outside the statement (the code takes any root entry of
   that name) *)
Theorem workbook_stream_preferred : forall fuel b, (fuel_for l <= fuel)%nat ->
  spec_workbook c = Some b -> root_storage_named c WORKBOOK = false ->
  xls_workbook_stream fuel (cfb_write c l) = Ok b.
Proof.
  intros fuel b Hfuel Hspec Hrs. destruct workbook_plain as [Pw Pb].
  destruct (cfb_new_written Hv Hfuel) as [cf [r [Hnew Hw]]].
  unfold xls_workbook_stream. rewrite Hnew. cbn [obind]. unfold workbook_or_book.
  unfold spec_workbook in Hspec. destruct (spec_path c [WORKBOOK]) as [bw|] eqn:Ew.
  - inversion Hspec; subst bw. destruct (get_stream_path Hw _ Ew) as [c' [r' Hg]]. rewrite Hg. reflexivity.
  - assert (Hnf : get_stream cf [WORKBOOK] r = Err ERR_NOT_FOUND).
    { destruct Hw as (Hdirs & _). unfold get_stream.
      rewrite Hdirs, (@find_entry_resolve c l Hv Ht [WORKBOOK]); [|discriminate|intros m Hm; inversion Hm; exact Pw].
      destruct (resolve c 0 [WORKBOOK]) as [p|] eqn:Er; [|reflexivity]. exfalso.
      destruct (@resolve_last c l Hv [WORKBOOK] 0 p ltac:(discriminate) Er) as [k [n1 [m1 [Ek [Hk _]]]]].
      unfold root_storage_named in Hrs. rewrite Er in Hrs. unfold spec_path in Ew. rewrite Er in Ew.
      fold nst in Hrs, Ew. destruct (N.of_nat nst <? p) eqn:E.
      - apply N.ltb_lt in E.
        destruct (nth_error (c_streams c) (N.to_nat (p - N.of_nat nst) - 1)) as [[n' b']|] eqn:En; [discriminate|].
        apply nth_error_None in En. pose proof (nobj_split Hv) as Hsp. fold nst in Hsp. lia.
      - apply N.ltb_ge in E. apply andb_false_iff in Hrs. destruct Hrs as [H|H]; [apply N.leb_gt in H|apply N.leb_gt in H]; lia. }
    rewrite Hnf. destruct (get_stream_path Hw _ Hspec) as [c' [r' Hg]]. rewrite Hg. reflexivity.
Qed.

End Streams.

(* two containers holding the same stream at the same path — any sector sizes, any layouts, any
   directory orders, any sibling trees, any other objects — read the same bytes *)
Corollary same_streams_same_read : forall c1 l1 c2 l2 path b,
  valid_layout c1 l1 -> valid_layout c2 l2 -> linked_tree c1 l1 -> linked_tree c2 l2 ->
  spec_path c1 path = Some b -> spec_path c2 path = Some b ->
  cfb_get_stream (fuel_for l1) (cfb_write c1 l1) path = cfb_get_stream (fuel_for l2) (cfb_write c2 l2) path.
Proof.
  intros c1 l1 c2 l2 path b H1 H2 T1 T2 S1 S2.
  rewrite (layout_independent H1 T1 (le_n _) _ S1), (layout_independent H2 T2 (le_n _) _ S2). reflexivity.
Qed.

(* ------------------------------------------------------------------ names and the root storage *)
Lemma find_ext_local : forall (A : Type) (f g : A -> bool) l, (forall x, f x = g x) -> find f l = find g l.
Proof.
  intros A f g l H. induction l as [|x l IH]; [reflexivity|]. cbn [find]. rewrite H, IH. reflexivity.
Qed.

Lemma resolve_one_in_names : forall c n p, resolve c 0 [n] = Some p -> mem_name n (all_names c) = true.
Proof.
  intros c n p H. cbn [resolve] in H. destruct (child_index c 0 n 0 (all_names c)) as [k|] eqn:E; [|discriminate].
  destruct (@child_index_some _ _ _ _ _ _ E) as [_ [[n1 [Hn Hq]] _]]. apply mem_name_spec.
  exists n1. split; [apply (nth_error_In _ _ Hn)|exact Hq].
Qed.

(* an object of the root storage is found by resolve, under every case spelling of its name *)
Lemma resolve_one_root : forall c k n n', hier_okb c = true -> nth_error (all_names c) k = Some n ->
  parent_of c k = 0 -> name_equiv n n' -> resolve c 0 [n'] = Some (N.of_nat (S k)).
Proof.
  intros c k n n' Hh Hn Hp Hq. cbn [resolve].
  destruct (child_index c 0 n' 0 (all_names c)) as [k'|] eqn:E.
  - destruct (@child_index_some _ _ _ _ _ _ E) as [_ [[n1 [Hn1 Hq1]] Hp']]. rewrite Nat.sub_0_r in Hn1.
    destruct (hier_facts _ Hh) as [_ [_ Hkey]]. f_equal. f_equal. f_equal.
    apply (Hkey k' k n1 n); [congruence|exact Hn1|exact Hn|]. unfold name_equiv in *. congruence.
  - exfalso. apply (@child_index_none _ _ _ _ _ E k n Hn Hq). exact Hp.
Qed.

(* no hierarchy written: Cfb::has_directory answers for every object of the file, whatever storage
   the container puts it in, under every case spelling of the name *)
Theorem has_directory_flat : forall c l fuel, valid_layout c l -> flat_root c l -> (fuel_for l <= fuel)%nat ->
  exists cf r, cfb_new fuel (cfb_write c l) = Ok (cf, r) /\ written_cfb c l cf r /\
    forall n, plain n -> has_directory cf n = mem_name n (all_names c).
Proof.
  intros c l fuel Hv Hfl Hfuel. destruct (cfb_new_written Hv Hfuel) as [cf [r [Hnew Hw]]].
  exists cf, r. split; [exact Hnew|]. split; [exact Hw|]. intros n [H1 H2]. destruct Hw as (Hdirs & _).
  unfold has_directory. rewrite Hdirs, find_entry_flat by (apply children_root_flat; assumption).
  cbn [last_opt]. rewrite (@find_dir_first c l n Hv H1 H2). unfold first_slot.
  destruct (min_slot n (slot_table c l)) as [s|] eqn:E.
  - symmetry. apply mem_name_spec. destruct (min_slot_some _ _ E) as [[it [Hin Hn]] _].
    exists (item_name it). split; [apply (slot_table_names _ _ _ _ Hin)|exact Hn].
  - symmetry. destruct (mem_name n (all_names c)) eqn:M; [|reflexivity]. exfalso.
    apply mem_name_spec in M. destruct M as [y [Hin Hq]].
    destruct (valid_dir Hv) as [_ [_ [_ [Hlc _]]]].
    rewrite <- (items_names_eq c l Hlc) in Hin. apply in_map_iff in Hin. destruct Hin as [it [Hn Hit]].
    destruct (@item_in_dirs c l it Hv Hit) as [s [Hs _]]. apply (@min_slot_none _ _ E _ _ Hs).
    unfold item_name. rewrite Hn. exact Hq.
Qed.

(* no hierarchy written, names distinct (up to case) over the whole file: a container with both
   streams reads Workbook, wherever the two entries are and however the two names are cased (WORKBOOK,
   workbook, BOOK …); one holding only Book reads Book *)
Theorem flat_workbook_stream_preferred : forall c l fuel, valid_layout c l -> flat_root c l -> names_unique c ->
  (fuel_for l <= fuel)%nat ->
  (forall nw bw, name_equiv nw WORKBOOK -> In (nw, bw) (c_streams c) ->
     xls_workbook_stream fuel (cfb_write c l) = Ok bw) /\
  (forall nb bb, mem_name WORKBOOK (all_names c) = false -> name_equiv nb BOOK -> In (nb, bb) (c_streams c) ->
     xls_workbook_stream fuel (cfb_write c l) = Ok bb).
Proof.
  intros c l fuel Hv Hfl Hu Hfuel. destruct workbook_plain as [[W1 W2] [B1 B2]].
  destruct (cfb_new_written Hv Hfuel) as [cf [r [Hnew Hw]]].
  unfold xls_workbook_stream. rewrite Hnew. cbn [obind]. unfold workbook_or_book.
  assert (G : forall n n' b, name_equiv n n' -> In (n, b) (c_streams c) ->
              exists c' r', get_stream cf [n'] r = Ok (b, c', r')).
  { intros n n' b Hq Hin. apply In_nth_error in Hin. destruct Hin as [k Hk].
    destruct (stream_slot_exists _ Hv Hk) as [s Hs].
    pose proof (@first_slot_unique c l k n b s Hv Hu Hk Hs) as Hf.
    destruct (@get_stream_first c l cf r Hv Hfl Hw k n b s [] Hk Hs Hf) as [c' [r' Hg]].
    exists c', r'. rewrite <- Hg. unfold get_stream. cbn [app]. destruct Hw as (Hdirs & _).
    rewrite Hdirs, !find_entry_flat by (apply children_root_flat; assumption). cbn [last_opt].
    assert (Ef : find_dir n' (parsed_dirs c l) = find_dir n (parsed_dirs c l)).
    { unfold find_dir. apply find_ext_local. intros d. symmetry. apply name_eqb_key_r. exact Hq. }
    rewrite Ef. reflexivity. }
  split.
  - intros nw bw Hq Hin. destruct (G _ _ _ Hq Hin) as [c' [r' Hg]]. rewrite Hg. reflexivity.
  - intros nb bb Hno Hq Hin.
    assert (Ha : get_stream cf [WORKBOOK] r = Err ERR_NOT_FOUND).
    { apply (@get_stream_absent_flat c l cf r WORKBOOK [] Hv Hfl Hw W1 W2).
      apply min_slot_none_iff. intros s it Hsi Hn.
      assert (M : mem_name WORKBOOK (all_names c) = true).
      { apply mem_name_spec. exists (item_name it). split; [apply (slot_table_names _ _ _ _ Hsi)|exact Hn]. }
      rewrite M in Hno. discriminate. }
    rewrite Ha. destruct (G _ _ _ Hq Hin) as [c' [r' Hg]]. rewrite Hg. reflexivity.
Qed.

(* ------------------------------------------------------------------ any case spelling *)
(* [MS-CFB] 2.6.4 through its ASCII letters: a lookup depends on the names of the path, and on the
   names the file stores, only up to case *)
Lemma flip_case_key : forall c, ascii_upper (flip_case c) = ascii_upper c.
Proof.
  intros c. unfold flip_case, ascii_upper.
  destruct ((97 <=? c) && (c <=? 122)) eqn:E1.
  - assert (E : (97 <=? c - 32) && (c - 32 <=? 122) = false) by lia. rewrite E. reflexivity.
  - destruct ((65 <=? c) && (c <=? 90)) eqn:E2.
    + assert (E : (97 <=? c + 32) && (c + 32 <=? 122) = true) by lia. rewrite E. lia.
    + rewrite E1. reflexivity.
Qed.

Lemma respell_equiv : forall flags n, name_equiv n (respell flags n).
Proof.
  unfold name_equiv. intros flags n. revert flags. induction n as [|c n IH]; intros [|u flags]; try reflexivity.
  cbn [respell name_key map]. fold (name_key n). fold (name_key (respell flags n)). rewrite <- IH.
  destruct u; [rewrite flip_case_key|]; reflexivity.
Qed.

Lemma respell_path_equiv : forall flags path, Forall2 name_equiv path (respell_path flags path).
Proof.
  intros flags path. revert flags. induction path as [|n path IH]; intros [|f flags]; cbn [respell_path].
  - constructor.
  - constructor.
  - constructor; [reflexivity|]. clear IH. induction path; constructor; [reflexivity|assumption].
  - constructor; [apply respell_equiv|apply IH].
Qed.

Lemma child_index_key : forall c p n n' names k0, name_equiv n n' ->
  child_index c p n k0 names = child_index c p n' k0 names.
Proof.
  intros c p n n' names. induction names as [|x r IH]; intros k0 H; [reflexivity|].
  cbn [child_index]. rewrite (name_eqb_key_r x H), (IH _ H). reflexivity.
Qed.

Lemma resolve_key : forall c path path' p, Forall2 name_equiv path path' ->
  resolve c p path = resolve c p path'.
Proof.
  intros c path path' p H. revert p. induction H as [|n n' path path' Hn _ IH]; intros p; [reflexivity|].
  cbn [resolve]. rewrite (child_index_key c p (all_names c) 0 Hn).
  destruct (child_index c p n' 0 (all_names c)); [apply IH|reflexivity].
Qed.

Theorem spec_path_any_case : forall c path path', Forall2 name_equiv path path' ->
  spec_path c path = spec_path c path'.
Proof. intros c path path' H. unfold spec_path. rewrite (resolve_key c 0 H). reflexivity. Qed.

(* the specification does not look at the case of the stored names either: a container whose
   stream is called WORKBOOK declares a workbook *)
Lemma spec_stream_any_case : forall c n n', name_equiv n n' -> spec_stream c n = spec_stream c n'.
Proof.
  intros c n n' H. unfold spec_stream.
  rewrite (find_ext_local (fun p => name_eqb (fst p) n) (fun p => name_eqb (fst p) n') (c_streams c)); [reflexivity|].
  intros p. apply name_eqb_key_r. exact H.
Qed.

(* MAIN (C13, CFB-1): a stream is read back under EVERY case spelling of the names of its path *)
Theorem layout_independent_any_case : forall c l fuel, valid_layout c l -> linked_tree c l ->
  (fuel_for l <= fuel)%nat ->
  forall path b flags, spec_path c path = Some b ->
    cfb_get_stream fuel (cfb_write c l) (respell_path flags path) = Ok b.
Proof.
  intros c l fuel Hv Ht Hfuel path b flags Hs.
  apply (layout_independent Hv Ht Hfuel). rewrite <- (spec_path_any_case c (respell_path_equiv flags path)). exact Hs.
Qed.

(* ================================================================== Part 5: totality *)
(* no input makes the model panic; the only fuel (DIFAT walk) is bounded by the file *)
Definition fine (A : Type) (o : outcome A) : Prop := o <> Panic /\ o <> OutOfFuel.

Lemma fine_ok : forall (A : Type) (a : A), fine (Ok a).
Proof. intros; split; discriminate. Qed.
Lemma fine_err : forall (A : Type) e, fine (@Err A e).
Proof. intros; split; discriminate. Qed.

Lemma fine_bind : forall (A B : Type) (o : outcome A) (f : A -> outcome B),
  fine o -> (forall a, o = Ok a -> fine (f a)) -> fine (obind o f).
Proof.
  intros A B o f [H1 H2] Hf. destruct o; cbn [obind]; try (split; discriminate);
    [apply Hf; reflexivity|contradiction|contradiction].
Qed.

Lemma get_fine : forall s id r, fine (get s id r).
Proof.
  intros s id r. destruct (get_total s id r) as [->|[sl [s' [r' [-> _]]]]]; [apply fine_err|apply fine_ok].
Qed.

Lemma get_chain_fine : forall s id fats r len, fine (get_chain s id fats r len).
Proof. intros. apply chain_total. Qed.

Lemma load_fats_fine : forall ids s r, fine (load_fats ids s r).
Proof.
  induction ids as [|id ids IH]; intros s r; cbn [load_fats]; [apply fine_ok|].
  apply fine_bind; [apply get_fine|]. intros [[sl s1] r1] _. unfold to_u32. cbn [obind].
  apply fine_bind; [apply IH|]. intros [[rest s2] r2] _. apply fine_ok.
Qed.

Lemma from_slice_128 : forall buf ss, length buf = 128%nat -> exists d, from_slice buf ss = Ok d.
Proof.
  intros buf ss H. unfold from_slice. rewrite H.
  change (128 <? 64)%nat with false. change (128 <? 120)%nat with false.
  change (128 <? 124)%nat with false. change (128 <? 128)%nat with false. cbn iota.
  destruct (ss =? 512); eexists; reflexivity.
Qed.

Lemma map_from_slice_fine : forall ss (l : list (list N)),
  (forall b, In b l -> length b = 128%nat) -> fine (map_outcome (fun c => from_slice c ss) l).
Proof.
  intros ss. induction l as [|b l IH]; intros H; cbn [map_outcome]; [apply fine_ok|].
  destruct (from_slice_128 b ss (H b (or_introl eq_refl))) as [d ->]. cbn [obind].
  apply fine_bind; [apply IH; intros x Hx; apply H; right; exact Hx|]. intros ds _. apply fine_ok.
Qed.

Lemma chunks_exact_lengths : forall (n : nat) (l : list N) b, In b (chunks_exact n l) -> length b = n.
Proof.
  intros n l b H. unfold chunks_exact in H. apply filter_In in H. apply Nat.eqb_eq. exact (proj2 H).
Qed.

Lemma difat_loop_no_panic : forall fuel n s id d r, difat_loop fuel n s id d r <> Panic.
Proof.
  induction fuel as [|f IH]; intros n s id d r; cbn [difat_loop]; [discriminate|].
  destruct (id <? RESERVED_SECTORS); [|discriminate].
  destruct (get_total s id r) as [->|[sl [s1 [r1 [-> _]]]]]; cbn [obind]; [discriminate|].
  destruct (lenN sl <? ssize s); [discriminate|]. unfold to_u32. cbn [obind].
  destruct (pop (d ++ to_u32_aux sl)) as [[d' last]|];
    (destruct (lenN (sdata s1) / ssize s <? n + 1); [discriminate|apply IH]).
Qed.

(* the DIFAT walk ends by itself: the counter never exceeds the number of sectors of the file *)
Lemma difat_loop_no_fuel : forall fuel n s id d r,
  n <= lenN (sdata s ++ r) / ssize s -> lenN (sdata s ++ r) / ssize s < n + N.of_nat fuel ->
  difat_loop fuel n s id d r <> OutOfFuel.
Proof.
  induction fuel as [|f IH]; intros n s id d r Hn Hf; [lia|]. cbn [difat_loop].
  destruct (id <? RESERVED_SECTORS); [|discriminate].
  destruct (get_total s id r) as [->|[sl [s1 [r1 [-> [Hs1 [Hd1 Hm]]]]]]]; cbn [obind]; [discriminate|].
  destruct (lenN sl <? ssize s); [discriminate|]. unfold to_u32. cbn [obind].
  assert (Hle : lenN (sdata s1) / ssize s <= lenN (sdata s ++ r) / ssize s).
  { destruct (N.eq_dec (ssize s) 0) as [E0|E0]; [rewrite E0; destruct (lenN (sdata s1)), (lenN (sdata s ++ r)); cbn; lia|].
    apply N.div_le_mono; [exact E0|]. rewrite <- Hd1, !lenN_length, app_length. lia. }
  destruct (pop (d ++ to_u32_aux sl)) as [[d' last]|];
    (destruct (lenN (sdata s1) / ssize s <? n + 1) eqn:E; [discriminate|];
     apply N.ltb_ge in E; apply IH; rewrite Hs1, Hd1; lia).
Qed.

Theorem cfb_new_total : forall fuel file,
  cfb_new fuel file <> Panic /\
  (lenN file / 512 < N.of_nat fuel -> cfb_new fuel file <> OutOfFuel).
Proof.
  intros fuel file.
  assert (G : forall (P : outcome (cfb * list N) -> Prop), True) by trivial. clear G.
  unfold cfb_new.
  (* header *)
  unfold header_from_reader, read_exact.
  destruct (lenN file <? 512) eqn:E0; cbn [obind]; [split; [discriminate|intros; discriminate]|].
  destruct (negb (list_eqb (firstn 8 (takeN 512 file)) SIGNATURE)); [split; [discriminate|intros; discriminate]|].
  set (buf := takeN 512 file). set (r1 := dropN 512 file).
  assert (Hr1 : lenN r1 <= lenN file)
    by (unfold r1, dropN; rewrite !lenN_length, skipn_length; lia).
  assert (K : forall ss r2, (ss = 512 \/ ss = 4096) -> lenN r2 <= lenN file ->
     let k := fun (h : header) (difat0 : list N) (r0 : list N) =>
       (do (difat, s1, r1) <- difat_loop fuel 0 {| sdata := []; ssize := h_ss h |} (h_difat_start h) difat0 r0;
        do (fat, s2, r2) <- load_fats (filter (fun id => id <? DIFSECT) difat) s1 r1;
        do (dirbytes, s3, r3) <- get_chain s2 (h_dir_start h) fat r2 (h_dir_len h * h_ss h);
        do dirs <- map_outcome (fun c => from_slice c (h_ss h)) (chunks_exact 128 dirbytes);
        match dirs with
        | [] => Err ERR_EMPTY_ROOT
        | d0 :: _ =>
          if 0 <? h_mini_fat_len h then
            do (ministream, s4, r4) <- get_chain s3 (d_start d0) fat r3 (d_len d0);
            do (mf, s5, r5) <- get_chain s4 (h_mini_fat_start h) fat r4 (h_mini_fat_len h * h_ss h);
            do minifat <- to_u32 mf;
            Ok ({| directories := dirs; main_sectors := s5; fats := fat;
                   mini_sectors := {| sdata := ministream; ssize := 64 |}; mini_fats := minifat |}, r5)
          else
            Ok ({| directories := dirs; main_sectors := s3; fats := fat;
                   mini_sectors := {| sdata := []; ssize := 64 |}; mini_fats := [] |}, r3)
        end) in
     forall h d0, h_ss h = ss ->
       k h d0 r2 <> Panic /\ (lenN file / 512 < N.of_nat fuel -> k h d0 r2 <> OutOfFuel)).
  { intros ss r2 Hss Hr2 k h d0 Hh. unfold k. clear k.
    assert (Tail : forall dl s1 rr, fine (
        do (fat, s2, r2) <- load_fats (filter (fun id => id <? DIFSECT) dl) s1 rr;
        do (dirbytes, s3, r3) <- get_chain s2 (h_dir_start h) fat r2 (h_dir_len h * h_ss h);
        do dirs <- map_outcome (fun c => from_slice c (h_ss h)) (chunks_exact 128 dirbytes);
        match dirs with
        | [] => Err ERR_EMPTY_ROOT
        | d0 :: _ =>
          if 0 <? h_mini_fat_len h then
            do (ministream, s4, r4) <- get_chain s3 (d_start d0) fat r3 (d_len d0);
            do (mf, s5, r5) <- get_chain s4 (h_mini_fat_start h) fat r4 (h_mini_fat_len h * h_ss h);
            do minifat <- to_u32 mf;
            Ok ({| directories := dirs; main_sectors := s5; fats := fat;
                   mini_sectors := {| sdata := ministream; ssize := 64 |}; mini_fats := minifat |}, r5)
          else
            Ok ({| directories := dirs; main_sectors := s3; fats := fat;
                   mini_sectors := {| sdata := []; ssize := 64 |}; mini_fats := [] |}, r3)
        end)).
    { intros dl s1 rr. apply fine_bind; [apply load_fats_fine|]. intros [[fat s2] r2'] _.
      apply fine_bind; [apply get_chain_fine|]. intros [[db s3] r3] _.
      apply fine_bind; [apply map_from_slice_fine; intros b Hb; apply (chunks_exact_lengths _ _ _ Hb)|].
      intros dirs _. destruct dirs as [|dd ?]; [apply fine_err|].
      destruct (0 <? h_mini_fat_len h); [|apply fine_ok].
      apply fine_bind; [apply get_chain_fine|]. intros [[ms s4] r4] _.
      apply fine_bind; [apply get_chain_fine|]. intros [[mf s5] r5] _.
      unfold to_u32. cbn [obind]. apply fine_ok. }
    split.
    - destruct (difat_loop fuel 0 {| sdata := []; ssize := h_ss h |} (h_difat_start h) d0 r2)
        as [[[dl s1] rr]| | |] eqn:Ed; cbn [obind]; try discriminate.
      + apply Tail.
      + exfalso. exact (difat_loop_no_panic _ _ _ _ _ _ Ed).
    - intros Hfuel.
      destruct (difat_loop fuel 0 {| sdata := []; ssize := h_ss h |} (h_difat_start h) d0 r2)
        as [[[dl s1] rr]| | |] eqn:Ed; cbn [obind]; try discriminate.
      + apply Tail.
      + exfalso. revert Ed. apply difat_loop_no_fuel; cbn [sdata ssize app]; [lia|].
        rewrite Hh. apply N.le_lt_trans with (lenN file / 512); [|lia].
        apply N.le_trans with (lenN file / ss).
        * apply N.div_le_mono; [destruct Hss; lia|exact Hr2].
        * destruct Hss as [-> | ->]; [lia|]. apply N.div_le_compat_l. lia. }
  destruct (u16_at buf 30 =? 9) eqn:E9; cbn [obind].
  - destruct (negb (u16_at buf 32 =? 6)); [split; [discriminate|intros; discriminate]|].
    unfold to_u32. cbn [obind]. apply (K 512 r1 (or_introl eq_refl) Hr1). reflexivity.
  - destruct (u16_at buf 30 =? 12) eqn:E12; cbn [obind]; [|split; [discriminate|intros; discriminate]].
    destruct (lenN r1 <? 3584); cbn [obind]; [split; [discriminate|intros; discriminate]|].
    destruct (negb (u16_at buf 32 =? 6)); [split; [discriminate|intros; discriminate]|].
    unfold to_u32. cbn [obind]. apply (K 4096 (dropN 3584 r1) (or_intror eq_refl)); [|reflexivity].
    unfold dropN. rewrite lenN_length, skipn_length. rewrite lenN_length in Hr1. lia.
Qed.

Theorem get_stream_total : forall cf name r,
  get_stream cf name r <> Panic /\ get_stream cf name r <> OutOfFuel.
Proof.
  intros cf name r. unfold get_stream. destruct (find_entry (directories cf) name) as [d|]; [|split; discriminate].
  destruct (d_len d =? 0); [split; discriminate|].
  destruct (d_len d <? 4096); (apply fine_bind; [apply get_chain_fine|]); intros [[b ms] r1] _; apply fine_ok.
Qed.
