// C13: the real compound-file reader on a file given as hex, through the hook
// calamine::verif_hooks::cfb::{cfb_new, CfbHandle} (= Cfb::new, Cfb::has_directory, Cfb::find,
// Cfb::children, Cfb::get_stream on a Cursor whose position is kept between calls).
//   args[0] = hex of the file, args[1] = fuel (model side only), args[2] = ops, ';'-separated;
//   a <path> is '/'-separated <name hex> ('-' = the empty name):
//       h:<name hex> (has_directory) | g:<path> (get_stream) | p:<path> (find(path).is_some())
//       | c:<id> (children) | n (directory names)
// Answer: new=<ok | err:<class> | panic | alloc>[;<answer per op>…]; the op answers are
//   0/1 | ok:<hex> / err:<class> / panic / alloc | 0/1 | c:<id>,… | n:<name hex>,…
//   (processing stops at a panic and at an error other than notfound).
use crate::util::{hexstr, unhex};
use std::panic::{catch_unwind, AssertUnwindSafe};
use std::sync::atomic::Ordering;

fn class(msg: &str) -> &'static str {
    if msg.starts_with("I/O error") {
        "io"
    } else if msg.starts_with("Invalid OLE signature") {
        "ole"
    } else if msg.starts_with("Empty Root directory") {
        "emptyroot"
    } else if msg.starts_with("Cannot find") {
        "notfound"
    } else if msg.starts_with("Invalid ") {
        "invalid"
    } else {
        "other"
    }
}

fn hex(b: &[u8]) -> String {
    const D: &[u8; 16] = b"0123456789abcdef";
    let mut s = String::with_capacity(b.len() * 2);
    for x in b {
        s.push(D[(x >> 4) as usize] as char);
        s.push(D[(x & 15) as usize] as char);
    }
    s
}

fn panic_kind() -> &'static str {
    if crate::ALLOC_TRIPPED.load(Ordering::Relaxed) {
        "alloc"
    } else {
        "panic"
    }
}

pub fn run(args: &[&str]) -> String {
    let data = unhex(args.first().copied().unwrap_or(""));
    let ops: Vec<&str> = match args.get(2) {
        Some(o) if !o.is_empty() && *o != "-" => o.split(';').collect(),
        _ => Vec::new(),
    };
    let opened = catch_unwind(AssertUnwindSafe(|| calamine::verif_hooks::cfb::cfb_new(data)));
    let mut h = match opened {
        Err(_) => return format!("new={}", panic_kind()),
        Ok(Err(e)) => return format!("new=err:{}", class(&e)),
        Ok(Ok(h)) => h,
    };
    let mut out = vec!["new=ok".to_string()];
    for op in ops {
        if op == "n" {
            let names: Vec<String> = h.directory_names().iter().map(|n| hexstr(n)).collect();
            out.push(format!("n:{}", names.join(",")));
            continue;
        }
        let (kind, nh) = op.split_at(2.min(op.len()));
        let one = |h: &str| String::from_utf8(unhex(if h == "-" { "" } else { h })).unwrap_or_default();
        let names: Vec<String> = if nh.is_empty() { Vec::new() } else { nh.split('/').map(one).collect() };
        let path: Vec<&str> = names.iter().map(|s| s.as_str()).collect();
        match kind {
            "h:" => out.push(if h.has_directory(&one(nh)) { "1" } else { "0" }.to_string()),
            "p:" => out.push(if h.has_path(&path) { "1" } else { "0" }.to_string()),
            "c:" => {
                let ids: Vec<String> = h
                    .children(nh.parse::<usize>().unwrap_or(usize::MAX))
                    .iter()
                    .map(|i| i.to_string())
                    .collect();
                out.push(format!("c:{}", ids.join(",")));
            }
            "g:" => {
                let r = catch_unwind(AssertUnwindSafe(|| h.get_stream_path(&path)));
                match r {
                    Err(_) => {
                        out.push(panic_kind().to_string());
                        break;
                    }
                    Ok(Err(e)) => {
                        let c = class(&e);
                        out.push(format!("err:{}", c));
                        if c != "notfound" {
                            // the sector cache may have grown before the error: stop here
                            break;
                        }
                    }
                    Ok(Ok(b)) => out.push(format!("ok:{}", hex(&b))),
                }
            }
            _ => out.push("bad-op".to_string()),
        }
    }
    out.join(";")
}
