(* Property C19 — cell text survives every storage form and escaping layer unchanged.
   Only the property theorems (closed by [exact]), [Check] pins, non-vacuity examples and
   [Print Assumptions].  Models / specs / encoders: XmlText.v, Utf16.v; proofs:
   XmlText_proofs.v, Utf16_proofs.v.
   The XML models start at the event list delivered by quick-xml (already unescaped strings):
   entity / character-reference spelling is below that level and is sampled by the end-to-end
   runs of tools/props/c19.py.  Source state: /repo at 9abe48a (6af5287 + C06 hardening).
   No known class is left: F12 (CDATA dropped), F34 (prefixed rich items never closed), F35
   (text:tab), F36 (text:line-break) and F37 (_xHHHH_ not decoded) were repaired by db4dbf4,
   7dba6c7, 69a4591 and 6af5287; no theorem below carries a known-class hypothesis, and the former
   witnesses are examples at the end of this file. *)
From Calamine Require Import Prelude XmlText XmlText_proofs Utf16 Utf16_proofs.
(* xls: the string readers are C12's models (BiffSst.v); required without Import, the names are
   qualified below (BiffSst and XmlText / Utf16 share several short names) *)
From Calamine Require BiffSst BiffSst_proofs XlsText_proofs.
Open Scope N_scope.

(* ---------- the ST_Xstring layer (ECMA-376 _xHHHH_) ---------- *)
(* M = S: the Rust decoder unescape_xstring computes the specification's decoding, on every string *)
Theorem C19_xstring_decode_is_spec : forall s, unescape_xstring s = xunescape s.
Proof. exact unescape_xstring_spec. Qed.

(* E then S: every string, written the way Excel writes it (every underscore as _x005F_, any
   choice [must] of further characters as _xHHHH_), denotes itself *)
Theorem C19_xstring_roundtrip : forall must s, xunescape (xescape must s) = s.
Proof. exact xescape_roundtrip. Qed.

(* E then M, end to end: such a writing of s, spread over text and CDATA chunks in any way, in a
   plain <t> under any prefix, reads back as s *)
Theorem C19_xstring_text_survives : forall pfx cl must s preserve tc after rest,
  no_colon pfx = true -> cl_ok cl -> forallb is_phonetic after = true ->
  tc_raw tc = xescape must s ->
  read_string (qn pfx cl) (item_events pfx (FPlain preserve tc after) ++ End (qn pfx cl) :: rest) =
  Ok (Some s, rest).
Proof. exact xstring_text_survives. Qed.

(* ---------- xlsx: one string item (<si> or <is>), any form, any prefix ---------- *)
Theorem C19_read_string_item : forall pfx cl f rest,
  no_colon pfx = true -> cl_ok cl -> legal_form f = true ->
  read_string (qn pfx cl) (item_events pfx f ++ End (qn pfx cl) :: rest) = Ok (item_result f, rest).
Proof. exact read_string_item. Qed.

Theorem C19_runs_concatenate : forall pfx cl ps rest,
  no_colon pfx = true -> cl_ok cl -> forallb legal_piece ps = true ->
  existsb (fun p => negb (is_phonetic p)) ps = true ->
  read_string (qn pfx cl) (flat_map (piece_events pfx) ps ++ End (qn pfx cl) :: rest) =
  Ok (Some (flat_map piece_text ps), rest).
Proof. exact runs_concatenate. Qed.

(* any string, cut into runs at any points that do not fall inside an _xHHHH_ escape (each <t>
   is an ST_Xstring of its own: an escape cut by a run boundary is no escape — a fact about S) *)
Theorem C19_runs_at_any_cuts : forall pfx cl cuts s rest,
  no_colon pfx = true -> cl_ok cl -> cuts_ok cuts s = true ->
  read_string (qn pfx cl) (item_events pfx (runs_of cuts s) ++ End (qn pfx cl) :: rest) =
  Ok (Some s, rest).
Proof. exact runs_at_any_cuts. Qed.

Theorem C19_phonetic_contributes_nothing : forall pfx cl f rest rest',
  no_colon pfx = true -> cl_ok cl -> legal_form f = true ->
  exists r,
    read_string (qn pfx cl) (item_events pfx f ++ End (qn pfx cl) :: rest) = Ok (r, rest) /\
    read_string (qn pfx cl) (item_events pfx (strip_phonetic f) ++ End (qn pfx cl) :: rest') = Ok (r, rest').
Proof. exact phonetic_contributes_nothing. Qed.

(* entity vs CDATA: a CDATA section reads exactly like the same characters written as text *)
Theorem C19_cdata_is_text : forall pfx cl f rest,
  no_colon pfx = true -> cl_ok cl -> legal_form f = true ->
  read_string (qn pfx cl) (item_events pfx f ++ End (qn pfx cl) :: rest) =
  read_string (qn pfx cl) (item_events pfx (uncdata_form f) ++ End (qn pfx cl) :: rest).
Proof. exact cdata_is_text. Qed.

(* ---------- xlsx: the shared-string table ---------- *)
Theorem C19_shared_index_is_ith_item : forall pfx sattrs items,
  no_colon pfx = true ->
  forallb (fun it => legal_form (snd it)) items = true ->
  exists strs, read_shared_strings (sst_events pfx sattrs items) = Ok strs /\
    length strs = length items /\
    forall i, nth_error strs i = option_map (fun it => item_text (snd it)) (nth_error items i).
Proof. exact shared_index_is_ith_item. Qed.

(* ---------- xlsx: shared / inline / formula-string cells ---------- *)
Theorem C19_text_survives_xlsx : forall pfx sattrs items ref st s rest,
  no_colon pfx = true ->
  forallb (fun it => legal_form (snd it)) items = true -> legal_store st = true ->
  stored_text items st = Some s ->
  exists strings,
    read_shared_strings (sst_events pfx sattrs items) = Ok strings /\
    read_cell strings (cell_attrs ref st) (cell_events pfx st ++ rest) = Ok (cell_expected st s, rest).
Proof. exact text_survives_xlsx. Qed.

(* a whole sheet (the loop of next_cell): every text cell of every row, in order *)
Theorem C19_sheet_text_survives : forall pfx sattrs items cells,
  no_colon pfx = true ->
  forallb (fun it => legal_form (snd it)) items = true ->
  forallb (cell_ok items) cells = true ->
  exists strings,
    read_shared_strings (sst_events pfx sattrs items) = Ok strings /\
    read_sheet_cells strings (sheet_events pfx cells) = Ok (map (cell_spec items) cells).
Proof. exact sheet_text_survives. Qed.

(* the formula text itself (worksheet_formula: the loop of next_formula, read_formula): the
   characters of <f>, Text and CDATA chunks alike; cells without <f> have none *)
Theorem C19_formula_text_survives : forall pfx cells,
  no_colon pfx = true -> forallb (fun c => legal_store (snd c)) cells = true ->
  read_sheet_formulas (sheet_events pfx cells) = Ok (map fcell_spec cells).
Proof. exact sheet_formulas_survive. Qed.

(* ---------- ods ---------- *)
(* [cs] ranges over every arrangement of the children of a string cell: paragraphs (literal text,
   CDATA, text:s, text:tab, text:line-break, spans, phonetic guides, drawing objects anchored as
   characters), an annotation, drawing objects anchored to the cell with whatever they hold
   (images, shapes, text boxes with paragraphs of their own, groups nested to any depth), the
   white space of an indented file between the children, comments *)
Theorem C19_ods_space_paragraph_roundtrip : forall cname extra cs rest,
  cell_name_ok cname -> legal_extra extra = true -> legal_content cs = true ->
  ods_cell cname (ods_cell_attrs extra (OsContent cs)) (ods_cell_events cname (OsContent cs) ++ rest) =
  Ok (OString (content_text cs), [], rest).
Proof. exact ods_space_paragraph_roundtrip. Qed.

Theorem C19_text_survives_ods : forall cname extra st rest,
  cell_name_ok cname -> legal_extra extra = true -> legal_ods_full cname st = true ->
  ods_cell cname (ods_cell_attrs extra st) (ods_cell_events cname st ++ rest) =
  Ok (OString (ods_text st), [], rest).
Proof. exact text_survives_ods. Qed.

(* every string at all has an ods encoding (one text:p per line, every space a <text:s/>, every
   TAB a <text:tab/>) that is legal and reads back *)
Theorem C19_ods_encode_survives : forall s rest,
  ods_cell o_cell (ods_cell_attrs [] (OsContent (ods_encode s)))
           (ods_cell_events o_cell (OsContent (ods_encode s)) ++ rest) = Ok (OString s, [], rest).
Proof. exact ods_encode_survives. Qed.

(* what is not a paragraph of the cell — indentation, comments, the annotation, anchored drawing
   objects and every paragraph inside them — contributes nothing; the reading of a phonetic guide
   contributes nothing and its base what it holds; the layout (flat / indented, with or without
   anchored objects) is irrelevant *)
Theorem C19_ods_nonpara_contributes_nothing : forall cs1 c cs2,
  is_para c = false -> content_text (cs1 ++ c :: cs2) = content_text (cs1 ++ cs2).
Proof. exact ods_nonpara_contributes_nothing. Qed.

Theorem C19_ods_ruby_text_contributes_nothing : forall ps1 st body ps2,
  para_text (ps1 ++ ORubyText st body :: ps2) = para_text (ps1 ++ ps2).
Proof. exact ods_ruby_text_contributes_nothing. Qed.

Theorem C19_ods_ruby_is_its_base : forall st base rst body,
  para_text (ORubyOpen st :: ORubyBaseOpen :: base ++ [ORubyBaseClose; ORubyText rst body; ORubyClose]) =
  para_text base.
Proof. exact ods_ruby_is_its_base. Qed.

Theorem C19_ods_layout_independent : forall cname extra1 extra2 cs1 cs2 rest1 rest2,
  cell_name_ok cname -> legal_extra extra1 = true -> legal_extra extra2 = true ->
  legal_content cs1 = true -> legal_content cs2 = true ->
  map para_text (paras_of cs1) = map para_text (paras_of cs2) ->
  exists t,
    ods_cell cname (ods_cell_attrs extra1 (OsContent cs1)) (ods_cell_events cname (OsContent cs1) ++ rest1)
      = Ok (OString t, [], rest1) /\
    ods_cell cname (ods_cell_attrs extra2 (OsContent cs2)) (ods_cell_events cname (OsContent cs2) ++ rest2)
      = Ok (OString t, [], rest2).
Proof. exact ods_layout_independent. Qed.

(* ---------- binary formats: UTF-16 ---------- *)
Theorem C19_utf16_roundtrip : forall s, Forall scalar s -> utf16_decode (utf16_encode s) = s.
Proof. exact utf16_roundtrip. Qed.

(* the quantifier "all well-formed UTF-16": every well-formed unit sequence is an encoder output *)
Theorem C19_wf_utf16_covered : forall us, wf_utf16 us = true ->
  utf16_encode (utf16_decode us) = us /\ Forall scalar (utf16_decode us).
Proof. exact wf_decode_encode. Qed.

Theorem C19_lone_surrogate_replaced : forall a x rest,
  Forall scalar a -> is_surr x = true ->
  (is_high x = true -> head_not_low rest) ->
  utf16_decode (utf16_encode a ++ x :: rest) = a ++ REPL :: utf16_decode rest.
Proof. exact lone_surrogate_replaced. Qed.

Theorem C19_utf16_decode_scalars : forall us, Forall (fun u => u < 65536) us ->
  Forall scalar (utf16_decode us).
Proof. exact utf16_decode_scalars. Qed.

(* xlsb wide_str (BrtCellSt, BrtFmlaString, BrtSSTItem) *)
Theorem C19_text_survives_utf16 : forall s rest,
  Forall scalar s -> utf16_len s <= U32MAX ->
  wide_str (enc_wide s ++ rest) = Ok (s, 4 + utf16_len s * 2).
Proof. exact wide_str_roundtrip. Qed.

(* xls decode_to under code page 1200, one fragment: 8-bit and 16-bit storage *)
(* ---------- xls (BIFF8): shared string / inline LABEL / formula string result ----------
   A corollary composing C12's theorems (C12_later_strings_unaffected + C12_labelsst_resolves for
   the shared-string table under EVERY legal CONTINUE layout, rich runs and phonetic blocks
   included; C12_parse_label_ok; C12_formula_string_any_split for STRING + CONTINUE under every
   legal fragmentation and 8/16-bit mixture) with the UTF-16 round trip above: for every text s
   (Unicode scalar values) the BIFF8 readers return exactly s.  The position of the cell and the
   range around it are C02's (C02_xls_sheet_main takes the decoded string table as its
   environment) and, in C12's reduced workbook model, C12_workbook_strings. *)
Theorem C19_text_survives_xls : forall s, Forall scalar s ->
  (forall strs lay i row col ixfe,
     BiffSst.legal_layout strs lay = true -> i <= 4294967295 ->
     nth_error strs (N.to_nat i) = Some (utf16_encode s) ->
     exists tbl, BiffSst.parse_sst (BiffSst.sst_encode strs lay) = Ok tbl /\
       length tbl = length strs /\
       nth_error tbl (N.to_nat i) = Some s /\
       BiffSst.parse_label_sst (BiffSst.labelsst_body row col ixfe i) tbl =
       Ok (if BiffSst.is_nil s then None else Some (row, col, s)))
  /\ (forall row col ixfe hb, BiffSst.legal_xl_string hb (utf16_encode s) = true ->
        BiffSst.parse_label (BiffSst.label_body row col ixfe hb (utf16_encode s)) =
        Ok (Some (row, col, s)))
  /\ (forall hb cuts rest, BiffSst.legal_fstring (utf16_encode s) hb cuts = true ->
        BiffSst.string_arm
          (fst (BiffSst.frags (BiffSst.fstring_items (utf16_encode s) hb cuts ++ rest)))
          (BiffSst.cont_opt
             (snd (BiffSst.frags (BiffSst.fstring_items (utf16_encode s) hb cuts ++ rest))))
        = Ok s).
Proof. exact XlsText_proofs.text_survives_xls. Qed.

Example C19_xls_nonvacuous :
  Forall scalar XlsText_proofs.ex_text /\
  utf16_encode XlsText_proofs.ex_text = [97; 55357; 56832; 233] /\
  BiffSst.legal_layout [[72; 105]; utf16_encode XlsText_proofs.ex_text]
    (BiffSst.mkLay 2
       [BiffSst.mkSL false false [] (Some [(0, 1); (1, 2)]) None [5%nat];
        BiffSst.mkSL true true [(2%nat, true)] None (Some [1; 2; 3]) [1%nat]]) = true /\
  BiffSst.legal_xl_string true (utf16_encode XlsText_proofs.ex_text) = true /\
  BiffSst.legal_fstring (utf16_encode XlsText_proofs.ex_text) true [(2%nat, true); (1%nat, false)] = true.
Proof. exact XlsText_proofs.example_text_xls. Qed.

(* ---------- xls (BIFF8), a whole workbook under ANY CodePage record ----------
   [cp] = the CodePage record of the globals ([MS-XLS] 2.4.52): any 16-bit value (1200 Excel, 1252
   JExcelApi — tests/sheet_name_parsing.xls —, 932, 65001, values unknown to every decoder table)
   or None (no record).  BIFF8 text is Unicode whatever the record says; since the repair of
   audit-2 finding XLS-1 the reader agrees: a sheet name and a text stored as LABEL, as a formula's
   STRING result (any legal fragmentation) or as a shared string (any legal CONTINUE layout) read
   back as exactly that text through C12's reduced parse_workbook. *)
Theorem C19_text_survives_xls_workbook : forall cp strs lay shs,
  BiffSst.legal_workbook cp strs lay shs = true ->
  exists res, BiffSst.wb_strings (BiffSst.workbook_stream cp strs lay shs) = Ok res /\
    length res = length shs /\
    forall k sh, nth_error shs k = Some sh ->
      exists nm cells, nth_error res k = Some (nm, cells) /\
        (forall n, Forall scalar n -> Forall (fun c => c <> 0) n ->
                   BiffSst.sh_name sh = utf16_encode n -> nm = n) /\
        forall s, Forall scalar s ->
          (forall r c hb, In (BiffSst.CLabel r c hb (utf16_encode s)) (BiffSst.sh_cells sh) ->
                          In (r, c, s) cells)
          /\ (forall r c hb cuts,
                In (BiffSst.CFString r c hb (utf16_encode s) cuts) (BiffSst.sh_cells sh) ->
                In (r, c, s) cells)
          /\ (forall r c i, In (BiffSst.CSst r c i) (BiffSst.sh_cells sh) ->
                nth_error strs (N.to_nat i) = Some (utf16_encode s) -> s <> [] ->
                In (r, c, s) cells).
Proof. exact XlsText_proofs.text_survives_xls_workbook. Qed.

Example C19_xls_workbook_nonvacuous :
  Forall (fun cp =>
            BiffSst.legal_workbook cp XlsText_proofs.ex_wb_strs XlsText_proofs.ex_wb_lay
                                   XlsText_proofs.ex_wb_sheets = true /\
            BiffSst.wb_strings (BiffSst.workbook_stream cp XlsText_proofs.ex_wb_strs
                                  XlsText_proofs.ex_wb_lay XlsText_proofs.ex_wb_sheets) =
            Ok [(XlsText_proofs.ex_text,
                 [(0, 0, XlsText_proofs.ex_text); (1, 0, XlsText_proofs.ex_text);
                  (2, 0, XlsText_proofs.ex_text)])])
         [Some 1252; Some 1200; Some 932; Some 65001; Some 54321; None].
Proof. exact XlsText_proofs.example_text_xls_workbook. Qed.

Theorem C19_decode_to_8bit : forall s rest, Forall (fun c => c < 256) s ->
  decode_to_utf16 false (s ++ rest) (N.of_nat (length s)) =
  (s, N.of_nat (length s), N.of_nat (length s)).
Proof. exact decode_to_8bit. Qed.

Theorem C19_decode_to_16bit : forall s rest, Forall scalar s ->
  decode_to_utf16 true (bytes_le_of_units (utf16_encode s) ++ rest) (utf16_len s) =
  (s, utf16_len s, 2 * utf16_len s).
Proof. exact decode_to_16bit. Qed.

(* ---------- totality (listed for C06): no input at all makes these readers panic ---------- *)
(* ∀ closing name, ∀ event list — no well-formedness hypothesis; the models use no fuel, so
   "never OutOfFuel" is part of the statement *)
Theorem C19_no_panic_read_string : forall closing evs,
  read_string closing evs <> Panic /\ read_string closing evs <> OutOfFuel.
Proof. exact read_string_total. Qed.

Theorem C19_no_panic_read_shared_strings : forall evs,
  read_shared_strings evs <> Panic /\ read_shared_strings evs <> OutOfFuel.
Proof. exact read_shared_strings_total. Qed.

(* ∀ shared-string table, ∀ attributes of <c>, ∀ event list: in particular a shared index outside
   the table is an error now *)
Theorem C19_no_panic_read_cell : forall strings cattrs evs,
  read_cell strings cattrs evs <> Panic /\ read_cell strings cattrs evs <> OutOfFuel.
Proof. exact read_cell_total. Qed.

Theorem C19_no_panic_read_sheet_cells : forall strings evs,
  read_sheet_cells strings evs <> Panic /\ read_sheet_cells strings evs <> OutOfFuel.
Proof. exact read_sheet_cells_total. Qed.

Theorem C19_no_panic_read_sheet_formulas : forall evs,
  read_sheet_formulas evs <> Panic /\ read_sheet_formulas evs <> OutOfFuel.
Proof. exact read_sheet_formulas_total. Qed.

(* ∀ cell name, attributes, event list: in particular Eof inside office:annotation ends with an
   error instead of reading forever *)
Theorem C19_no_panic_ods_cell : forall cname a evs,
  ods_cell cname a evs <> Panic /\ ods_cell cname a evs <> OutOfFuel.
Proof. exact ods_cell_total. Qed.

(* ∀ byte string: a buffer shorter than its length prefix, or than four bytes, is an error *)
Theorem C19_no_panic_wide_str : forall buf, wide_str buf <> Panic.
Proof. exact wide_str_no_panic. Qed.

(* the former panic / non-termination inputs *)
Example C19_hardening_witnesses :
  read_cell [[97]] [(a_t, v_s)] [Start n_v []; Text [49]; End n_v; End n_c] = Err ERR_INDEX /\
  ods_cell o_cell [(o_value_type, v_string)] [Start o_annot []; Text [110]] = Err ERR_EOF /\
  wide_str [1; 0; 0] = Err ERR_WIDESTR /\ wide_str [2; 0; 0; 0; 97; 0] = Err ERR_WIDESTR.
Proof. repeat split; vm_compute; reflexivity. Qed.

(* ---------- non-vacuity ---------- *)
(* under the prefix "x": a plain item holding text + CDATA + comment + text with phonetic data;
   an empty item; a rich item with run properties, phonetic runs interleaved, an empty run, a run
   made of two adjacent CDATA sections (the way "]]>" is embedded) and a run mixing text and
   CDATA; an item whose <t> holds escapes (one split over a Text/CDATA boundary); shared cells
   pointing at them (one through a zero-padded index), an inline string and a formula string
   whose <f> and <v> hold CDATA and an escape. *)
Example C19_xlsx_nonvacuous :
  let x := [120] in
  let rich := FRich [PRun [([98], []); ([115; 122], [([118; 97; 108], [49; 49])])] true [TcText [97; 32]];
                     PPhon [TcCData [12450]]; PRun [] false [TcCData [93; 93]; TcCData [62]];
                     PRun [] false []; PRun [] false [TcText [38]; TcCData [60; 98]; TcOther; TcText [62]];
                     PPhonPr] in
  let items := [([], FPlain true [TcText [32; 97]; TcCData [60; 38]; TcOther; TcText [98; 32]] [PPhon [TcText [120]]; PPhonPr]);
                ([10; 32], FRich []); ([], rich);
                ([], FPlain false [TcText [97; 95; 120; 48; 48]; TcCData [48; 68; 95; 95; 120; 48; 48; 53; 70; 95]] [])] in
  let cells := [([], [65; 49], StShared [48; 48; 50]);
                ([([114], [50])], [65; 50], StInline (FPlain true [TcCData [32]] [PPhonPr]));
                ([], [65; 51], StFormula [TcText [49]; TcCData [60; 50]] [TcCData [60]; TcText [9; 95; 120; 48; 48; 48; 97; 95]]);
                ([], [65; 52], StInline (FRich [])); ([], [65; 53], StShared [49]); ([], [65; 54], StShared [51])] in
  no_colon x = true /\ cl_ok n_si /\ cl_ok n_is /\
  forallb (fun it => legal_form (snd it)) items = true /\
  stored_text items (StShared [50]) = Some [97; 32; 93; 93; 62; 38; 60; 98; 62] /\
  existsb (fun p => negb (is_phonetic p)) (match rich with FRich ps => ps | _ => [] end) = true /\
  cuts_ok [2%nat; 0%nat; 3%nat] [32; 97; 38; 95; 120; 60; 128512; 32] = true /\
  cuts_ok [3%nat] [97; 95; 120; 48; 48; 48; 68; 95] = true /\ cuts_ok [] [97; 95; 120; 48; 48; 48; 68; 95] = false /\
  forallb (cell_ok items) cells = true /\
  forallb (fun c => legal_store (snd c)) cells = true /\
  read_shared_strings (sst_events x [] items) =
    Ok [[32; 97; 60; 38; 98; 32]; []; [97; 32; 93; 93; 62; 38; 60; 98; 62]; [97; 13; 95]] /\
  map snd (map (cell_spec items) cells) =
    [CString [97; 32; 93; 93; 62; 38; 60; 98; 62]; CString [32]; CString [60; 9; 10]; CEmpty; CString [];
     CString [97; 13; 95]] /\
  map snd (map fcell_spec cells) = [FvNone; FvNone; FvText [49; 60; 50]; FvNone; FvNone; FvNone].
Proof. cbn zeta. repeat split; try (left; reflexivity); try (right; reflexivity); vm_compute; reflexivity. Qed.

(* ods: an annotation, text:s with and without count, spans, a comment, CDATA sections (alone,
   adjacent, inside a span), text:tab and text:line-break (also inside a span), an empty paragraph;
   indentation before, between and after the children, a comment between them, a text box
   (draw:frame > draw:text-box > two paragraphs), a group shape inside a group shape each with a
   paragraph, an image with an empty paragraph, a phonetic guide, a space alone between two spans
   (content, not indentation), a frame anchored as a character inside a paragraph *)
Example C19_ods_nonvacuous :
  let frame := o_frame in let tbox := o_text_box in let grp := o_draw_g in let img := o_image in
  let ind := [10; 32; 32] in
  let cs := [CWs ind; CAnnot [Start o_p []; Text [110]; Start o_tab []; End o_tab; End o_p]; CWs ind;
             CPara [OSp (Some [51]); OLit [97; 32]; OSpanOpen [84]; OSp None; OCD [98; 60]; OTab; OSpanClose;
                    OSp (Some [48]); OOther; OCD [93; 93]; OCD [62]; OLit [9]; OBreak; OTab];
             CComment; CPara []; CWs [10]; CPara [OBreak; OCD [99]];
             CPara [OSpanOpen [84]; OLit [120]; OSpanClose; OLit [32]; OSpanOpen [84]; OLit [121]; OSpanClose;
                    ORubyOpen [82]; ORubyBaseOpen; OLit [28450; 23383]; ORubyBaseClose;
                    ORubyText (Some [82]) [Text [12363; 12435; 12376]]; ORubyClose;
                    OShape frame [] [Start img []; Start o_p []; Text [105]; End o_p; End img]];
             CWs ind;
             CShape frame [([110], [49])] [Text ind; Start tbox []; Start o_p []; Text [66; 49]; End o_p;
                                           Start o_p []; Text [66; 50]; End o_p; End tbox; Text ind];
             CShape grp [] [Start grp []; Start o_p []; Text [103]; End o_p; End grp; Start o_p []; End o_p];
             CShape frame [] [Start img []; Start o_p []; End o_p; End img]; CWs [10; 32]] in
  cell_name_ok o_cell /\ legal_extra [([115], [49])] = true /\ legal_content cs = true /\
  legal_ods_full o_covered (OsAttr [97] cs) = true /\
  content_text cs = [32; 32; 32; 97; 32; 32; 98; 60; 9; 93; 93; 62; 9; 10; 9; 10; 10; 10; 99; 10;
                     120; 32; 121; 28450; 23383] /\
  existsb (fun c => negb (is_para c)) cs = true.
Proof. cbn zeta. repeat split; try (left; reflexivity); vm_compute; reflexivity. Qed.

(* the witnesses of the defects ODS-1 (anchored text box), ODS-3 (indented cell), ODS-4 (phonetic
   guide) of notes/AUDIT2.md, at the event level: they read as S says — "abc" / the base *)
Example C19_ods_former_witnesses :
  let frame := o_frame in let tbox := o_text_box in
  let abc := [97; 98; 99] in
  let w1 := [CPara [OLit abc];
             CShape frame [] [Start tbox []; Start o_p []; Text [66]; End o_p; Start o_p []; Text [67]; End o_p; End tbox]] in
  let w3 := [CWs [10; 32; 32]; CPara [OLit abc]; CWs [10; 32]] in
  let w4 := [CPara [ORubyOpen []; ORubyBaseOpen; OLit [28450; 23383]; ORubyBaseClose;
                    ORubyText None [Text [12363; 12435; 12376]]; ORubyClose]] in
  ods_cell o_cell (ods_cell_attrs [] (OsContent w1)) (ods_cell_events o_cell (OsContent w1)) = Ok (OString abc, [], []) /\
  ods_cell o_cell (ods_cell_attrs [] (OsContent w3)) (ods_cell_events o_cell (OsContent w3)) = Ok (OString abc, [], []) /\
  ods_cell o_cell (ods_cell_attrs [] (OsContent w4)) (ods_cell_events o_cell (OsContent w4)) = Ok (OString [28450; 23383], [], []) /\
  legal_content w1 = true /\ legal_content w3 = true /\ legal_content w4 = true.
Proof. cbn zeta. repeat split; vm_compute; reflexivity. Qed.

(* the ST_Xstring layer on its boundary cases: what S says, and that M says the same through
   read_string / read_cell.  a = 97, CR = 13, LF = 10, _ = 95, x = 120 *)
Example C19_xstring_boundaries :
  let u := 95 in let x := 120 in
  xunescape [97; u; x; 48; 48; 48; 68; u] = [97; 13] /\                       (* a_x000D_ *)
  xunescape [u; x; 48; 48; 48; 100; u] = [13] /\                               (* lower-case digits *)
  xunescape [u; x; 48; 48; 53; 70; u; x; 48; 48; 48; 68; u] = [u; x; 48; 48; 48; 68; u] /\   (* _x005F_x000D_ *)
  xunescape [u; x; 48; 48; 53; 102; u] = [u] /\                                (* _x005f_ *)
  xunescape [u; x; 49; 50; u] = [u; x; 49; 50; u] /\                           (* _x12_: too short *)
  xunescape [u; x; 48; 48; 48; 68] = [u; x; 48; 48; 48; 68] /\                 (* no closing _ *)
  xunescape [u; 88; 48; 48; 48; 68; u] = [u; 88; 48; 48; 48; 68; u] /\         (* _X000D_: capital X *)
  xunescape [u; x; 48; 48; 48; 71; u] = [u; x; 48; 48; 48; 71; u] /\           (* G is no hex digit *)
  xunescape [u; x; 68; 56; 51; 68; u; u; x; 68; 69; 48; 48; u] =
    [u; x; 68; 56; 51; 68; u; u; x; 68; 69; 48; 48; u] /\                      (* surrogates stay *)
  xunescape [u; u; x; 48; 48; 52; 49; u] = [u; 65] /\                          (* __x0041_ *)
  xunescape [u; x; 48; 48; u; x; 48; 48; 52; 49; u] = [u; x; 48; 48; 65] /\    (* overlap: second one *)
  xunescape [u; x; 48; 48; 48; 48; u] = [0] /\                                 (* U+0000 *)
  xescape excel_must [97; 13; u; x; 10; 65535] =
    [97; u; x; 48; 48; 48; 68; u; u; x; 48; 48; 53; 70; u; x; 10; u; x; 70; 70; 70; 70; u] /\
  (* an escape split over a Text / CDATA boundary inside one <t> is an escape *)
  read_string n_si (item_events [] (FPlain false [TcText [97; u; x; 48; 48]; TcCData [48; 68; u]] []) ++ [End n_si])
    = Ok (Some [97; 13], []) /\
  (* an escape split over two runs is not *)
  read_string n_si (item_events [] (FRich [PRun [] false [TcText [97; u; x; 48; 48]]; PRun [] false [TcText [48; 68; u]]])
                    ++ [End n_si]) = Ok (Some [97; u; x; 48; 48; 48; 68; u], []) /\
  (* the <v> of a t="str" cell *)
  read_cell [] (cell_attrs [65; 49] (StFormula [] [TcText [u; x; 48; 48; 48; 97; u]]))
            (cell_events [] (StFormula [] [TcText [u; x; 48; 48; 48; 97; u]])) = Ok (CString [10], []).
Proof. cbn zeta. repeat split; vm_compute; reflexivity. Qed.

(* the witnesses of the five repaired classes read as S says *)
Example C19_former_witnesses :
  (* F12 *) read_string n_si (item_events [] (FPlain false [TcCData [97; 60; 98]] []) ++ [End n_si]) = Ok (Some [97; 60; 98], []) /\
  (* F34 *) read_shared_strings (sst_events [120] [] [([], FRich [PRun [] false [TcText [97]]]); ([], FRich [])]) = Ok [[97]; []] /\
  (* F35, F36 *)
  ods_cell o_cell (ods_cell_attrs [] (OsContent [CPara [OLit [97]; OTab; OLit [98]; OBreak; OLit [99]]]))
           (ods_cell_events o_cell (OsContent [CPara [OLit [97]; OTab; OLit [98]; OBreak; OLit [99]]])) =
    Ok (OString [97; 9; 98; 10; 99], [], []) /\
  (* F37 *) read_string n_si (item_events [] (FPlain false [TcText [97; 95; 120; 48; 48; 48; 68; 95]] []) ++ [End n_si]) = Ok (Some [97; 13], []).
Proof. repeat split; vm_compute; reflexivity. Qed.

Example C19_utf16_nonvacuous :
  let s := [97; 233; 65279; 128512; 1114111; 65534] in
  Forall scalar s /\ utf16_len s <= U32MAX /\ length (utf16_encode s) = 8%nat.
Proof. exact utf16_roundtrip_nonvacuous. Qed.

Example C19_lone_surrogate_nonvacuous :
  Forall scalar [97] /\ is_surr 55357 = true /\ (is_high 55357 = true -> head_not_low [98]) /\
  utf16_decode [97; 55357; 98; 56832; 55357; 56832; 55357] = [97; REPL; 98; REPL; 128512; REPL] /\
  wf_utf16 [97; 55357; 56832] = true /\ Forall (fun c => c < 256) [97; 233].
Proof. repeat split; try (repeat constructor; fail); vm_compute; reflexivity. Qed.

Check C19_xstring_decode_is_spec : forall s, unescape_xstring s = xunescape s.
Check C19_xstring_roundtrip : forall must s, xunescape (xescape must s) = s.
Check C19_read_string_item : forall pfx cl f rest,
  no_colon pfx = true -> cl_ok cl -> legal_form f = true ->
  read_string (qn pfx cl) (item_events pfx f ++ End (qn pfx cl) :: rest) = Ok (item_result f, rest).
Check C19_cdata_is_text : forall pfx cl f rest,
  no_colon pfx = true -> cl_ok cl -> legal_form f = true ->
  read_string (qn pfx cl) (item_events pfx f ++ End (qn pfx cl) :: rest) =
  read_string (qn pfx cl) (item_events pfx (uncdata_form f) ++ End (qn pfx cl) :: rest).
Check C19_shared_index_is_ith_item : forall pfx sattrs items,
  no_colon pfx = true ->
  forallb (fun it => legal_form (snd it)) items = true ->
  exists strs, read_shared_strings (sst_events pfx sattrs items) = Ok strs /\
    length strs = length items /\
    forall i, nth_error strs i = option_map (fun it => item_text (snd it)) (nth_error items i).
Check C19_text_survives_xlsx : forall pfx sattrs items ref st s rest,
  no_colon pfx = true ->
  forallb (fun it => legal_form (snd it)) items = true -> legal_store st = true ->
  stored_text items st = Some s ->
  exists strings,
    read_shared_strings (sst_events pfx sattrs items) = Ok strings /\
    read_cell strings (cell_attrs ref st) (cell_events pfx st ++ rest) = Ok (cell_expected st s, rest).
Check C19_sheet_text_survives : forall pfx sattrs items cells,
  no_colon pfx = true ->
  forallb (fun it => legal_form (snd it)) items = true ->
  forallb (cell_ok items) cells = true ->
  exists strings,
    read_shared_strings (sst_events pfx sattrs items) = Ok strings /\
    read_sheet_cells strings (sheet_events pfx cells) = Ok (map (cell_spec items) cells).
Check C19_formula_text_survives : forall pfx cells,
  no_colon pfx = true -> forallb (fun c => legal_store (snd c)) cells = true ->
  read_sheet_formulas (sheet_events pfx cells) = Ok (map fcell_spec cells).
Check C19_text_survives_ods : forall cname extra st rest,
  cell_name_ok cname -> legal_extra extra = true -> legal_ods_full cname st = true ->
  ods_cell cname (ods_cell_attrs extra st) (ods_cell_events cname st ++ rest) =
  Ok (OString (ods_text st), [], rest).
Check C19_ods_encode_survives : forall s rest,
  ods_cell o_cell (ods_cell_attrs [] (OsContent (ods_encode s)))
           (ods_cell_events o_cell (OsContent (ods_encode s)) ++ rest) = Ok (OString s, [], rest).
Check C19_utf16_roundtrip : forall s, Forall scalar s -> utf16_decode (utf16_encode s) = s.
Check C19_text_survives_utf16 : forall s rest,
  Forall scalar s -> utf16_len s <= U32MAX ->
  wide_str (enc_wide s ++ rest) = Ok (s, 4 + utf16_len s * 2).

Print Assumptions C19_xstring_decode_is_spec.
Print Assumptions C19_xstring_roundtrip.
Print Assumptions C19_xstring_text_survives.
Print Assumptions C19_read_string_item.
Print Assumptions C19_runs_concatenate.
Print Assumptions C19_runs_at_any_cuts.
Print Assumptions C19_phonetic_contributes_nothing.
Print Assumptions C19_cdata_is_text.
Print Assumptions C19_shared_index_is_ith_item.
Print Assumptions C19_text_survives_xlsx.
Print Assumptions C19_sheet_text_survives.
Print Assumptions C19_formula_text_survives.
Print Assumptions C19_ods_space_paragraph_roundtrip.
Print Assumptions C19_text_survives_ods.
Print Assumptions C19_ods_encode_survives.
Print Assumptions C19_ods_nonpara_contributes_nothing.
Print Assumptions C19_ods_ruby_text_contributes_nothing.
Print Assumptions C19_ods_ruby_is_its_base.
Print Assumptions C19_ods_layout_independent.
Print Assumptions C19_ods_former_witnesses.
Print Assumptions C19_utf16_roundtrip.
Print Assumptions C19_wf_utf16_covered.
Print Assumptions C19_lone_surrogate_replaced.
Print Assumptions C19_utf16_decode_scalars.
Print Assumptions C19_text_survives_utf16.
Print Assumptions C19_text_survives_xls.
Print Assumptions C19_xls_nonvacuous.
Print Assumptions C19_text_survives_xls_workbook.
Print Assumptions C19_xls_workbook_nonvacuous.
Print Assumptions C19_decode_to_8bit.
Print Assumptions C19_decode_to_16bit.
Print Assumptions C19_xstring_boundaries.
Print Assumptions C19_former_witnesses.
Print Assumptions C19_no_panic_read_string.
Print Assumptions C19_no_panic_read_shared_strings.
Print Assumptions C19_no_panic_read_cell.
Print Assumptions C19_no_panic_read_sheet_cells.
Print Assumptions C19_no_panic_read_sheet_formulas.
Print Assumptions C19_no_panic_ods_cell.
Print Assumptions C19_no_panic_wide_str.
Print Assumptions C19_hardening_witnesses.
