"""Single- and multi-fault mutations of workbook files for the malformed-input stream (C06).
All randomness comes from the rng passed in.  Mutations are structural where the container is
understood (zip members, XML attributes and numbers, little-endian fields), blind otherwise."""
import io, re, struct, zipfile

BOUNDARY_U16 = [0, 1, 2, 0x7F, 0x80, 0xFF, 0x100, 0x7FFF, 0x8000, 0xFFFE, 0xFFFF]
BOUNDARY_U32 = [0, 1, 0x7FFFFFFF, 0x80000000, 0xFFFFFFFA, 0xFFFFFFFC, 0xFFFFFFFE, 0xFFFFFFFF, 0x00100000, 0x01000000]

def mutate_bytes(data, rng):
    """one blind structural fault on a byte string; returns (kind, new bytes)"""
    n = len(data)
    if n == 0:
        return "empty", data
    k = rng.random()
    b = bytearray(data)
    if k < 0.2:
        cut = rng.choice([0, 1, 2, 3, 4, 7, 8, 511, 512, 513, n // 2, n - 1, n - 2, rng.randrange(n)])
        cut = max(0, min(cut, n - 1))
        return "truncate", bytes(b[:cut])
    if k < 0.5:
        off = rng.randrange(max(1, n - 1))
        val = rng.choice(BOUNDARY_U16)
        b[off:off + 2] = struct.pack("<H", val)[: max(0, min(2, n - off))]
        return "u16", bytes(b[:n])
    if k < 0.8:
        off = rng.randrange(max(1, n - 3))
        val = rng.choice(BOUNDARY_U32)
        b[off:off + 4] = struct.pack("<I", val)[: max(0, min(4, n - off))]
        return "u32", bytes(b[:n])
    if k < 0.9:
        off = rng.randrange(n)
        b[off] = rng.choice([0, 1, 0x7F, 0x80, 0xFF, b[off] ^ (1 << rng.randrange(8))])
        return "byte", bytes(b)
    # delete or duplicate a slice
    a = rng.randrange(n)
    l = rng.choice([1, 2, 4, 6, 8, 16, 64, 128, 512])
    if rng.random() < 0.5:
        return "delete", bytes(b[:a] + b[a + l:])
    return "dup", bytes(b[:a] + b[a:a + l] + b[a:])

NUM = re.compile(rb'(?<=["=>])-?\d+(?=["<])')
ATTR = re.compile(rb'\s[A-Za-z:_][\w:.-]*="[^"]*"')
TAG = re.compile(rb'<(/?)([A-Za-z_][\w:.-]*)')

def mutate_xml(data, rng):
    """one structural fault on an XML part"""
    k = rng.random()
    if k < 0.2 or len(data) < 20:
        cut = rng.randrange(len(data) + 1)
        return "xml-truncate", data[:cut]
    if k < 0.5:
        ms = list(NUM.finditer(data))
        if ms:
            m = rng.choice(ms)
            val = rng.choice([b"0", b"-1", b"1", b"4294967295", b"4294967296", b"18446744073709551615",
                              b"99999999999999999999", b"1048577", b"16385", b"", b"x", b"2147483648"])
            return "xml-number", data[:m.start()] + val + data[m.end():]
    if k < 0.7:
        ms = list(ATTR.finditer(data))
        if ms:
            m = rng.choice(ms)
            if rng.random() < 0.5:
                return "xml-attr-drop", data[:m.start()] + data[m.end():]
            junk = rng.choice([b' r="ZZZZZZZZZZZZ1"', b' r="A0"', b' r="1A"', b' r="A99999999999"', b' r=""', b' ref="A1:"',
                               b' ref=":"', b' ref="A1:B2:C3"', b' t="zz"', b' s="99999999"', b' si="4294967296"',
                               b' table:number-columns-repeated="4294967295"', b' table:number-rows-repeated="4294967295"'])
            return "xml-attr-junk", data[:m.start()] + junk + data[m.end():]
    if k < 0.85:
        ms = list(TAG.finditer(data))
        if ms:
            m = rng.choice(ms)
            if rng.random() < 0.5:
                # rename the tag
                return "xml-tag-rename", data[:m.start(2)] + b"zz" + data[m.end(2):]
            # drop everything up to the next '>'
            e = data.find(b">", m.start())
            return "xml-tag-drop", data[:m.start()] + data[e + 1:] if e > 0 else data[:m.start()]
    kind, out = mutate_bytes(data, rng)
    return "xml-" + kind, out

def rezip(members, order=None):
    bio = io.BytesIO()
    with zipfile.ZipFile(bio, "w", zipfile.ZIP_DEFLATED) as z:
        for name in (order or list(members)):
            z.writestr(name, members[name])
    return bio.getvalue()

def mutate_zip(data, rng):
    """one fault inside a zip-based workbook: returns (kind, bytes)"""
    try:
        z = zipfile.ZipFile(io.BytesIO(data))
        members = {i.filename: z.read(i.filename) for i in z.infolist()}
    except Exception:
        return mutate_bytes(data, rng)
    names = list(members)
    if not names:
        return mutate_bytes(data, rng)
    k = rng.random()
    if k < 0.08:
        kind, out = mutate_bytes(data, rng)      # the container itself
        return "zip-raw-" + kind, out
    if k < 0.2:
        n = rng.choice(names)
        del members[n]
        return "zip-drop:" + n, rezip(members)
    # prefer the parts calamine reads
    weights = []
    for n in names:
        w = 1
        if re.search(r"(sheet\d*\.(xml|bin)|content\.xml|workbook\.(xml|bin)|sharedStrings|styles|\.rels|manifest|table\d*\.xml|vbaProject)", n):
            w = 6
        weights.append(w)
    n = rng.choices(names, weights)[0]
    body = members[n]
    if n.endswith((".xml", ".rels")) or body[:5] == b"<?xml":
        kind, members[n] = mutate_xml(body, rng)
    else:
        kind, members[n] = mutate_bytes(body, rng)
    return "%s@%s" % (kind, n), rezip(members)

def mutate_file(fmt, data, rng, faults=1):
    kinds = []
    for _ in range(faults):
        if fmt in ("xlsx", "xlsb", "ods"):
            k, data = mutate_zip(data, rng)
        else:
            k, data = mutate_bytes(data, rng)
        kinds.append(k)
    return "+".join(kinds), data


# =====================================================================================
# Structure-aware faults (property C06).  Everything below is deterministic: the systematic
# generators enumerate "each structure x each truncation length x each boundary value" in a
# fixed order, the random ones draw from the rng passed in.
# =====================================================================================
import os, sys
sys.path.insert(0, os.path.dirname(os.path.abspath(__file__)))

FREESECT, ENDOFCHAIN, FATSECT, DIFSECT = 0xFFFFFFFF, 0xFFFFFFFE, 0xFFFFFFFD, 0xFFFFFFFC

# ---------------------------------------------------------------- compound files (MS-CFB)

class Cfb:
    """Tolerant reader of a compound file: enough structure to address every field."""
    def __init__(self, data):
        self.data = data
        self.ok = False
        if len(data) < 512 or data[:8] != bytes.fromhex("D0CF11E0A1B11AE1"):
            return
        shift = struct.unpack_from("<H", data, 30)[0]
        if shift not in (9, 12):
            return
        self.ss = ss = 1 << shift
        (self.dir_len, self.fat_len, self.dir_start) = struct.unpack_from("<III", data, 40)
        (self.mini_fat_start, self.mini_fat_len, self.difat_start, self.difat_len) = struct.unpack_from("<IIII", data, 60)
        self.nsect = max(0, (len(data) - ss + ss - 1) // ss)
        difat = list(struct.unpack_from("<109I", data, 76))
        sid, seen = self.difat_start, set()
        self.difat_sectors = []
        while sid < 0xFFFFFFFA and sid not in seen and self.sec_off(sid) + ss <= len(data):
            seen.add(sid)
            self.difat_sectors.append(sid)
            ent = list(struct.unpack_from("<%dI" % (ss // 4), data, self.sec_off(sid)))
            difat += ent[:-1]
            sid = ent[-1]
        self.fat_sectors = [x for x in difat if x < DIFSECT and self.sec_off(x) + ss <= len(data)]
        self.fat = []
        for s in self.fat_sectors:
            self.fat += list(struct.unpack_from("<%dI" % (ss // 4), data, self.sec_off(s)))
        dirbytes, self.dir_chain = self.chain_bytes(self.dir_start)
        self.dirs = []
        for i in range(len(dirbytes) // 128):
            e = dirbytes[i * 128:(i + 1) * 128]
            nlen = struct.unpack_from("<H", e, 64)[0]
            name = e[:max(0, min(64, nlen) - 2)].decode("utf-16-le", "replace")
            typ = e[66]
            start = struct.unpack_from("<I", e, 116)[0]
            size = struct.unpack_from("<Q", e, 120)[0] if ss == 4096 else struct.unpack_from("<I", e, 120)[0]
            sec = self.dir_chain[(i * 128) // ss] if (i * 128) // ss < len(self.dir_chain) else None
            off = self.sec_off(sec) + (i * 128) % ss if sec is not None else None
            self.dirs.append({"i": i, "name": name, "typ": typ, "start": start, "size": size, "off": off})
        self.mini, self.mini_chain = (b"", [])
        if self.dirs:
            self.mini, self.mini_chain = self.chain_bytes(self.dirs[0]["start"])
            self.mini = self.mini[:self.dirs[0]["size"]]
        mf, self.minifat_chain = self.chain_bytes(self.mini_fat_start) if self.mini_fat_len else (b"", [])
        self.minifat = list(struct.unpack("<%dI" % (len(mf) // 4), mf[:len(mf) // 4 * 4]))
        self.ok = True

    def sec_off(self, sid):
        return (sid + 1) * self.ss

    def chain(self, start, fat=None, limit=None):
        fat = self.fat if fat is None else fat
        out, sid = [], start
        limit = limit or len(fat) + 1
        while sid < 0xFFFFFFFA and sid < len(fat) and len(out) < limit:
            out.append(sid)
            sid = fat[sid]
        return out

    def chain_bytes(self, start):
        ch = self.chain(start)
        b = b"".join(self.data[self.sec_off(s):self.sec_off(s) + self.ss] for s in ch)
        return b, ch

    def stream(self, d):
        """bytes of directory entry d (a stream)"""
        if d["size"] < 4096 and d["i"] != 0:
            ch = self.chain(d["start"], self.minifat)
            b = b"".join(self.mini[s * 64:(s + 1) * 64] for s in ch)
        else:
            b, _ = self.chain_bytes(d["start"])
        return b[:d["size"]]

    def streams(self):
        return [(d["name"], self.stream(d)) for d in self.dirs if d["typ"] == 2]

    def fat_entry_off(self, sid):
        """file offset of FAT entry sid (None when its FAT sector is not in the file)"""
        per = self.ss // 4
        k = sid // per
        if k >= len(self.fat_sectors):
            return None
        return self.sec_off(self.fat_sectors[k]) + (sid % per) * 4

    def minifat_entry_off(self, mid):
        per = self.ss // 4
        k = mid // per
        if k >= len(self.minifat_chain):
            return None
        return self.sec_off(self.minifat_chain[k]) + (mid % per) * 4

def patch(data, off, b):
    return data[:off] + b + data[off + len(b):]

def p16(v):
    return struct.pack("<H", v & 0xFFFF)

def p32(v):
    return struct.pack("<I", v & 0xFFFFFFFF)

def cfb_rebuild(streams):
    """a fresh, valid compound file holding the given streams (flat directory: calamine looks
    streams up by name only)"""
    import xlsgen
    # no sibling / child links: since c0259aa the reader follows the hierarchy when there is one,
    # and the streams of the VBA storages stand side by side here
    return xlsgen.cfb_wrap(list(streams), links=False)

def systematic_cfb(data):
    """header fields, DIFAT / FAT / mini FAT / directory entries at their boundary values, cycles,
    dangling ids, truncation around every sector boundary.  Yields (kind, bytes)."""
    c = Cfb(data)
    if not c.ok:
        return
    n = c.nsect
    # --- header
    for off in (24, 26, 28, 30, 32, 34):
        for v in (0, 1, 6, 8, 9, 10, 12, 13, 0x7FFF, 0xFFFF):
            yield "cfb-hdr16@%d=%x" % (off, v), patch(data, off, p16(v))
    ids = [0, 1, 2, max(0, n - 1), n, n + 1, n + 1000, 0x00100000, 0x7FFFFFFF, 0x80000000, 0xFFFFFFF9, 0xFFFFFFFA,
           DIFSECT, FATSECT, ENDOFCHAIN, FREESECT]
    for off in (40, 44, 48, 52, 56, 60, 64, 68, 72):
        for v in ids:
            yield "cfb-hdr32@%d=%x" % (off, v), patch(data, off, p32(v))
    # --- DIFAT entries in the header: the used ones (up to 3) and the first free one
    used = [i for i in range(109) if struct.unpack_from("<I", data, 76 + 4 * i)[0] < DIFSECT]
    for i in used[:3] + [len(used)] if len(used) < 109 else used[:3]:
        for v in ids:
            yield "cfb-difat[%d]=%x" % (i, v), patch(data, 76 + 4 * i, p32(v))
    # --- a DIFAT sector chain made out of the last sectors of the file: self-loop, 2-cycle, dangling
    if n >= 3:
        a, b = n - 1, n - 2
        def with_last(d, sid, nxt):
            return patch(d, c.sec_off(sid) + c.ss - 4, p32(nxt))
        for kind, d in (("self", with_last(data, a, a)),
                        ("2cycle", with_last(with_last(data, a, b), b, a)),
                        ("dangling", with_last(data, a, n + 7)),
                        ("beyond", with_last(data, a, 0x7FFFFFF0)),
                        ("end", with_last(data, a, ENDOFCHAIN))):
            d = patch(patch(d, 68, p32(a)), 72, p32(2))
            yield "cfb-difat-chain-" + kind, d
        yield "cfb-difat-chain-past-eof", patch(patch(data, 68, p32(n)), 72, p32(1))
        yield "cfb-difat-chain-partial", patch(patch(data, 68, p32(a)), 72, p32(1))[:c.sec_off(a) + 100]
    # --- cycles through the sector that starts exactly at the end of the file: it reads as an
    #     EMPTY slice (a tolerated short read), so a bound on the bytes collected never fires; only
    #     a bound on the sectors visited ends such a walk
    nf = len(data) // c.ss - 1                      # sectors wholly present
    base = data[:(nf + 1) * c.ss]                   # file cut to a sector boundary
    cb = Cfb(base)
    if cb.ok and nf >= 2:
        for (tag, loop) in (("self", [(nf, nf)]), ("2cycle", [(nf, nf + 1), (nf + 1, nf)]), ("via-last", [(nf, nf - 1)])):
            d0 = base
            okp = True
            for (e, nxt) in loop:
                off = cb.fat_entry_off(e)
                if off is None or off + 4 > len(base):
                    okp = False
                    break
                d0 = patch(d0, off, p32(nxt))
            if not okp:
                continue
            if tag == "via-last":
                # the last sector points to the end-of-file sector, which points back to it
                off = cb.fat_entry_off(nf - 1)
                if off is None:
                    continue
                d0 = patch(d0, off, p32(nf))
            for d in cb.dirs[:8]:
                if d["off"] is not None:
                    yield "cfb-eof-cycle-%s-dir[%d].start" % (tag, d["i"]), patch(d0, d["off"] + 116, p32(nf))
                    yield "cfb-eof-cycle-%s-dir[%d].start-big" % (tag, d["i"]), patch(patch(d0, d["off"] + 116, p32(nf)), d["off"] + 120, p32(0x10000))
            for off_h in (48, 60, 68):
                yield "cfb-eof-cycle-%s-hdr@%d" % (tag, off_h), patch(d0, off_h, p32(nf))
            yield "cfb-eof-cycle-%s-minifat" % tag, patch(patch(d0, 60, p32(nf)), 64, p32(1))
            for ch in (cb.dir_chain, cb.mini_chain, cb.minifat_chain) + tuple(cb.chain(d["start"]) for d in cb.dirs[1:4] if d["typ"] == 2 and d["size"] >= 4096):
                if ch and cb.fat_entry_off(ch[-1]) is not None:
                    yield "cfb-eof-cycle-%s-after[%d]" % (tag, ch[-1]), patch(d0, cb.fat_entry_off(ch[-1]), p32(nf))
        # the same inside the mini stream: the mini sector that starts at its end
        m = len(cb.mini) // 64
        if cb.minifat_entry_off(m) is not None:
            d0 = patch(base, cb.minifat_entry_off(m), p32(m))
            for d in cb.dirs[1:8]:
                if d["off"] is not None and d["typ"] == 2 and d["size"] < 4096:
                    yield "cfb-mini-eof-cycle-dir[%d].start" % d["i"], patch(d0, d["off"] + 116, p32(m))
                    ch = cb.chain(d["start"], cb.minifat)
                    if ch and cb.minifat_entry_off(ch[-1]) is not None:
                        yield "cfb-mini-eof-cycle-after[%d]" % ch[-1], patch(d0, cb.minifat_entry_off(ch[-1]), p32(m))
    # --- FAT entries of the sectors that matter
    interesting = []
    for ch in (c.dir_chain, c.mini_chain, c.minifat_chain, c.fat_sectors):
        interesting += ch[:3] + ch[-1:]
    for d in c.dirs[1:6]:
        if d["typ"] == 2 and d["size"] >= 4096:
            ch = c.chain(d["start"])
            interesting += ch[:3] + ch[-1:]
    seen = set()
    for s in interesting:
        if s in seen or c.fat_entry_off(s) is None:
            continue
        seen.add(s)
        prev = [p for p in range(len(c.fat)) if c.fat[p] == s][:1]
        for v in [s] + prev + ids:
            yield "cfb-fat[%d]=%x" % (s, v), patch(data, c.fat_entry_off(s), p32(v))
    # --- mini FAT entries of the first small streams
    seen = set()
    for d in c.dirs[1:8]:
        if d["typ"] == 2 and d["size"] < 4096:
            ch = c.chain(d["start"], c.minifat)
            for s in ch[:2] + ch[-1:]:
                if s in seen or c.minifat_entry_off(s) is None:
                    continue
                seen.add(s)
                prev = [p for p in range(len(c.minifat)) if c.minifat[p] == s][:1]
                for v in [s] + prev + [0, len(c.minifat), len(c.minifat) + 1, 0x7FFFFFFF, 0xFFFFFFFA, ENDOFCHAIN, FREESECT]:
                    yield "cfb-minifat[%d]=%x" % (s, v), patch(data, c.minifat_entry_off(s), p32(v))
    # --- directory entries
    for d in c.dirs[:10]:
        if d["off"] is None:
            continue
        o = d["off"]
        for v in (0, 1, 2, 63, 64, 65, 66, 0x7FFF, 0xFFFF):
            yield "cfb-dir[%d].namelen=%x" % (d["i"], v), patch(data, o + 64, p16(v))
        for v in (0, 1, 2, 3, 5, 0xFF):
            yield "cfb-dir[%d].type=%x" % (d["i"], v), patch(data, o + 66, bytes([v]))
        for v in ids:
            yield "cfb-dir[%d].start=%x" % (d["i"], v), patch(data, o + 116, p32(v))
        for v in (0, 1, 63, 64, 65, 4095, 4096, 4097, d["size"] + 1, d["size"] + 64, d["size"] + c.ss, len(data), len(data) * 2,
                  0x7FFFFFFF, 0x80000000, 0xFFFFFFFF):
            yield "cfb-dir[%d].size=%x" % (d["i"], v), patch(data, o + 120, p32(v))
        if c.ss == 4096:
            for v in (1, 0x7FFFFFFF, 0xFFFFFFFF):
                yield "cfb-dir[%d].sizehi=%x" % (d["i"], v), patch(data, o + 124, p32(v))
        yield "cfb-dir[%d].rename" % d["i"], patch(data, o, b"Z\0")
        yield "cfb-dir[%d].noname" % d["i"], patch(data, o, b"\0" * 64)
    # --- truncation around sector boundaries and inside the header
    cuts = set(range(0, 80, 4)) | {76, 77, 511, 512, 513}
    for s in list(range(0, min(n, 6))) + list(range(max(0, n - 3), n)) + c.dir_chain[:2] + c.fat_sectors[:2] + c.minifat_chain[:1]:
        o = c.sec_off(s)
        cuts |= {o - 1, o, o + 1, o + 2, o + 3, o + 4, o + 127, o + 128, o + 129, o + c.ss // 2, o + c.ss - 1}
    for cut in sorted(x for x in cuts if 0 <= x < len(data)):
        yield "cfb-truncate@%d" % cut, data[:cut]

# ---------------------------------------------------------------- BIFF record streams (xls)

def biff_records(stream):
    """[(offset, type, body)] of a BIFF record stream; stops at the first record that does not fit"""
    out, i = [], 0
    while i + 4 <= len(stream):
        t, l = struct.unpack_from("<HH", stream, i)
        if i + 4 + l > len(stream):
            break
        out.append((i, t, stream[i + 4:i + 4 + l]))
        i += 4 + l
    return out

def biff_join(recs, fix_from=None):
    """re-serialises records [(orig offset or None, type, body)]; BoundSheet8 positions (lbPlyPos)
    that named an original record start are moved to the new start of that record, so that a
    change of length in the globals does not hide the sheets"""
    newoff, pos = {}, 0
    for (o, t, b) in recs:
        if o is not None and o not in newoff:
            newoff[o] = pos
        pos += 4 + len(b)
    out = []
    for (o, t, b) in recs:
        if t == 0x0085 and len(b) >= 4 and o is not None and o != fix_from:
            old = struct.unpack_from("<I", b, 0)[0]
            if old in newoff:
                b = p32(newoff[old]) + b[4:]
        out.append(struct.pack("<HH", t, len(b) & 0xFFFF) + b)
    return b"".join(out)

U16VALS = (0, 1, 0x7FFF, 0x8000, 0xFFFE, 0xFFFF)
U32VALS = (0x7FFFFFFF, 0x80000000, 0xFFFFFFFE, 0xFFFFFFFF)

def body_faults(body, window=40, dense=16):
    """single faults on one record body: every truncation length inside the window, every 16-bit
    and 32-bit field position inside the window at its boundary values and just beyond the body.
    Yields (kind, new body)."""
    L = len(body)
    for k in sorted(set(range(0, min(L, window))) | {L // 2, L - 1, L - 2, L - 3}):
        if 0 <= k < L:
            yield "trunc%d" % k, body[:k]
    offs = [o for o in range(0, min(L, window)) if o < dense or o % 2 == 0]
    for o in offs:
        if o + 2 <= L:
            for v in U16VALS + (L & 0xFFFF, (L + 1) & 0xFFFF, (L - o) & 0xFFFF):
                nb = patch(body, o, p16(v))
                if nb != body:
                    yield "u16@%d=%x" % (o, v), nb
        if o + 4 <= L:
            for v in U32VALS + (L + 1,):
                nb = patch(body, o, p32(v))
                if nb != body:
                    yield "u32@%d=%x" % (o, v), nb
        if o < L:
            for v in (0x00, 0x01, 0x7F, 0x80, 0xFF):
                if body[o] != v:
                    yield "u8@%d=%x" % (o, v), patch(body, o, bytes([v]))
    yield "grow1", body + b"\0"
    yield "grow7", body + b"\xff" * 7

BIFF_NAMES = {0x0006: "Formula", 0x000A: "EOF", 0x0017: "ExternSheet", 0x0018: "Lbl", 0x0022: "Date1904", 0x002F: "FilePass",
              0x003C: "Continue", 0x0042: "CodePage", 0x0085: "BoundSheet8", 0x00BD: "MulRk", 0x00E0: "XF", 0x00E5: "MergeCells",
              0x00EB: "MsoDrawingGroup", 0x00FC: "SST", 0x00FD: "LabelSst", 0x013D: "RRTabId", 0x0200: "Dimensions",
              0x0203: "Number", 0x0204: "Label", 0x0205: "BoolErr", 0x0207: "String", 0x027E: "RK", 0x041E: "Format",
              0x0809: "BOF", 0x04BC: "ShrFmla", 0x0221: "Array"}
# the record types calamine interprets: all their occurrences are candidates, other types only once
BIFF_READ = set(BIFF_NAMES)

def select_records(recs, key, per_key=1, always=()):
    """indices of the records to fault: the first per_key occurrences of each key (type, section)"""
    seen, out = {}, []
    for i, r in enumerate(recs):
        k = key(i, r)
        if k is None:
            continue
        seen[k] = seen.get(k, 0) + 1
        if seen[k] <= per_key or k in always:
            out.append(i)
    return out

def systematic_biff(stream, only_read=True, per_key=1):
    """record-aware single faults on a Workbook stream.  Yields (kind, new stream)."""
    recs = biff_records(stream)
    if not recs:
        return
    # section = number of BOF records seen so far (0: before, 1: globals, 2..: sheets); only the
    # first three sections are enumerated
    section, secs = 0, []
    for (o, t, b) in recs:
        if t == 0x0809:
            section += 1
        secs.append(section)
    def key(i, r):
        if secs[i] > 3:
            return None
        if only_read and r[1] not in BIFF_READ:
            return None
        return (min(secs[i], 3), r[1])
    for i in select_records(recs, key, per_key):
        o, t, b = recs[i]
        name = "%s#%d" % (BIFF_NAMES.get(t, "%04x" % t), i)
        base = [(ro, rt, rb) for (ro, rt, rb) in recs]
        for kind, nb in body_faults(b, window=48 if t in (0x0006, 0x0018, 0x00FC, 0x0017, 0x00E5, 0x04BC) else 28):
            m = list(base)
            m[i] = (o, t, nb)
            yield "biff-%s-%s" % (name, kind), biff_join(m, fix_from=o if t == 0x0085 else None)
        # the declared length against the bytes that follow (the stream keeps its length)
        for v in (0, 1, len(b) - 1, len(b) + 1, len(b) + 4, 0x2020, 0x7FFF, 0xFFFF):
            if 0 <= v <= 0xFFFF and v != len(b):
                yield "biff-%s-len=%x" % (name, v), patch(stream, o + 2, p16(v))
        for v in (0x0000, 0x003C, 0x000A, 0x0809, 0x00FC, 0x0006, 0x0018, 0xFFFF):
            if v != t:
                yield "biff-%s-type=%x" % (name, v), patch(stream, o, p16(v))
        yield "biff-%s-delete" % name, biff_join(base[:i] + base[i + 1:])
        yield "biff-%s-dup" % name, biff_join(base[:i + 1] + [(None, t, b)] + base[i + 1:])
        yield "biff-%s-empty-continue" % name, biff_join(base[:i + 1] + [(None, 0x003C, b"")] + base[i + 1:])
        yield "biff-%s-cut-stream" % name, stream[:o + 4 + len(b) // 2]
        yield "biff-%s-end-stream" % name, stream[:o + 4 + len(b)]
        yield "biff-%s-cut-header" % name, stream[:o + 2]

def formula_faults(rgce):
    """token-aware faults on a parsed-formula byte string: cut after every byte, every operand
    byte pair at its boundaries"""
    for k in range(len(rgce)):
        yield "cut%d" % k, rgce[:k]
    for o in range(len(rgce)):
        for v in (0x00, 0x01, 0x17, 0x19, 0x22, 0x23, 0x29, 0x3A, 0x42, 0xFF):
            if rgce[o] != v:
                yield "b@%d=%x" % (o, v), patch(rgce, o, bytes([v]))
        if o + 2 <= len(rgce):
            for v in (0, 0xFFFF, 0x7FFF, 0x8000, 0x01E5, 0x01E4):
                yield "w@%d=%x" % (o, v), patch(rgce, o, p16(v))

def _w(v):
    return p16(v)

def nested_rgce(limit=0xFFF0):
    """every token byte taken as if it held a nested token stream behind a 16-bit (or 32-bit)
    length, nested as deep as one formula can hold: a decoder that recurses on some token must
    bound the depth (PtgMemFunc does; a new recursive arm may forget to)"""
    for tk in range(1, 0x80):
        for width, pad in ((2, 0), (2, 2), (2, 4), (2, 6), (4, 0)):   # operand bytes in front of the length (PtgMemArea has 4)
            if True:
                nr = b""
                while len(nr) + 1 + pad + width <= limit:
                    nr = bytes([tk]) + b"\0" * pad + (p16(len(nr)) if width == 2 else p32(len(nr))) + nr
                yield "nest-%02x-p%d-w%d" % (tk, pad, width), nr

# hand-made parsed formulas (BIFF8 token layouts): each one aims at one guard of xls parse_formula
CRAFTED_RGCE_XLS = [
    b"\x1e\x01\x00" + b"\x22\x01" + _w(0xFFFF),          # PtgFuncVar, 1 argument, unknown function
    b"\x22\x00" + _w(0xFFFF),                             # PtgFuncVar, no argument, unknown function
    b"\x22\x00" + _w(485), b"\x42\x00" + _w(0x8001), b"\x21" + _w(485), b"\x21" + _w(0xFFFF),
    b"\x1e\x01\x00" + b"\x22\xff" + _w(4),                # more arguments than the stack holds
    b"\x23\x00\x00\x00\x00", b"\x43\xff\xff\xff\xff", b"\x23\x01\x00\x00\x00",   # PtgName 0 / huge / 1
    b"\x3a" + _w(0xFFFF) + _w(0) + _w(0), b"\x3b" + _w(0xFFFF) + _w(0) * 4, b"\x3c" + _w(9) + _w(0) * 2, b"\x3d" + _w(9) + _w(0) * 4,
    b"\x17\xff\x01" + b"a" * 10, b"\x17\xff\x00" + b"a" * 10, b"\x17\x00", b"\x17\x05\x01ab", b"\x17",
    b"\x19\x04" + _w(0xFFFF), b"\x19\x04" + _w(2) + b"\0" * 3, b"\x19\x40\x09\x05", b"\x19\x40\x00", b"\x19\x10", b"\x19\x99\0\0",
    b"\x19\x40\x00\xff" + b"\x1e\x01\x00", b"\x1e\x01\x00\x19\x40\x00\xff", b"\x1e\x01\x00\x19\x10\x00\x00",
    b"\x03", b"\x12", b"\x15", b"\x14", b"\x1e\x01\x00" * 3, b"\x1e\x01\x00\x1e\x02\x00\x03\x03",
    b"\x1c\x99", b"\x1c", b"\x1d", b"\x1e\x01", b"\x1f" + b"\0" * 7, b"\x20" + b"\0" * 6, b"\x18" + b"\0" * 4, b"\x01\0\0\0",
    b"\x24\xff\xff\xff\xff", b"\x25" + b"\xff" * 8, b"\x2a\0\0\0", b"\x2b" + b"\0" * 7, b"\x39" + b"\0" * 5, b"\xee",
    b"\x16" * 300 + b"\x22\xff" + _w(4),
    b"\x17\x02\x00\"\"" + b"\x15" * 200,
]
# the same for the xlsb token layouts (32-bit rows, PtgStr with a 16-bit length, PtgMemFunc nesting)
CRAFTED_RGCE_XLSB = [
    b"\x1e\x01\x00" + b"\x22\x01" + _w(0xFFFF), b"\x22\x00" + _w(0xFFFF), b"\x22\x00" + _w(485), b"\x42\x00" + _w(0x8001),
    b"\x21" + _w(485), b"\x21" + _w(0xFFFF), b"\x1e\x01\x00" + b"\x22\xff" + _w(4),
    b"\x23\x00\x00\x00\x00", b"\x43\xff\xff\xff\xff", b"\x23\x01\x00\x00\x00",
    b"\x3a" + _w(0xFFFF) + b"\0" * 6, b"\x3b" + _w(0xFFFF) + b"\0" * 12, b"\x3c" + _w(999) + b"\0" * 6, b"\x3d" + _w(999) + b"\0" * 12,
    b"\x3a" + _w(0), b"\x3b" + _w(0) + b"\0" * 5,
    b"\x17" + _w(0xFFFF) + b"a\0" * 4, b"\x17" + _w(3) + b"a\0", b"\x17\x00", b"\x17", b"\x17" + _w(0),
    b"\x18\x19" + b"\0" * 11, b"\x18\x1d\0\0", b"\x18\x99", b"\x18",
    b"\x19\x04" + b"\0" * 9, b"\x19\x01\0", b"\x19\x10", b"\x19\x99\0\0", b"\x19", b"\x1e\x01\x00\x19\x10\x00\x00",
    b"\x29" + _w(0xFFFF), b"\x29" + _w(3) + b"\x1e\x01", b"\x29" + _w(0), b"\x29\x01",
    b"\x03", b"\x12", b"\x15", b"\x1e\x01\x00" * 3, b"\x1c\x99", b"\x1c", b"\x1d", b"\x1e\x01", b"\x1f" + b"\0" * 7,
    b"\x20" + b"\0" * 13, b"\x01\0\0\0", b"\x24" + b"\xff" * 5, b"\x25" + b"\xff" * 11, b"\x2a" + b"\0" * 5, b"\x2b" + b"\0" * 11,
    b"\x39" + b"\0" * 5, b"\xee", b"\x16" * 300 + b"\x22\xff" + _w(4),
]

def split_with_continue(recs, i, k, empty_first):
    """record i cut at byte k, the rest moved to CONTINUE records (an empty one first if asked)"""
    o, t, b = recs[i]
    extra = ([(None, 0x003C, b"")] if empty_first else []) + [(None, 0x003C, b[k:])]
    return recs[:i] + [(o, t, b[:k])] + extra + recs[i + 1:]

def systematic_biff_formulas(stream, limit=3):
    """faults inside the rgce of the first Formula / Lbl records"""
    recs = biff_records(stream)
    done = {0x0006: 0, 0x0018: 0}
    for i, (o, t, b) in enumerate(recs):
        if t == 0x0006 and len(b) >= 22 and done[t] < limit:
            done[t] += 1
            cce = struct.unpack_from("<H", b, 20)[0]
            rg = b[22:22 + cce]
            for kind, nr in formula_faults(rg):
                for fixlen in (True, False):
                    nb = b[:20] + (p16(len(nr)) if fixlen else b[20:22]) + nr + b[22 + cce:]
                    m = list(recs)
                    m[i] = (o, t, nb)
                    yield "biff-Formula#%d-rgce-%s%s" % (i, kind, "" if fixlen else "-cce-kept"), biff_join(m)
            if done[t] == 1:
                for k, nr in enumerate(CRAFTED_RGCE_XLS):
                    nb = b[:20] + p16(len(nr)) + nr
                    m = list(recs)
                    m[i] = (o, t, nb)
                    yield "biff-Formula#%d-rgce-crafted%d" % (i, k), biff_join(m)
                for kind, nr in nested_rgce(limit=8000):
                    nb = b[:20] + p16(len(nr)) + nr
                    m = list(recs)
                    m[i] = (o, t, nb)
                    yield "biff-Formula#%d-%s" % (i, kind), biff_join(m)
        if t == 0x0018 and len(b) >= 15 and done[t] < limit:
            done[t] += 1
            cce = struct.unpack_from("<H", b, 4)[0]
            if 0 < cce <= len(b) - 14:
                rg = b[len(b) - cce:]
                for kind, nr in formula_faults(rg):
                    nb = b[:4] + p16(len(nr)) + b[6:len(b) - cce] + nr
                    m = list(recs)
                    m[i] = (o, t, nb)
                    yield "biff-Lbl#%d-rgce-%s" % (i, kind), biff_join(m)

def systematic_biff_continues(stream):
    """strings cut by CONTINUE records: the SST and the first records holding strings are cut at
    every position of their first bytes, the rest going to a CONTINUE record, with and without an
    empty CONTINUE record in between"""
    recs = biff_records(stream)
    done = set()
    for i, (o, t, b) in enumerate(recs):
        if t in (0x00FC, 0x0204, 0x0207, 0x041E, 0x0085, 0x0018) and t not in done and len(b) > 4:
            done.add(t)
            for k in sorted(set(range(0, min(len(b), 40))) | set(range(40, len(b), 13))):
                for empty_first in (False, True):
                    yield "biff-%s#%d-continue@%d%s" % (BIFF_NAMES.get(t, "%04x" % t), i, k, "-empty" if empty_first else ""), \
                        biff_join(split_with_continue(recs, i, k, empty_first))

def xls_with_stream(data, name, new_stream):
    """the compound file `data` rebuilt with stream `name` replaced"""
    c = Cfb(data)
    streams = [(n, new_stream if n == name else b) for n, b in c.streams()]
    return cfb_rebuild(streams)

def xls_workbook_stream(data):
    c = Cfb(data)
    if not c.ok:
        return None, None
    for n, b in c.streams():
        if n in ("Workbook", "Book"):
            return n, b
    return None, None

def systematic_xls(data, per_key=1):
    name, stream = xls_workbook_stream(data)
    if stream is None:
        return
    c = Cfb(data)
    others = [(n, b) for n, b in c.streams()]
    def wrap(ns):
        return cfb_rebuild([(n, ns if n == name else b) for n, b in others])
    for kind, ns in systematic_biff(stream, per_key=per_key):
        yield kind, wrap(ns)
    for kind, ns in systematic_biff_formulas(stream):
        yield kind, wrap(ns)
    for kind, ns in systematic_biff_continues(stream):
        yield kind, wrap(ns)
    # out-of-order and far-apart cells, huge dimensions: the dense range built from them
    recs = biff_records(stream)
    cells = [i for i, r in enumerate(recs) if r[1] in (0x0203, 0x027E, 0x00FD, 0x0204, 0x0205) and len(r[2]) >= 6]
    if cells:
        i = cells[-1]
        o, t, b = recs[i]
        for r, cc in ((0, 0), (0xFFFF, 0), (0, 0xFFFF), (0xFFFF, 0xFFFF), (0xFFFF, 0x00FF)):
            m = list(recs)
            m[i] = (o, t, p16(r) + p16(cc) + b[4:])
            yield "biff-cell#%d-pos=%x,%x" % (i, r, cc), wrap(biff_join(m))
        if len(cells) > 1:
            j = cells[0]
            m = list(recs)
            m[i], m[j] = (None,) + recs[j][1:], (None,) + recs[i][1:]
            yield "biff-cells-swapped", wrap(biff_join(m))

# ---------------------------------------------------------------- xlsb record streams

def varint_type(t):
    return bytes([t]) if t < 0x80 else bytes([(t & 0x7F) | 0x80, (t >> 7) & 0x7F])

def varint_len(n):
    out = []
    for _ in range(4):
        b = n & 0x7F
        n >>= 7
        if n:
            out.append(b | 0x80)
        else:
            out.append(b)
            break
    return bytes(out)

def xlsb_records(part):
    """[(offset, type, body, header length)]"""
    out, i = [], 0
    while i < len(part):
        s = i
        b = part[i]; i += 1
        t = b
        if b & 0x80:
            if i >= len(part):
                break
            t = (b & 0x7F) | ((part[i] & 0x7F) << 7); i += 1
        l, sh = 0, 0
        for _ in range(4):
            if i >= len(part):
                return out
            b = part[i]; i += 1
            l |= (b & 0x7F) << sh
            sh += 7
            if not b & 0x80:
                break
        if i + l > len(part):
            break
        out.append((s, t, part[i:i + l], i - s))
        i += l
    return out

def xlsb_join(recs):
    return b"".join(varint_type(t) + varint_len(len(b)) + b for (_, t, b, _) in recs)

# the record types calamine interprets (cells, rows, strings, formats, sheets, names, dimensions,
# the blocks it skips); the other types only get the faults on their header
XLSB_READ = {0x0000, 0x0001, 0x0002, 0x0003, 0x0004, 0x0005, 0x0006, 0x0007, 0x0008, 0x0009, 0x000A, 0x000B, 0x0013, 0x0023, 0x0024,
             0x0025, 0x0026, 0x0027, 0x002C, 0x002F, 0x0081, 0x0085, 0x0086, 0x0090, 0x0091, 0x0092, 0x0093, 0x0094, 0x0099, 0x009C,
             0x009F, 0x016A, 0x0186, 0x0187, 0x01E5, 0x0267, 0x0269}

def systematic_xlsb_part(part, per_key=1, window=32):
    recs = xlsb_records(part)
    seen = {}
    for i, (o, t, b, hl) in enumerate(recs):
        # an occurrence counts per (type, type of the record before): the same record type is read
        # in one block and skipped in another (BrtXF inside cellStyleXfs / cellXfs)
        k = (t, recs[i - 1][1] if i else None)
        seen[k] = seen.get(k, 0) + 1
        if seen[k] > per_key:
            continue
        name = "brt%04x#%d" % (t, i)
        if t in XLSB_READ:
            for kind, nb in body_faults(b, window=window, dense=12):
                m = list(recs)
                m[i] = (o, t, nb, hl)
                yield "xlsb-%s-%s" % (name, kind), xlsb_join(m)
        # declared length against the bytes that follow
        for v in (0, 1, len(b) - 1, len(b) + 1, 0x7F, 0x80, 0x3FFF, 0x4000, 0x0FFFFFFF):
            if v >= 0 and v != len(b):
                yield "xlsb-%s-len=%x" % (name, v), part[:o] + varint_type(t) + varint_len(v) + part[o + hl:]
        yield "xlsb-%s-len-unterminated" % name, part[:o] + varint_type(t) + b"\xff\xff\xff\xff" + part[o + hl:]
        yield "xlsb-%s-delete" % name, xlsb_join(recs[:i] + recs[i + 1:])
        yield "xlsb-%s-dup" % name, xlsb_join(recs[:i + 1] + [recs[i]] + recs[i + 1:])
        yield "xlsb-%s-cut" % name, part[:o + hl + len(b) // 2]
        yield "xlsb-%s-end" % name, part[:o + hl + len(b)]
        yield "xlsb-%s-cut-header" % name, part[:o + 1]
        for v in (0x0000, 0x0002, 0x0007, 0x0008, 0x0009, 0x0027, 0x0094, 0x009C, 0x016A, 0x3FFF):
            if v != t:
                m = list(recs)
                m[i] = (o, v, b, hl)
                yield "xlsb-%s-type=%x" % (name, v), xlsb_join(m)

def xlsb_formula_faults(part, limit=2):
    """faults inside the rgce of the first formula cells (BrtFmla*) and names (BrtName)"""
    recs = xlsb_records(part)
    n = 0
    for i, (o, t, b, hl) in enumerate(recs):
        start = None
        if t == 0x0009 and len(b) >= 22:
            start = 18
        elif t in (0x000A, 0x000B) and len(b) >= 15:
            start = 11
        elif t == 0x0008 and len(b) >= 12:
            cch = struct.unpack_from("<I", b, 8)[0]
            start = 14 + 2 * cch
        elif t == 0x0027 and len(b) >= 13:              # BrtName: flags, itab, name, then the formula
            cch = struct.unpack_from("<I", b, 9)[0]
            start = 13 + 2 * cch
        if start is None or start + 4 > len(b):
            continue
        cce = struct.unpack_from("<I", b, start)[0]
        if start + 4 + cce > len(b):
            continue
        n += 1
        if n > limit:
            break
        rg = b[start + 4:start + 4 + cce]
        for kind, nr in formula_faults(rg):
            nb = b[:start] + p32(len(nr)) + nr + b[start + 4 + cce:]
            m = list(recs)
            m[i] = (o, t, nb, hl)
            yield "xlsb-fmla#%d-rgce-%s" % (i, kind), xlsb_join(m)
        if n == 1:
            for k, nr in enumerate(CRAFTED_RGCE_XLSB):
                nb = b[:start] + p32(len(nr)) + nr + b[start + 4 + cce:]
                m = list(recs)
                m[i] = (o, t, nb, hl)
                yield "xlsb-fmla#%d-rgce-crafted%d" % (i, k), xlsb_join(m)
        # deeply nested PtgMemFunc
        for depth in (70, 3000, 21000):
            nr = b""
            for _ in range(depth):
                nr = b"\x29" + p16(len(nr) & 0xFFFF) + nr
                if len(nr) > 0xFFF0:
                    break
            nb = b[:start] + p32(len(nr)) + nr + b[start + 4 + cce:]
            m = list(recs)
            m[i] = (o, t, nb, hl)
            yield "xlsb-fmla#%d-memfunc-depth%d" % (i, depth), xlsb_join(m)
        if n == 1 or t == 0x0027:
            for kind, nr in nested_rgce():
                nb = b[:start] + p32(len(nr)) + nr + b[start + 4 + cce:]
                m = list(recs)
                m[i] = (o, t, nb, hl)
                yield "xlsb-fmla#%d-%s" % (i, kind), xlsb_join(m)

# ---------------------------------------------------------------- zip containers

def zip_members(data):
    z = zipfile.ZipFile(io.BytesIO(data))
    return [(i.filename, z.read(i.filename)) for i in z.infolist()]

def zip_build(members, method=zipfile.ZIP_STORED):
    """stored by default: the inflater is not the subject, and building thousands of archives is"""
    bio = io.BytesIO()
    with zipfile.ZipFile(bio, "w", method) as z:
        for n, b in members:
            z.writestr(zipfile.ZipInfo(n), b, zipfile.ZIP_STORED if n == "mimetype" else method)
    return bio.getvalue()

def zip_replace(members, name, body):
    return zip_build([(n, body if n == name else b) for n, b in members])

READ_PARTS = re.compile(r"(^xl/(workbook|sharedStrings|styles)\.(xml|bin)$|^xl/_rels/workbook\.(xml|bin)\.rels$|^xl/(work|chart|macro|dialog)sheets/[^/]*\.(xml|bin)$|"
                        r"^xl/worksheets/_rels/.*\.rels$|^xl/tables/.*\.xml$|^xl/vbaProject\.bin$|^content\.xml$|^META-INF/manifest\.xml$|^mimetype$|^styles\.xml$)")

def systematic_zip_container(data):
    """faults on the container itself: parts dropped, emptied, renamed (case), declared sizes"""
    try:
        members = zip_members(data)
    except Exception:
        return
    for n, b in members:
        if not READ_PARTS.search(n):
            continue
        yield "zip-drop:" + n, zip_build([(m, x) for m, x in members if m != n])
        yield "zip-empty:" + n, zip_replace(members, n, b"")
        yield "zip-rename:" + n, zip_build([(m + ".x" if m == n else m, x) for m, x in members])
        yield "zip-dup:" + n, zip_build(members + [(n, b"")])
    # declared uncompressed sizes in the central directory and the local headers
    i = 0
    k = 0
    while True:
        i = data.find(b"PK\x01\x02", i)
        if i < 0 or k > 12:
            break
        for v in (0, 1, 0x7FFFFFFF, 0xFFFFFFFE):
            yield "zip-cd[%d].usize=%x" % (k, v), patch(data, i + 24, p32(v))
            yield "zip-cd[%d].csize=%x" % (k, v), patch(data, i + 20, p32(v))
        yield "zip-cd[%d].offset" % k, patch(data, i + 42, p32(0x7FFFFFFF))
        yield "zip-cd[%d].method" % k, patch(data, i + 10, p16(99))
        i += 4
        k += 1
    e = data.rfind(b"PK\x05\x06")
    if e >= 0:
        for off, w in ((8, 2), (10, 2), (12, 4), (16, 4), (20, 2)):
            for v in (0, 1, 0xFFFF, 0x7FFFFFFF, 0xFFFFFFFF):
                yield "zip-eocd@%d=%x" % (off, v), patch(data, e + off, p32(v)[:w])
    for cut in (0, 1, 4, 29, 30, 31, len(data) // 2, max(0, e), max(0, e + 4), len(data) - 1):
        yield "zip-truncate@%d" % cut, data[:cut]

# ---------------------------------------------------------------- XML parts

ATTR_VALUES = [b"", b"0", b"1", b"-1", b"A1:XFD1048576", b"2147483648", b"4294967295", b"4294967296", b"18446744073709551615",
               b"99999999999999999999", b"1e400", b"x", b"A0", b"1A", b"A1:", b":", b"A1:B2:C3", b"B2:A1", b"C1:A5", b"A5:C1", b"C2:A2", b"XFD1048577",
               b"ZZZZZZZ99999999999", b"A4294967295", b"A4294967296", b"FXSHRXX1", b"$A$1", b"&#0;", b"&bogus;", b"\xff\xfe"]
TEXT_VALUES = [b"", b"0", b"-1", b"4294967295", b"4294967296", b"99999999999999999999", b"1e400", b"nan", b"x",
               b"&#xFFFFFFFF;", b"&bogus;", b"<![CDATA[", b"<x>", b"\xff\xfe", b"A" * 70000,
               # ST_Xstring look-alikes next to characters of several bytes (a decoder must not cut
               # inside a character), at every phase of the seven bytes
               "_x\u65e5\u672c\u8a9e".encode(), "_x0\u00e9\u00e9\u00e9".encode(), "_x00\u20ac_".encode(),
               "_x000\U0001F600".encode(), "a_x\u00e9\u00e9\u00e9\u00e9\u00e9".encode(), b"_x000D", b"_x_x_x_x"]
START_TAG = re.compile(rb'<([A-Za-z_][\w:.-]*)((?:\s+[A-Za-z_:][\w:.-]*\s*=\s*"[^"<]*")*)\s*(/?)>')
ATTR_RE = re.compile(rb'\s+([A-Za-z_:][\w:.-]*)\s*=\s*"([^"<]*)"')
TEXT_EL = re.compile(rb'<([A-Za-z_][\w:.-]*)((?:\s[^<>]*)?)>([^<]+)</\1>')

def systematic_xml(part, extra_attrs=()):
    """single faults on one XML part.  Yields (kind, new part)."""
    n = len(part)
    # --- truncation at tag boundaries and inside tags
    ends = [m.end() for m in re.finditer(rb">", part)]
    pick = set(ends[:25]) | set(ends[-6:]) | set(ends[:: max(1, len(ends) // 25)])
    starts = [m.start() for m in re.finditer(rb"<", part)]
    for s in starts[:12] + starts[len(starts) // 2: len(starts) // 2 + 4]:
        pick |= {s + 1, s + 3}
    for m in list(ATTR_RE.finditer(part))[:6]:
        pick |= {m.start(2), m.start(2) + 1, m.end(2)}
    for cut in sorted(pick | {0, 1, 5, n - 1}):
        if 0 <= cut < n:
            yield "xml-cut@%d" % cut, part[:cut]
    # --- attribute values: each distinct (element, attribute) pair, first occurrence
    seen = set()
    for m in START_TAG.finditer(part):
        el = m.group(1)
        for a in ATTR_RE.finditer(m.group(2)):
            k = (el, a.group(1))
            if k in seen:
                continue
            seen.add(k)
            s, e = m.start(2) + a.start(2), m.start(2) + a.end(2)
            for v in ATTR_VALUES:
                if v != a.group(2):
                    yield "xml-attr:%s@%s=%s" % (el.decode(), a.group(1).decode(), v[:24].decode("latin1")), part[:s] + v + part[e:]
            yield "xml-attr-drop:%s@%s" % (el.decode(), a.group(1).decode()), part[:m.start(2) + a.start()] + part[m.start(2) + a.end():]
            yield "xml-attr-dup:%s@%s" % (el.decode(), a.group(1).decode()), part[:m.start(2) + a.end()] + a.group(0) + part[m.start(2) + a.end():]
            yield "xml-attr-unquoted:%s@%s" % (el.decode(), a.group(1).decode()), part[:e] + part[e + 1:]
    # --- attributes the readers look for, added where they are absent
    seen_el = set()
    for m in START_TAG.finditer(part):
        el = m.group(1)
        if el in seen_el:
            continue
        seen_el.add(el)
        for (an, av) in extra_attrs:
            if not re.search(rb"\s" + re.escape(an) + rb"\s*=", m.group(2)):
                ins = b' ' + an + b'="' + av + b'"'
                yield "xml-attr-add:%s@%s=%s" % (el.decode(), an.decode(), av[:20].decode("latin1")), part[:m.end(1)] + ins + part[m.end(1):]
    # --- element text
    seen = set()
    for m in TEXT_EL.finditer(part):
        if m.group(1) in seen:
            continue
        seen.add(m.group(1))
        for v in TEXT_VALUES:
            yield "xml-text:%s=%s" % (m.group(1).decode(), v[:16].decode("latin1")), part[:m.start(3)] + v + part[m.end(3):]
    # --- structure: each distinct element, first occurrence: start tag dropped, end tag dropped,
    #     renamed (first / all), self-closed, nested into itself
    seen = set()
    for m in START_TAG.finditer(part):
        el = m.group(1)
        if el in seen:
            continue
        seen.add(el)
        d = el.decode()
        yield "xml-start-drop:" + d, part[:m.start()] + part[m.end():]
        close = b"</" + el + b">"
        c = part.find(close, m.end())
        if c >= 0:
            yield "xml-end-drop:" + d, part[:c] + part[c + len(close):]
            yield "xml-end-dup:" + d, part[:c] + close + part[c:]
            yield "xml-content-drop:" + d, part[:m.end()] + part[c:]
            yield "xml-element-drop:" + d, part[:m.start()] + part[c + len(close):]
            yield "xml-element-dup:" + d, part[:c + len(close)] + part[m.start():c + len(close)] + part[c + len(close):]
        yield "xml-rename-first:" + d, part[:m.start(1)] + b"zz" + part[m.end(1):]
        yield "xml-rename-all:" + d, part.replace(b"<" + el + b" ", b"<zz ").replace(b"<" + el + b">", b"<zz>").replace(close, b"</zz>")
        yield "xml-prefix-all:" + d, part.replace(b"<" + el + b" ", b"<q:" + el + b" ").replace(b"<" + el + b">", b"<q:" + el + b">").replace(close, b"</q:" + el + b">")
        if not m.group(3):
            yield "xml-selfclose:" + d, part[:m.end() - 1] + b"/>" + part[m.end():]
        yield "xml-nest-5000:" + d, part[:m.end()] + b"<n>" * 5000 + part[m.end():]
        yield "xml-nest-closed-5000:" + d, part[:m.end()] + b"<n>" * 5000 + b"</n>" * 5000 + part[m.end():]
        yield "xml-unterminated-cdata:" + d, part[:m.end()] + b"<![CDATA[" + part[m.end():]
        yield "xml-unterminated-comment:" + d, part[:m.end()] + b"<!--" + part[m.end():]
        yield "xml-unterminated-pi:" + d, part[:m.end()] + b"<?" + part[m.end():]
        yield "xml-doctype-entity:" + d, part[:m.start()] + b'<!DOCTYPE x [<!ENTITY a "aaaaaaaaaa"><!ENTITY b "&a;&a;&a;&a;&a;&a;&a;&a;">]>' + part[m.start():]
    yield "xml-empty", b""
    yield "xml-bom16", b"\xff\xfe" + part
    yield "xml-not-xml", b"\x00\x01\x02PK\x03\x04" * 8
    yield "xml-encoding-utf16-declared", part.replace(b'encoding="UTF-8"', b'encoding="UTF-16"', 1)

XLSX_EXTRA = [(b"r", b"ZZZZZZZ99999999999"), (b"r", b"A4294967295"), (b"r", b""), (b"t", b"s"), (b"t", b"shared"), (b"t", b"zz"), (b"s", b"99999999"),
              (b"si", b"4294967296"), (b"si", b"0"), (b"ref", b"A1:XFD1048576"), (b"ref", b"B2:A1"), (b"ref", b"C1:A5"), (b"ref", b"A5:C1"), (b"ref", b"C2:A2"), (b"ref", b"XFD1:A2"), (b"count", b"4294967295"),
              (b"uniqueCount", b"4294967295"), (b"headerRowCount", b"4294967295"), (b"totalsRowCount", b"4294967295"),
              (b"insertRow", b"1"), (b"numFmtId", b"4294967296"), (b"date1904", b"x"), (b"state", b"x"), (b"r:id", b"rId999"),
              (b"Target", b"../../../x"), (b"Target", b"/"), (b"Target", b""), (b"Id", b"")]
ODS_EXTRA = [(b"table:number-columns-repeated", b"4294967295"), (b"table:number-columns-repeated", b"18446744073709551615"),
             (b"table:number-columns-repeated", b"0"), (b"table:number-columns-repeated", b"-1"),
             (b"table:number-rows-repeated", b"4294967295"), (b"table:number-rows-repeated", b"18446744073709551615"),
             (b"table:number-rows-repeated", b"0"), (b"table:number-rows-repeated", b"x"),
             (b"text:c", b"4294967295"), (b"text:c", b"-1"), (b"office:value", b"x"), (b"office:value", b"1e999"),
             (b"office:value-type", b"string"), (b"office:value-type", b"zz"), (b"table:display", b"x"), (b"table:name", b""),
             (b"table:formula", b"of:=[.A99999999999]"), (b"office:boolean-value", b"x"), (b"office:date-value", b""),
             (b"table:style-name", b"zz")]

def systematic_zip_xml(fmt, data, max_parts=8):
    try:
        members = zip_members(data)
    except Exception:
        return
    parts = [(n, b) for n, b in members if READ_PARTS.search(n) and (n.endswith((".xml", ".rels")) or b[:5] == b"<?xml")]
    # one sheet part is enough for the systematic pass (the biggest), all the other read parts
    sheets = sorted([p for p in parts if "sheets/" in p[0] and p[0].endswith(".xml")], key=lambda p: -len(p[1]))
    keep = [p for p in parts if p not in sheets] + sheets[:1]
    extra = ODS_EXTRA if fmt == "ods" else XLSX_EXTRA
    for n, b in keep[:max_parts]:
        for kind, nb in systematic_xml(b, extra):
            yield "%s@%s" % (kind, n), zip_replace(members, n, nb)

def crafted_xlsx_layouts(data):
    """package layouts that are legal but unusual: the first sheet stored directly in xl/ (its
    relationships then point above a folder that has no parent), absolute and empty targets"""
    try:
        members = zip_members(data)
    except Exception:
        return
    names = [n for n, _ in members]
    sheets = sorted(n for n in names if re.match(r"^xl/worksheets/[^/]*\.xml$", n))
    if not sheets or "xl/_rels/workbook.xml.rels" not in names:
        return
    sh = sheets[0]
    base = sh.rsplit("/", 1)[1]
    for s_ in sheets:
        if ("xl/worksheets/_rels/" + s_.rsplit("/", 1)[1] + ".rels") in names:
            sh, base = s_, s_.rsplit("/", 1)[1]       # prefer a sheet that has relationships (tables)
            break
    rels = "xl/worksheets/_rels/" + base + ".rels"
    out = []
    for n, b in members:
        if n == sh:
            out.append(("xl/" + base, b))
        elif n == rels:
            out.append(("xl/_rels/" + base + ".rels", b))
        elif n == "xl/_rels/workbook.xml.rels":
            out.append((n, b.replace(b'Target="worksheets/' + base.encode() + b'"', b'Target="' + base.encode() + b'"')))
        else:
            out.append((n, b))
    yield "xlsx-sheet-directly-in-xl", zip_build(out)
    out2 = [(n, b.replace(b'Target="worksheets/', b'Target="/xl/worksheets/') if n == "xl/_rels/workbook.xml.rels" else b) for n, b in members]
    yield "xlsx-absolute-sheet-targets", zip_build(out2)
    out3 = [(n, b.replace(b'Target="../', b'Target="../../../') if n == rels else b) for n, b in members]
    yield "xlsx-table-target-above-root", zip_build(out3)
    # the sheet part at the package root (a part name without any folder), named by an absolute, a
    # parent-relative and a bare target: code that splits a part name at its last '/' must cope
    for tag, target in (("abs", b"/" + base.encode()), ("up", b"../" + base.encode()), ("dot", b"./../" + base.encode())):
        out4 = []
        for n, b in members:
            if n == sh:
                out4.append((base, b))
            elif n == rels:
                out4.append(("_rels/" + base + ".rels", b.replace(b'Target="../', b'Target="xl/')))
            elif n == "xl/_rels/workbook.xml.rels":
                out4.append((n, b.replace(b'Target="worksheets/' + base.encode() + b'"', b'Target="' + target + b'"')))
            else:
                out4.append((n, b))
        yield "xlsx-sheet-at-package-root-" + tag, zip_build(out4)

def systematic_xlsb(data, per_key=1):
    try:
        members = zip_members(data)
    except Exception:
        return
    bins = [(n, b) for n, b in members if READ_PARTS.search(n) and n.endswith(".bin") and "vbaProject" not in n]
    def nformulas(part):
        return sum(1 for r in xlsb_records(part) if r[1] in (0x0008, 0x0009, 0x000A, 0x000B))
    # the record faults go to the sheet with the most kinds of cells (formula cells first, then
    # size); the formula faults to every sheet that has a formula
    sheets = sorted([p for p in bins if "sheets/" in p[0]], key=lambda p: (-nformulas(p[1]), -len(p[1])))
    keep = [p for p in bins if p not in sheets] + sheets[:1]
    for n, b in keep:
        for kind, nb in systematic_xlsb_part(b, per_key=per_key):
            yield "%s@%s" % (kind, n), zip_replace(members, n, nb)
    for n, b in [p for p in bins if p not in sheets] + sheets:
        for kind, nb in xlsb_formula_faults(b, limit=2 if (n, b) in keep else 1):
            yield "%s@%s" % (kind, n), zip_replace(members, n, nb)
    for n, b in keep:
        if "sheets/" in n:
            # the readers reuse one buffer across records: a short record right at the start of a
            # part finds no longer record before it whose bytes could hide the missing ones
            recs = xlsb_records(b)
            for t in (0x0094, 0x0091, 0x0000, 0x0002, 0x0007, 0x0009):
                for k in (0, 1, 3, 7, 15):
                    first = [r for r in recs if r[1] == t][:1]
                    body = (first[0][2] if first else b"\0" * 16)[:k]
                    yield "xlsb-first-record-brt%04x-len%d@%s" % (t, k, n), zip_replace(members, n, varint_type(t) + varint_len(len(body)) + body + b)
    for n, b in members:
        if n.endswith(".rels") and READ_PARTS.search(n):
            for kind, nb in systematic_xml(b, XLSX_EXTRA):
                yield "%s@%s" % (kind, n), zip_replace(members, n, nb)

# ---------------------------------------------------------------- VBA projects (MS-OVBA)

def ovba_decompress(s):
    """reference decompressor (returns None on a malformed container)"""
    if not s or s[0] != 1:
        return None
    out, i = bytearray(), 1
    while i < len(s):
        if i + 2 > len(s):
            return None
        h = struct.unpack_from("<H", s, i)[0]
        i += 2
        size, flag = (h & 0x0FFF) + 3, h >> 15
        end = min(len(s), i + size - 2)
        start = len(out)
        if not flag:
            out += s[i:i + 4096]
            i += 4096
            continue
        while i < end:
            fb = s[i]; i += 1
            for bit in range(8):
                if i >= end:
                    break
                if not (fb >> bit) & 1:
                    out.append(s[i]); i += 1
                else:
                    if i + 2 > len(s):
                        return None
                    tok = struct.unpack_from("<H", s, i)[0]; i += 2
                    d = len(out) - start
                    bc = max(4, (d - 1).bit_length()) if d > 0 else 4
                    lm = 0xFFFF >> bc
                    ln, off = (tok & lm) + 3, (tok >> (16 - bc)) + 1
                    if off > len(out):
                        return None
                    for _ in range(ln):
                        out.append(out[-off])
    return bytes(out)

def ovba_compress(b):
    """literal-only compressed container"""
    out = bytearray([1])
    for k in range(0, len(b), 4096):
        chunk = b[k:k + 4096]
        body = bytearray()
        for j in range(0, len(chunk), 8):
            body.append(0)
            body += chunk[j:j + 8]
        out += struct.pack("<H", 0xB000 | (len(body) + 2 - 3)) + body
    return bytes(out)

def dir_records(d):
    """[(offset, id, size, data offset)] of a decompressed dir stream, as far as the generic
    id/size/data layout holds (PROJECTVERSION and the reference records need special casing)"""
    out, i = [], 0
    while i + 6 <= len(d):
        rid, size = struct.unpack_from("<HI", d, i)
        if rid == 0x0009:
            out.append((i, rid, size, i + 6)); i += 12; continue
        if rid in (0x000F, 0x0010, 0x002B):
            out.append((i, rid, size, i + 6)); i += 6 + (size if rid != 0x002B else 0)
            if rid == 0x002B:
                pass
            continue
        if i + 6 + size > len(d):
            break
        out.append((i, rid, size, i + 6))
        i += 6 + size
    return out

def systematic_vba_streams(streams):
    """faults on the streams of a VBA project [(name, bytes)]: the dir stream (decompressed,
    record by record, then recompressed), the compressed containers themselves, module offsets.
    Yields (kind, new streams)."""
    names = [n for n, _ in streams]
    if "dir" not in names:
        return
    raw = dict(streams)["dir"]
    def repl(name, body):
        return [(n, body if n == name else b) for n, b in streams]
    d = ovba_decompress(raw)
    if d:
        for k in sorted(set(range(0, min(len(d), 120))) | set(range(120, len(d), 7)) | {len(d) - 1}):
            yield "vba-dir-cut%d" % k, repl("dir", ovba_compress(d[:k]))
        for (o, rid, size, doff) in dir_records(d):
            for v in (0, 1, max(0, size - 1), size + 1, len(d) - doff + 1, 0x7FFFFFFF, 0xFFFFFFFF):
                if v != size:
                    yield "vba-dir-rec%04x@%d-size=%x" % (rid, o, v), repl("dir", ovba_compress(patch(d, o + 2, p32(v))))
            for v in (0x0000, 0x000F, 0x0016, 0x002F, 0x0033, 0x000D, 0x000E, 0x0019, 0x0021, 0x002B, 0xFFFF):
                if v != rid:
                    yield "vba-dir-rec%04x@%d-id=%x" % (rid, o, v), repl("dir", ovba_compress(patch(d, o, p16(v))))
            if rid == 0x0031 and size == 4:
                for v in (1, 0x1000, 0x7FFFFFFF, 0xFFFFFFFF):
                    yield "vba-dir-moduleoffset=%x" % v, repl("dir", ovba_compress(patch(d, doff, p32(v))))
            if rid == 0x0003 and size == 2:
                for v in (0, 1, 1200, 65001, 0xFFFF):
                    yield "vba-dir-codepage=%d" % v, repl("dir", ovba_compress(patch(d, doff, p16(v))))
            if rid == 0x000F and size == 2:
                for v in (0, 1, 0x7FFF, 0xFFFF):
                    yield "vba-dir-modulecount=%x" % v, repl("dir", ovba_compress(patch(d, doff, p16(v))))
    # the compressed containers: signature, chunk headers, tokens
    for name in ["dir"] + [n for n in names if n not in ("dir", "PROJECT", "PROJECTwm", "_VBA_PROJECT")][:2]:
        s = dict(streams)[name]
        base = 0
        if name != "dir":
            i = s.find(b"\x01", 0)
            # the compressed source starts at MODULEOFFSET: search the container signature followed by a chunk header
            for j in range(len(s) - 2):
                if s[j] == 1 and (s[j + 2] & 0x70) == 0x30:
                    base = j
                    break
        c = s[base:]
        for kind, nc in container_faults(c):
            yield "vba-%s-%s" % (name, kind), repl(name, s[:base] + nc)

def container_faults(c):
    """faults on one compressed container"""
    yield "empty", b""
    yield "sig-only", c[:1]
    yield "sig0", b"\x00" + c[1:]
    for k in sorted(set(range(1, min(len(c), 24))) | {len(c) - 1, len(c) - 2, len(c) // 2}):
        if 0 < k < len(c):
            yield "cut%d" % k, c[:k]
    if len(c) >= 3:
        h = struct.unpack_from("<H", c, 1)[0]
        for v in (0x0000, 0x3000, 0xB000, 0xBFFF, 0x3FFF, 0x8000, 0xFFFF, h ^ 0x8000, h ^ 0x1000, (h & 0xF000) | 0x0FFF, (h & 0xF000)):
            yield "hdr=%04x" % v, c[:1] + p16(v) + c[3:]
    # hand-made chunks: copy token at the start of the output, copy tokens only, raw chunk cut short
    yield "copy-first", b"\x01" + p16(0xB000 | 2) + b"\x01" + p16(0x0000)
    yield "copy-first-far", b"\x01" + p16(0xB000 | 2) + b"\x01" + p16(0xFFFF)
    yield "copy-after-1", b"\x01" + p16(0xB000 | 3) + b"\x02" + b"a" + p16(0xF000)
    yield "copy-long", b"\x01" + p16(0xB000 | 3) + b"\x02" + b"a" + p16(0x0FFF)
    bomb = b"\x02" + b"a" + p16(0x0FFF) + b"".join(b"\xff" + p16(0x0FFF) * 8 for _ in range(400))
    yield "copy-bomb", b"\x01" + p16(0xB000 | min(0xFFF, len(bomb) - 1)) + bomb
    yield "raw-short", b"\x01" + p16(0x3FFF) + b"a" * 100
    yield "raw-exact", b"\x01" + p16(0x3FFF) + b"a" * 4096
    yield "literal-past-end", b"\x01" + p16(0xB000 | 0x0FFF) + b"\x00" + b"abc"
    yield "flag-only", b"\x01" + p16(0xB000 | 0) + b"\x00"
    yield "token-cut", b"\x01" + p16(0xB000 | 2) + b"\x02" + b"a" + b"\x00"
    yield "two-chunks-second-cut", b"\x01" + p16(0xB000 | 1) + b"\x00" + b"a" + b"\x01"

def systematic_vba(fmt, data):
    """VBA faults for a workbook file: xls (streams of the file itself) or a zip holding
    xl/vbaProject.bin"""
    if fmt == "xls":
        c = Cfb(data)
        if not c.ok:
            return
        streams = c.streams()
        for kind, ns in systematic_vba_streams(streams):
            yield kind, cfb_rebuild(ns)
        return
    try:
        members = zip_members(data)
    except Exception:
        return
    for n, b in members:
        if n.endswith("vbaProject.bin"):
            c = Cfb(b)
            if not c.ok:
                continue
            for kind, ns in systematic_vba_streams(c.streams()):
                yield kind + "@" + n, zip_replace(members, n, cfb_rebuild(ns))
            k = 0
            for kind, nb in systematic_cfb(b):
                k += 1
                if k % 3 == 0:      # the container faults are enumerated in full on the xls seeds
                    yield kind + "@" + n, zip_replace(members, n, nb)

# ---------------------------------------------------------------- random record-aware faults

def random_cfb_fault(c, data, rng):
    """one random fault on a compound-file structure, in constant time (one patch of the file)"""
    n = c.nsect
    ids = [0, 1, max(0, n - 1), n, n + 1, rng.randrange(0, n + 2), 0x7FFFFFFF, 0xFFFFFFFA, DIFSECT, FATSECT, ENDOFCHAIN, FREESECT]
    k = rng.random()
    if k < 0.2:
        off = rng.choice((40, 44, 48, 56, 60, 64, 68, 72))
        v = rng.choice(ids)
        return "cfb-hdr32@%d=%x" % (off, v), patch(data, off, p32(v))
    if k < 0.3:
        i = rng.randrange(0, 109)
        v = rng.choice(ids)
        return "cfb-difat[%d]=%x" % (i, v), patch(data, 76 + 4 * i, p32(v))
    if k < 0.65 and c.fat:
        sid = rng.randrange(0, min(len(c.fat), n + 2))
        off = c.fat_entry_off(sid)
        if off is not None and off + 4 <= len(data):
            v = rng.choice(ids + [sid, max(0, sid - 1)])
            return "cfb-fat[%d]=%x" % (sid, v), patch(data, off, p32(v))
    if k < 0.75 and c.minifat:
        mid = rng.randrange(0, len(c.minifat))
        off = c.minifat_entry_off(mid)
        if off is not None and off + 4 <= len(data):
            v = rng.choice([mid, 0, len(c.minifat), len(c.mini) // 64, 0x7FFFFFFF, ENDOFCHAIN, FREESECT])
            return "cfb-minifat[%d]=%x" % (mid, v), patch(data, off, p32(v))
    ds = [d for d in c.dirs[:12] if d["off"] is not None]
    if ds:
        d = rng.choice(ds)
        which = rng.choice(("start", "size", "namelen", "type"))
        if which == "start":
            v = rng.choice(ids)
            return "cfb-dir[%d].start=%x" % (d["i"], v), patch(data, d["off"] + 116, p32(v))
        if which == "size":
            v = rng.choice((0, 1, 63, 64, 4095, 4096, d["size"] + 1, len(data), 0x7FFFFFFF, 0xFFFFFFFF))
            return "cfb-dir[%d].size=%x" % (d["i"], v), patch(data, d["off"] + 120, p32(v))
        if which == "namelen":
            v = rng.choice((0, 1, 2, 63, 64, 65, 0xFFFF))
            return "cfb-dir[%d].namelen=%x" % (d["i"], v), patch(data, d["off"] + 64, p16(v))
        v = rng.choice((0, 1, 2, 5, 0xFF))
        return "cfb-dir[%d].type=%x" % (d["i"], v), patch(data, d["off"] + 66, bytes([v]))
    return None

def random_structured(fmt, data, rng):
    """one random structure-aware fault (falls back to the blind ones)"""
    try:
        if fmt == "xls":
            k = rng.random()
            if k < 0.35:
                c = Cfb(data)
                if c.ok:
                    f = random_cfb_fault(c, data, rng)
                    if f:
                        return f
            name, stream = xls_workbook_stream(data)
            if stream is not None and k < 0.9:
                recs = biff_records(stream)
                if recs:
                    i = rng.randrange(len(recs))
                    o, t, b = recs[i]
                    faults = list(body_faults(b, window=64))
                    if faults:
                        kind, nb = rng.choice(faults)
                        m = list(recs)
                        m[i] = (o, t, nb)
                        return "biff-%04x#%d-%s" % (t, i, kind), xls_with_stream(data, name, biff_join(m, fix_from=o if t == 0x85 else None))
        elif fmt == "xlsb":
            members = zip_members(data)
            bins = [(n, b) for n, b in members if n.endswith(".bin") and READ_PARTS.search(n) and "vbaProject" not in n]
            if bins and rng.random() < 0.8:
                n, b = rng.choice(bins)
                recs = xlsb_records(b)
                if recs:
                    i = rng.randrange(len(recs))
                    o, t, body, hl = recs[i]
                    faults = list(body_faults(body, window=64))
                    kind, nb = rng.choice(faults)
                    m = list(recs)
                    m[i] = (o, t, nb, hl)
                    return "xlsb-brt%04x#%d-%s@%s" % (t, i, kind, n), zip_replace(members, n, xlsb_join(m))
    except Exception:
        pass
    return mutate_file(fmt, data, rng, 1)

def _sample(gen, rng, k):
    """reservoir sample of k items of a generator"""
    res = []
    for i, x in enumerate(gen):
        if len(res) < k:
            res.append(x)
        else:
            j = rng.randrange(i + 1)
            if j < k:
                res[j] = x
    return res

def mutate_structured(fmt, data, rng, faults=1):
    kinds = []
    for _ in range(faults):
        k, data = random_structured(fmt, data, rng)
        kinds.append(k)
    return "+".join(kinds), data

def systematic(fmt, data):
    """the whole systematic pass for one seed file: yields (kind, bytes)"""
    if fmt == "xls":
        yield from systematic_cfb(data)
        yield from systematic_xls(data)
        yield from systematic_vba(fmt, data)
    elif fmt == "xlsb":
        yield from systematic_zip_container(data)
        yield from systematic_xlsb(data)
        yield from systematic_vba(fmt, data)
    else:
        yield from systematic_zip_container(data)
        yield from systematic_zip_xml(fmt, data)
        yield from crafted_xlsx_layouts(data)
        yield from systematic_vba(fmt, data)
