(* Property C05 — Range stays a consistent rectangle under every sequence of operations.
   This file contains only the property theorems (closed by [exact]), a [Check] pin of each
   full statement, and [Print Assumptions].  Model: Range.v; vocabulary: Range_spec.v;
   proofs: Range_proofs.v. *)
From Calamine Require Import Prelude Range Range_spec Range_proofs.
Open Scope N_scope.

(* every history that respects the documented preconditions runs without panic and every
   state it passes through is well formed *)
Theorem C05_history_wf :
  forall (T : Type) (d : T) (ops : list (op T)) (r0 : range T),
    Wf r0 -> pre_all d r0 ops ->
    exists r, run d r0 ops = Ok r /\ Wf r.
Proof. exact range_wf_history. Qed.

Theorem C05_new_spec :
  forall (T : Type) (d : T) (s e : pos),
    le2 s e -> box_cells s e <= U32MAX ->
    exists r, new d s e = Ok r /\ Wf r /\ rect r = Some (s, e) /\
      forall q, get_value r q = if in_box s e q then Some d else None.
Proof. exact new_spec. Qed.

(* set_value changes exactly the addressed cell and grows the rectangle to the bounding box of
   the old rectangle and that position, leaving every other cell unchanged *)
Theorem C05_set_value_spec :
  forall (T : Type) (d : T) (r : range T) (p : pos) (v : T),
    Wf r -> pre r (OSetValue p v) ->
    exists r', set_value d r p v = Ok r' /\ Wf r' /\
      rect r' = Some (bbox (rect r) p) /\
      forall q, get_value r' q =
        if pos_eqb q p then Some v
        else if in_rect r' q then Some (cell_or d r q) else None.
Proof. exact set_value_spec. Qed.

(* from_sparse places every cell at its position inside the tight bounding box *)
Theorem C05_from_sparse_spec :
  forall (T : Type) (d : T) (cs : list (pos * T)),
    pre empty (OFromSparse cs) ->
    exists r, from_sparse d cs = Ok r /\ Wf r /\
      rect r = tight_bbox (map fst cs) /\
      forall q, get_value r q = if in_rect r q then Some (last_write d cs q) else None.
Proof. exact from_sparse_spec. Qed.

(* range(s, e) has bounds (s, e), equals the source on the overlap, default elsewhere *)
Theorem C05_window_spec :
  forall (T : Type) (d : T) (r : range T) (s e : pos),
    Wf r -> le2 s e -> box_cells s e <= U32MAX ->
    exists w, window d r s e = Ok w /\ Wf w /\ rect w = Some (s, e) /\
      forall q, get_value w q = if in_box s e q then Some (cell_or d r q) else None.
Proof. exact window_spec. Qed.

(* the read accessors agree with each other and with start/end *)
Theorem C05_accessors_agree :
  forall (T : Type) (d : T) (teqb : T -> T -> bool) (r : range T),
    Wf r ->
    length (rows r) = N.to_nat (height r) /\
    Forall (fun row => length row = N.to_nat (width r)) (rows r) /\
    (forall i j, i < height r -> j < width r ->
       match nth_error (rows r) (N.to_nat i) with
       | Some row => nth_error row (N.to_nat j)
       | None => None
       end = get r (i, j) /\ get r (i, j) <> None) /\
    length (cells r) = N.to_nat (height r * width r) /\
    (forall i j, i < height r -> j < width r ->
       nth_error (cells r) (N.to_nat (i * width r + j)) =
       option_map (fun v => (i, j, v)) (get r (i, j))) /\
    used_cells d teqb r = filter (fun c => negb (teqb (snd c) d)) (cells r) /\
    (forall p, get_value r p =
       if in_rect r p then get r (fst p - fst (r_start r), snd p - snd (r_start r)) else None) /\
    (forall rel, index2 r rel = match get r rel with Some v => Ok v | None => Panic end) /\
    (forall rel, get r rel <> None <-> (fst rel < height r /\ snd rel < width r)) /\
    start r = option_map fst (rect r) /\ end_ r = option_map snd (rect r).
Proof. exact accessors_agree. Qed.

(* non-vacuity: a concrete non-trivial history meets the preconditions *)
Example C05_history_nonvacuous :
  let ops := [ONew (1, 1) (2, 3); OSetValue (4, 5) 7; OSetValue (1, 1) 9;
              OWindow (0, 0) (3, 3); OFromSparse [((2, 3), 5); ((4, 1), 6)];
              OEmpty; OSetValue (3, 3) 1] in
  Wf (@empty N) /\ pre_all 0 (@empty N) ops /\
  exists r, run 0 (@empty N) ops = Ok r /\ r_inner r = [1].
Proof. exact history_nonvacuous. Qed.

(* ---------------------------------------------------------------------------------------- *)
(* Resync to /repo HEAD (19d4f5b, 3140dd1): weaker preconditions and totality                *)
(* ---------------------------------------------------------------------------------------- *)

(* from_sparse no longer needs its cells sorted by row: same conclusion as
   C05_from_sparse_spec for cells in any order *)
Theorem C05_from_sparse_spec_unsorted :
  forall (T : Type) (d : T) (cs : list (pos * T)),
    pre_sparse cs ->
    exists r, from_sparse d cs = Ok r /\ Wf r /\
      rect r = tight_bbox (map fst cs) /\
      forall q, get_value r q = if in_rect r q then Some (last_write d cs q) else None.
Proof. exact from_sparse_spec_unsorted. Qed.

(* Range::new / Range::range count their cells in usize: the bound is usize::MAX cells *)
Theorem C05_new_spec_usize :
  forall (T : Type) (d : T) (s e : pos),
    le2 s e -> box_cells s e <= U64MAX ->
    exists r, new d s e = Ok r /\ Wf r /\ rect r = Some (s, e) /\
      forall q, get_value r q = if in_box s e q then Some d else None.
Proof. exact new_spec_usize. Qed.

Theorem C05_window_spec_usize :
  forall (T : Type) (d : T) (r : range T) (s e : pos),
    Wf r -> le2 s e -> box_cells s e <= U64MAX ->
    exists w, window d r s e = Ok w /\ Wf w /\ rect w = Some (s, e) /\
      forall q, get_value w q = if in_box s e q then Some (cell_or d r q) else None.
Proof. exact window_spec_usize. Qed.

(* histories under the preconditions of the current code: from_sparse cells in any order;
   every state is well formed and has fewer than 2^32 rows and columns (the domain on which
   width()/height() of the real code do not overflow u32) *)
Theorem C05_history_wf_head :
  forall (T : Type) (d : T) (ops : list (op T)) (r0 : range T),
    Wf r0 -> fits32 r0 -> pre_head_all d r0 ops ->
    exists r, run d r0 ops = Ok r /\ Wf r /\ fits32 r.
Proof. exact range_wf_history_head. Qed.

(* the old preconditions imply the new ones, operation by operation *)
Theorem C05_pre_implies_pre_head :
  forall (T : Type) (r : range T) (o : op T), pre r o -> pre_head r o.
Proof. exact pre_pre_head. Qed.

(* --- totality (for C06) --- *)

(* from_sparse: no panic on any list of cells, sorted or not, no hypothesis at all.  What is
   left outside the model is the allocation of [requested_from_sparse cs] cells (next theorems). *)
Theorem C05_no_panic_from_sparse :
  forall (T : Type) (d : T) (cs : list (pos * T)), from_sparse d cs <> Panic.
Proof. exact from_sparse_no_panic. Qed.

Theorem C05_from_sparse_total :
  forall (T : Type) (d : T) (cs : list (pos * T)),
    exists r, from_sparse d cs = Ok r /\
      N.of_nat (length (r_inner r)) = requested_from_sparse cs /\
      (cs <> [] -> (r_start r, r_end r) = sparse_bounds cs).
Proof. exact from_sparse_total. Qed.

(* the requested capacity is the area of the bounding box, not bounded by any function of the
   number of cells: two cells request any square up to usize::MAX (finding
   lib.rs::from_sparse::alloc: the real code then panics "capacity overflow" or aborts) *)
Theorem C05_from_sparse_requested_unbounded :
  forall n : N, n <= U32MAX ->
    exists cs : list (pos * N),
      length cs = 2%nat /\
      (forall c, In c cs -> fst (fst c) <= U32MAX /\ snd (fst c) <= U32MAX) /\
      requested_from_sparse cs = N.min ((n + 1) * (n + 1)) U64MAX.
Proof. exact requested_from_sparse_unbounded. Qed.

Theorem C05_refuted_from_sparse_alloc :
  exists cs : list (pos * N),
    length cs = 2%nat /\
    (forall c, In c cs -> fst (fst c) <= U32MAX /\ snd (fst c) <= U32MAX) /\
    requested_from_sparse cs = U64MAX.
Proof. exact from_sparse_alloc_refuted. Qed.

(* Range::new: exactly two ways to panic are left — corners not ordered componentwise (the
   documented precondition) and the full 2^32 x 2^32 grid (usize product overflow) *)
Theorem C05_no_panic_new :
  forall (T : Type) (d : T) (s e : pos),
    le2 s e -> box_cells s e <= U64MAX -> new d s e <> Panic.
Proof. exact new_no_panic. Qed.

Theorem C05_new_panic_iff :
  forall (T : Type) (d : T) (s e : pos),
    new d s e = Panic <-> ~ (le2 s e /\ box_cells s e <= U64MAX).
Proof. exact new_panic_iff. Qed.

Theorem C05_new_requested :
  forall (T : Type) (d : T) (s e : pos) (r : range T), new d s e = Ok r ->
    N.of_nat (length (r_inner r)) = requested_new s e /\ requested_new s e = box_cells s e.
Proof. exact new_requested. Qed.

(* Range::range panics exactly when its Range::new does (on a well-formed source) *)
Theorem C05_no_panic_window :
  forall (T : Type) (d : T) (r : range T) (s e : pos),
    Wf r -> le2 s e -> box_cells s e <= U64MAX -> window d r s e <> Panic.
Proof. exact window_no_panic. Qed.

Theorem C05_window_panic_iff :
  forall (T : Type) (d : T) (r : range T) (s e : pos), Wf r ->
    (window d r s e = Panic <-> ~ (le2 s e /\ box_cells s e <= U64MAX)).
Proof. exact window_panic_iff. Qed.

(* set_value: the code is unchanged; it needs the documented "at or beyond the start corner"
   and an offset from the start corner below u32::MAX in both directions *)
Theorem C05_no_panic_set_value :
  forall (T : Type) (d : T) (r : range T) (p : pos) (v : T),
    Wf r -> pre r (OSetValue p v) -> set_value d r p v <> Panic.
Proof. exact set_value_no_panic. Qed.

Theorem C05_set_value_panics_before_start :
  forall (T : Type) (d : T) (r : range T) (p : pos) (v : T),
    is_empty r = false -> ~ le2 (r_start r) p -> set_value d r p v = Panic.
Proof. exact set_value_panics_before_start. Qed.

(* non-vacuity of the new hypotheses *)
Example C05_unsorted_nonvacuous :
  pre_sparse [((4, 1), 6); ((2, 3), 5); ((2, 1), 4); ((3, 0), 0)] /\
  ~ sorted_by_row [((4, 1), 6); ((2, 3), 5); ((2, 1), 4); ((3, 0), 0)].
Proof. exact from_sparse_unsorted_pre_ex. Qed.

Example C05_history_head_nonvacuous :
  let ops := [OFromSparse [((4, 1), 6); ((2, 3), 5); ((2, 1), 4)]; OSetValue (5, 5) 7;
              OWindow (0, 0) (3, 3); ONew (1, 1) (2, 3); OEmpty; OSetValue (3, 3) 1] in
  Wf (@empty N) /\ fits32 (@empty N) /\ pre_head_all 0 (@empty N) ops /\
  exists r, run 0 (@empty N) ops = Ok r /\ r_inner r = [1].
Proof. exact history_head_nonvacuous. Qed.

Example C05_new_usize_nonvacuous :
  le2 (0, 0) (70000, 70000) /\ box_cells (0, 0) (70000, 70000) <= U64MAX /\
  ~ box_cells (0, 0) (70000, 70000) <= U32MAX.
Proof. exact new_usize_pre_ex. Qed.

Check C05_history_wf :
  forall (T : Type) (d : T) (ops : list (op T)) (r0 : range T),
    Wf r0 -> pre_all d r0 ops -> exists r, run d r0 ops = Ok r /\ Wf r.
Check C05_set_value_spec :
  forall (T : Type) (d : T) (r : range T) (p : pos) (v : T),
    Wf r -> pre r (OSetValue p v) ->
    exists r', set_value d r p v = Ok r' /\ Wf r' /\
      rect r' = Some (bbox (rect r) p) /\
      forall q, get_value r' q =
        if pos_eqb q p then Some v
        else if in_rect r' q then Some (cell_or d r q) else None.
Check C05_window_spec :
  forall (T : Type) (d : T) (r : range T) (s e : pos),
    Wf r -> le2 s e -> box_cells s e <= U32MAX ->
    exists w, window d r s e = Ok w /\ Wf w /\ rect w = Some (s, e) /\
      forall q, get_value w q = if in_box s e q then Some (cell_or d r q) else None.
Check C05_from_sparse_spec :
  forall (T : Type) (d : T) (cs : list (pos * T)),
    pre empty (OFromSparse cs) ->
    exists r, from_sparse d cs = Ok r /\ Wf r /\
      rect r = tight_bbox (map fst cs) /\
      forall q, get_value r q = if in_rect r q then Some (last_write d cs q) else None.

Print Assumptions C05_history_wf.
Print Assumptions C05_new_spec.
Print Assumptions C05_set_value_spec.
Print Assumptions C05_from_sparse_spec.
Print Assumptions C05_window_spec.
Print Assumptions C05_accessors_agree.
Check C05_no_panic_from_sparse :
  forall (T : Type) (d : T) (cs : list (pos * T)), from_sparse d cs <> Panic.
Check C05_from_sparse_spec_unsorted :
  forall (T : Type) (d : T) (cs : list (pos * T)),
    pre_sparse cs ->
    exists r, from_sparse d cs = Ok r /\ Wf r /\
      rect r = tight_bbox (map fst cs) /\
      forall q, get_value r q = if in_rect r q then Some (last_write d cs q) else None.

Print Assumptions C05_from_sparse_spec_unsorted.
Print Assumptions C05_new_spec_usize.
Print Assumptions C05_window_spec_usize.
Print Assumptions C05_history_wf_head.
Print Assumptions C05_pre_implies_pre_head.
Print Assumptions C05_no_panic_from_sparse.
Print Assumptions C05_from_sparse_total.
Print Assumptions C05_from_sparse_requested_unbounded.
Print Assumptions C05_refuted_from_sparse_alloc.
Print Assumptions C05_no_panic_new.
Print Assumptions C05_new_panic_iff.
Print Assumptions C05_new_requested.
Print Assumptions C05_no_panic_window.
Print Assumptions C05_window_panic_iff.
Print Assumptions C05_no_panic_set_value.
Print Assumptions C05_set_value_panics_before_start.
