(* Civil_proofs: the two calendar conversions are mutually inverse (unbounded in the year), every
   day number maps to a date that exists, and consecutive day numbers are consecutive dates.
   Method: the era decomposition is proved in general (linear arithmetic); what happens inside one
   400-year era is a finite domain (146097 days, resp. 400 x 12 x 31 triples) and is checked
   exhaustively by [vm_compute], lifted with [range_all_spec]. *)
From Calamine Require Import Prelude Civil.
Open Scope Z_scope.

Lemma range_all_spec : forall p f base, range_all p f base = true ->
  forall z, base <= z < base + Zpos p -> f z = true.
Proof.
  induction p as [q IH|q IH|]; intros f base H z Hz; cbn [range_all] in H.
  - apply andb_prop in H. destruct H as [H H2]. apply andb_prop in H. destruct H as [H0 H1].
    destruct (Z.eq_dec z base) as [->|Hne]; [exact H0|].
    destruct (Z_lt_le_dec z (base + 1 + Zpos q)).
    + apply (IH _ _ H1). lia.
    + apply (IH _ _ H2). lia.
  - apply andb_prop in H. destruct H as [H1 H2].
    destruct (Z_lt_le_dec z (base + Zpos q)).
    + apply (IH _ _ H1). lia.
    + apply (IH _ _ H2). lia.
  - assert (z = base) by lia. subst. exact H.
Qed.

Lemma check_doe_all : range_all 146097 check_doe 0 = true.
Proof. vm_cast_no_check (eq_refl true). Qed.

Lemma check_ymd_all : range_all 400 check_ymd 0 = true.
Proof. vm_cast_no_check (eq_refl true). Qed.

Lemma is_leap_mod400 : forall y k, is_leap (y + 400 * k) = is_leap y.
Proof.
  intros y k. unfold is_leap.
  replace ((y + 400 * k) mod 4) with (y mod 4) by lia.
  replace ((y + 400 * k) mod 100) with (y mod 100) by lia.
  replace ((y + 400 * k) mod 400) with (y mod 400) by lia.
  reflexivity.
Qed.

Lemma valid_date_mod400 : forall y k m d, valid_date (y + 400 * k) m d = valid_date y m d.
Proof. intros. unfold valid_date, days_in_month. rewrite is_leap_mod400. reflexivity. Qed.

Lemma valid_date_bounds : forall y m d, valid_date y m d = true -> 1 <= m <= 12 /\ 1 <= d <= 31.
Proof.
  intros y m d Hv. unfold valid_date, days_in_month in Hv.
  destruct (m =? 2), (is_leap y), ((m =? 4) || (m =? 6) || (m =? 9) || (m =? 11)); lia.
Qed.

(* every day number is the day number of the date it converts to, and that date exists *)
Theorem days_of_civil_of_days : forall z,
  let '(y, m, d) := civil_of_days z in days_of_civil y m d = z /\ valid_date y m d = true.
Proof.
  intros z. unfold civil_of_days.
  set (z' := z + 719468). set (era := z' / 146097). set (doe := z' - era * 146097).
  assert (Hdoe : 0 <= doe < 146097) by (subst doe era; lia).
  pose proof (range_all_spec _ _ _ check_doe_all doe ltac:(lia)) as Hc.
  unfold check_doe in Hc. destruct (ymd_of_doe doe) as [[yoe m] d].
  apply andb_prop in Hc. destruct Hc as [Hc Hv].
  apply andb_prop in Hc. destruct Hc as [Hc He].
  apply andb_prop in Hc. destruct Hc as [H0 H4].
  split.
  - unfold days_of_civil.
    set (y' := if m <=? 2 then (if m <=? 2 then yoe + era * 400 + 1 else yoe + era * 400) - 1
               else (if m <=? 2 then yoe + era * 400 + 1 else yoe + era * 400)).
    assert (Hy : y' = yoe + era * 400) by (subst y'; destruct (m <=? 2); lia).
    rewrite Hy. replace ((yoe + era * 400) / 400) with era by lia.
    replace (yoe + era * 400 - era * 400) with yoe by lia.
    apply Z.eqb_eq in He. rewrite He. subst doe z'. lia.
  - rewrite <- Hv. destruct (m <=? 2).
    + replace (yoe + era * 400 + 1) with (yoe + 1 + 400 * era) by lia. apply valid_date_mod400.
    + replace (yoe + era * 400) with (yoe + 400 * era) by lia. apply valid_date_mod400.
Qed.

(* every existing date is the date of its day number *)
Theorem civil_of_days_of_civil : forall y m d, valid_date y m d = true ->
  civil_of_days (days_of_civil y m d) = (y, m, d).
Proof.
  intros y m d Hv. unfold days_of_civil.
  set (y' := if m <=? 2 then y - 1 else y). set (era := y' / 400). set (yoe := y' - era * 400).
  assert (Hyoe : 0 <= yoe < 400) by (subst yoe era; lia).
  pose proof (valid_date_bounds _ _ _ Hv) as Hm.
  pose proof (range_all_spec _ _ _ check_ymd_all yoe ltac:(lia)) as Hc. unfold check_ymd in Hc.
  pose proof (range_all_spec _ _ _ Hc m ltac:(lia)) as Hc2. cbv beta in Hc2.
  pose proof (range_all_spec _ _ _ Hc2 d ltac:(lia)) as Hc3. cbv beta in Hc3. clear Hc Hc2.
  assert (Hv' : valid_date (if m <=? 2 then yoe + 1 else yoe) m d = true).
  { rewrite <- Hv. subst yoe y'. destruct (m <=? 2) eqn:E.
    - replace y with (y - 1 - era * 400 + 1 + 400 * era) at 2 by lia.
      symmetry. apply valid_date_mod400.
    - replace y with (y - era * 400 + 400 * era) at 2 by lia. symmetry. apply valid_date_mod400. }
  rewrite Hv' in Hc3. cbn [negb orb] in Hc3.
  apply andb_prop in Hc3. destruct Hc3 as [Hc3 Hy].
  apply andb_prop in Hc3. destruct Hc3 as [Hd0 Hd1].
  unfold civil_of_days.
  set (doe := doe_of_ymd yoe m d) in *.
  replace (era * 146097 + doe - 719468 + 719468) with (era * 146097 + doe) by lia.
  replace ((era * 146097 + doe) / 146097) with era by lia.
  replace (era * 146097 + doe - era * 146097) with doe by lia.
  destruct (ymd_of_doe doe) as [[yoe' m'] d'].
  apply andb_prop in Hy. destruct Hy as [Hy Hdd]. apply andb_prop in Hy. destruct Hy as [Hyy Hmm].
  apply Z.eqb_eq in Hyy, Hmm, Hdd. subst yoe' m' d'.
  f_equal. f_equal. subst yoe y'. destruct (m <=? 2); lia.
Qed.

Corollary civil_bijection_days : forall z,
  days_of_civil (fst (fst (civil_of_days z))) (snd (fst (civil_of_days z))) (snd (civil_of_days z)) = z.
Proof.
  intros z. pose proof (days_of_civil_of_days z) as H.
  destruct (civil_of_days z) as [[y m] d]. exact (proj1 H).
Qed.

Corollary civil_of_days_valid : forall z,
  let '(y, m, d) := civil_of_days z in valid_date y m d = true.
Proof.
  intros z. pose proof (days_of_civil_of_days z) as H.
  destruct (civil_of_days z) as [[y m] d]. exact (proj2 H).
Qed.

Corollary civil_of_days_inj : forall a b, civil_of_days a = civil_of_days b -> a = b.
Proof.
  intros a b H. rewrite <- (civil_bijection_days a), <- (civil_bijection_days b), H. reflexivity.
Qed.

(* ---------- consecutive day numbers are consecutive calendar dates ---------- *)
Lemma check_succ_all : range_all 146096 check_succ 0 = true.
Proof. vm_cast_no_check (eq_refl true). Qed.

Lemma date_eqb_eq : forall a b, date_eqb a b = true -> a = b.
Proof.
  intros [[y1 m1] d1] [[y2 m2] d2] H. unfold date_eqb in H.
  apply andb_prop in H. destruct H as [H Hd]. apply andb_prop in H. destruct H as [Hy Hm].
  apply Z.eqb_eq in Hy, Hm, Hd. subst. reflexivity.
Qed.

Lemma days_in_month_mod400 : forall y k m, days_in_month (y + 400 * k) m = days_in_month y m.
Proof. intros. unfold days_in_month. rewrite is_leap_mod400. reflexivity. Qed.

Lemma next_date_shift : forall y m d k,
  next_date (y + 400 * k, m, d) =
  let '(y', m', d') := next_date (y, m, d) in (y' + 400 * k, m', d').
Proof.
  intros y m d k. unfold next_date. rewrite days_in_month_mod400.
  destruct (d <? days_in_month y m); [reflexivity|].
  destruct (m <? 12); [reflexivity|]. f_equal. f_equal. lia.
Qed.

Lemma civil_of_days_era : forall z,
  let z' := z + 719468 in let era := z' / 146097 in let doe := z' - era * 146097 in
  civil_of_days z = let '(y, m, d) := cal_of_doe doe in (y + 400 * era, m, d).
Proof.
  intros z. cbv zeta. unfold civil_of_days, cal_of_doe.
  destruct (ymd_of_doe _) as [[yoe m] d]. destruct (m <=? 2); f_equal; f_equal; lia.
Qed.

Theorem civil_of_days_succ : forall z, civil_of_days (z + 1) = next_date (civil_of_days z).
Proof.
  intros z. rewrite (civil_of_days_era z), (civil_of_days_era (z + 1)). cbv zeta.
  set (z' := z + 719468). set (era := z' / 146097). set (doe := z' - era * 146097).
  assert (Hdoe : 0 <= doe < 146097) by (subst doe era; lia).
  replace (z + 1 + 719468) with (z' + 1) by (subst z'; lia).
  destruct (Z.eq_dec doe 146096) as [Hlast|Hnot].
  - (* last day of the era: 29 February of a year divisible by 400 *)
    assert (E1 : (z' + 1) / 146097 = era + 1) by (subst doe era; lia).
    rewrite E1. replace (z' + 1 - (era + 1) * 146097) with 0 by (subst doe; lia).
    rewrite Hlast. change (cal_of_doe 146096) with (400, 2, 29). change (cal_of_doe 0) with (0, 3, 1).
    unfold next_date. 
    replace (days_in_month (400 + 400 * era) 2) with 29.
    + cbn. f_equal. f_equal. lia.
    + replace (400 + 400 * era) with (0 + 400 * (era + 1)) by lia.
      rewrite days_in_month_mod400. reflexivity.
  - assert (E1 : (z' + 1) / 146097 = era) by (subst doe era; lia).
    rewrite E1. replace (z' + 1 - era * 146097) with (doe + 1) by (subst doe; lia).
    pose proof (range_all_spec _ _ _ check_succ_all doe ltac:(lia)) as Hc.
    apply date_eqb_eq in Hc. rewrite <- Hc.
    destruct (cal_of_doe doe) as [[y m] d]. rewrite next_date_shift. reflexivity.
Qed.

(* together with this anchor, [civil_of_days_succ] determines civil_of_days completely: it IS the
   proleptic Gregorian calendar, not merely some bijection *)
Lemma civil_of_days_anchor : civil_of_days 0 = (1970, 1, 1).
Proof. reflexivity. Qed.
